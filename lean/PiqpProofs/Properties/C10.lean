import PiqpProofs.Basic
import PiqpModel.Api
import PiqpProofs.Properties.C13
import PiqpProofs.Properties.C14
import Mathlib.Tactic.SplitIfs
import PiqpProofs.Properties.C02
import PiqpProofs.Garbage

/-!
# C10 — the answer does not depend on back end, KKT formulation or storage of P
-/

namespace Piqp.C10

variable {K : Type}
variable [Zero K]
variable {n : Nat}

/-- only the upper triangle of the `P` argument is read: two arguments that agree on and above the diagonal are
    stored identically -/
theorem upperOfMat_reads_upper_only (A B : Mat K n n)
    (h : ∀ i j : Fin n, i.val ≤ j.val → A[i][j] = B[i][j]) : upperOfMat A = upperOfMat B := by
  unfold upperOfMat Mat.ofFn
  apply Vector.ext
  intro i hi
  simp only [Vector.getElem_ofFn]
  apply Vector.ext
  intro j hj
  simp only [Vector.getElem_ofFn]
  split
  · rename_i hle
    exact h ⟨i, hi⟩ ⟨j, hj⟩ hle
  · rfl

end Piqp.C10

namespace Piqp.C10
set_option linter.unusedSectionVars false
set_option linter.unusedVariables false
section agree
open Piqp.C13
variable {K : Type} [Field K] [LinearOrder K]
variable {n p m : Nat}

/-- two KKT states (of possibly different back ends) carry the same regularisation and scalings -/
structure SameScalings (k1 k2 : KKT K n p m) : Prop where
  rho : k1.rho = k2.rho
  delta : k1.delta = k2.delta
  s : k1.s = k2.s
  zinv : k1.zinv = k2.zinv
  s_lb : k1.s_lb = k2.s_lb
  zinv_lb : k1.zinv_lb = k2.zinv_lb
  s_ub : k1.s_ub = k2.s_ub
  zinv_ub : k1.zinv_ub = k2.zinv_ub

theorem multiply_congr (d : Data K n p m) (k1 k2 : KKT K n p m) (h : SameScalings k1 k2) (v old : Step K n p m) :
    KKT.multiply d k1 v old = KKT.multiply d k2 v old := by
  unfold KKT.multiply
  rw [h.rho, h.delta, h.s, h.zinv, h.s_lb, h.zinv_lb, h.s_ub, h.zinv_ub]

/-- **C10, all back ends compute the same step.** Two back ends (any two of dense / full / eq- / ineq- / all-eliminated)
    whose reduced matrices are coherent with the same data and scalings and whose inner factorisations are exact return
    steps with the same image under the full Newton operator; if that operator is injective (the system is nonsingular,
    which positive `ρ, δ` and an interior iterate guarantee for a convex problem), the steps are equal. -/
theorem backends_agree_exact (be1 be2 : Backend) (st1 st2 : KKTSettings K) (d : Data K n p m) (k1 k2 : KKT K n p m)
    (r old out1 out2 : Step K n p m) (slv1 slv2 : SolveFn K n p m)
    (hsame : SameScalings k1 k2)
    (hf1 : k1.fsol = some slv1) (hc1 : Coherent be1 d k1) (he1 : InnerExact be1 k1.k slv1) (hi1 : Interior d k1)
    (hf2 : k2.fsol = some slv2) (hc2 : Coherent be2 d k2) (he2 : InnerExact be2 k2.k slv2) (hi2 : Interior d k2)
    (h1 : KKT.solve be1 st1 d k1 r old false = some out1) (h2 : KKT.solve be2 st2 d k2 r old false = some out2) :
    KKT.multiply d k1 out1 old = KKT.multiply d k1 out2 old ∧
    ((∀ v v' : Step K n p m, KKT.multiply d k1 v old = KKT.multiply d k1 v' old → v = v') → out1 = out2) := by
  have A := solve_solves_full_system be1 st1 d k1 r old out1 slv1 hf1 hc1 he1 hi1 h1
  have B := solve_solves_full_system be2 st2 d k2 r old out2 slv2 hf2 hc2 he2 hi2 h2
  rw [← multiply_congr d k1 k2 hsame out2 old] at B
  obtain ⟨a1, a2, a3, a4, a5, a6, a7, a8⟩ := A
  obtain ⟨b1, b2, b3, b4, b5, b6, b7, b8⟩ := B
  have key : KKT.multiply d k1 out1 old = KKT.multiply d k1 out2 old := by
    have ext : ∀ (u v : Step K n p m), u.x = v.x → u.y = v.y → u.z = v.z → u.z_lb = v.z_lb → u.z_ub = v.z_ub →
        u.s = v.s → u.s_lb = v.s_lb → u.s_ub = v.s_ub → u = v := by
      intro u v e1 e2 e3 e4 e5 e6 e7 e8; cases u; cases v; simp_all
    apply ext
    · exact Vector.ext fun i hi => by have := a1 ⟨i, hi⟩; have := b1 ⟨i, hi⟩; simp_all
    · exact Vector.ext fun i hi => by have := a2 ⟨i, hi⟩; have := b2 ⟨i, hi⟩; simp_all
    · exact Vector.ext fun i hi => by have := a3 ⟨i, hi⟩; have := b3 ⟨i, hi⟩; simp_all
    · exact Vector.ext fun i hi => by have := a5 ⟨i, hi⟩; have := b5 ⟨i, hi⟩; simp_all
    · exact Vector.ext fun i hi => by have := a7 ⟨i, hi⟩; have := b7 ⟨i, hi⟩; simp_all
    · exact Vector.ext fun i hi => by have := a4 ⟨i, hi⟩; have := b4 ⟨i, hi⟩; simp_all
    · exact Vector.ext fun i hi => by have := a6 ⟨i, hi⟩; have := b6 ⟨i, hi⟩; simp_all
    · exact Vector.ext fun i hi => by have := a8 ⟨i, hi⟩; have := b8 ⟨i, hi⟩; simp_all
  exact ⟨key, fun hinj => hinj _ _ key⟩

end agree
end Piqp.C10

namespace Piqp.C10
set_option linter.unusedSectionVars false
set_option linter.unusedSimpArgs false
set_option linter.unusedVariables false
section api
variable {K : Type}
variable [Add K] [Sub K] [Mul K] [Div K] [Neg K] [Zero K] [One K] [LT K] [DecidableLT K] [LE K] [DecidableLE K]
variable [NatCast K] [BEq K] [Inhabited K]

/-- `P` with other entries: same shape, arbitrary content -/
def withEnt (P : RawMat K) (ent : Array (Option K)) : RawMat K := { P with ent := ent }

/-- the two arguments agree on and above the diagonal (values and storedness) -/
def UpperAgree (P : RawMat K) (ent : Array (Option K)) : Prop :=
  ∀ i j : Nat, i ≤ j → j < P.cols → P.get i j = (withEnt P ent).get i j

theorem toMat_upper (P : RawMat K) (ent : Array (Option K)) (h : UpperAgree P ent) (hsq : P.cols = P.rows) :
    upperOfMat (P.toMat P.rows P.rows) = upperOfMat ((withEnt P ent).toMat P.rows P.rows) := by
  apply upperOfMat_reads_upper_only
  intro i j hij
  simp only [RawMat.toMat, Mat.ofFn, Fin.getElem_fin, Vector.getElem_ofFn]
  rw [h i.val j.val hij (by rw [hsq]; exact j.isLt)]

theorem upperMask_upper (P : RawMat K) (ent : Array (Option K)) (h : UpperAgree P ent) :
    upperMask P = upperMask (withEnt P ent) := by
  unfold upperMask
  show Array.ofFn _ = Array.ofFn (n := P.rows * P.cols) _
  congr 1
  funext k
  simp only [withEnt]
  by_cases hle : k.val / P.cols ≤ k.val % P.cols
  · have hc : 0 < P.cols := by
      rcases Nat.eq_zero_or_pos P.cols with h0 | h0
      · have hk : k.val < P.rows * P.cols := k.isLt
        have : P.rows * P.cols = 0 := by rw [h0]; exact Nat.mul_zero _
        omega
      · exact h0
    have := h (k.val / P.cols) (k.val % P.cols) hle (Nat.mod_lt _ hc)
    simp only [RawMat.stored, this, withEnt]
    rfl
  · simp [hle]

variable (cs : Consts K) (sqrtF : K → K) (poison : K)

theorem setupTyped_congr_P {n p m : Nat} (hn : 0 < n) (be : Backend) (pk : PrecKind) (st : Settings K) (prevInfo : Info K)
    (P P' : Mat K n n) (c : Vec K n) (AT : Mat K n p) (b : Vec K p) (GT : Mat K n m) (h : Option (Vec K m))
    (xlb xub : Option (Vec K n)) (hP : upperOfMat P = upperOfMat P') :
    setupTyped cs sqrtF poison hn be pk st prevInfo P c AT b GT h xlb xub =
    setupTyped cs sqrtF poison hn be pk st prevInfo P' c AT b GT h xlb xub := by
  unfold setupTyped setupRaw
  simp only [hP]

/-- **C10, storage of `P` at `setup`**: whatever the caller stores strictly below the diagonal of `P` (nothing, the
    symmetric values, garbage), every back end reaches the same state. -/
theorem setup_lower_triangle_irrelevant (st : ApiState K) (be : Backend) (pk : PrecKind) (P : RawMat K) (ent : Array (Option K))
    (c : RawVec K) (A : Option (RawMat K)) (b : Option (RawVec K)) (G : Option (RawMat K)) (h : Option (RawVec K))
    (xlb xub : Option (RawVec K)) (hu : UpperAgree P ent) :
    apiStep cs sqrtF poison st (.setup be pk P c A b G h xlb xub) =
    apiStep cs sqrtF poison st (.setup be pk (withEnt P ent) c A b G h xlb xub) := by
  simp only [apiStep]
  have hval : validateSetup (withEnt P ent) c A b G h xlb xub = validateSetup P c A b G h xlb xub := rfl
  rw [hval]
  cases hv : validateSetup P c A b G h xlb xub with
  | some msg => rfl
  | none =>
    simp only
    have hsq : P.cols = P.rows := by
      unfold validateSetup at hv
      simp only at hv
      split_ifs at hv with h1
      exact Classical.not_not.mp h1
    by_cases hn : 0 < P.rows
    · have hn' : 0 < (withEnt P ent).rows := hn
      simp only [hn, hn', dite_true]
      rw [← upperMask_upper P ent hu]
      simp only [withEnt] at *
      rw [setupTyped_congr_P cs sqrtF poison hn be pk st.settings _ _ _ _ _ _ _ _ _ _ (toMat_upper P ent hu hsq)]
      rfl
    · have hn' : ¬ 0 < (withEnt P ent).rows := hn
      simp only [hn, hn', dite_false]

theorem orElse_none_left {α : Type} {x y : Option α} (h : (x <|> y) = none) : x = none := by
  cases x with
  | none => rfl
  | some v => cases h

theorem validateUpdate_dims (a : AnySolver K) (P : RawMat K) (c : Option (RawVec K))
    (A : Option (RawMat K)) (b : Option (RawVec K)) (G : Option (RawMat K)) (h : Option (RawVec K))
    (xlb xub : Option (RawVec K)) (hv : validateUpdate a false (some P) c A b G h xlb xub = none) :
    P.rows = a.n ∧ P.cols = a.n := by
  unfold validateUpdate at hv
  simp only at hv
  have h1 := orElse_none_left hv
  by_contra hne
  have hc : (decide (P.rows ≠ a.n) || decide (P.cols ≠ a.n)) = true := by
    simp only [Bool.or_eq_true, decide_eq_true_eq, ne_eq]
    by_cases h1 : P.rows = a.n
    · right; intro h2; exact hne ⟨h1, h2⟩
    · left; exact h1
  rw [if_pos hc] at h1
  cases h1

theorem updateTyped_congr_P {n p m : Nat} (maskP : Array Bool) (s : Solver K n p m)
    (P P' : Mat K n n) (c : Option (Vec K n)) (A : Option (Mat K p n)) (b : Option (Vec K p))
    (G : Option (Mat K m n)) (h : Option (Vec K m)) (xlb xub : Option (Vec K n)) (reuse : Bool) (hP : upperOfMat P = upperOfMat P') :
    updateTyped cs sqrtF false maskP s (some P) c A b G h xlb xub reuse =
    updateTyped cs sqrtF false maskP s (some P') c A b G h xlb xub reuse := by
  unfold updateTyped updateRaw
  simp only [hP, Bool.false_eq_true, if_false, Option.isSome_some]

/-- **C10, storage of `P` at `update` (dense back end)**: the strictly lower triangle of a new `P` is never read. -/
theorem update_lower_triangle_irrelevant (st : ApiState K) (a : AnySolver K) (hsol : st.sol = some a) (hd : a.s.be.isDense = true)
    (P : RawMat K) (ent : Array (Option K))
    (c : Option (RawVec K)) (A : Option (RawMat K)) (b : Option (RawVec K)) (G : Option (RawMat K)) (h : Option (RawVec K))
    (xlb xub : Option (RawVec K)) (reuse : Bool) (hu : UpperAgree P ent) :
    apiStep cs sqrtF poison st (.update (some P) c A b G h xlb xub reuse) =
    apiStep cs sqrtF poison st (.update (some (withEnt P ent)) c A b G h xlb xub reuse) := by
  simp only [apiStep, hsol, hd, Bool.not_true]
  have hval : validateUpdate a false (some (withEnt P ent)) c A b G h xlb xub = validateUpdate a false (some P) c A b G h xlb xub := rfl
  rw [hval]
  cases hv : validateUpdate a false (some P) c A b G h xlb xub with
  | some msg => rfl
  | none =>
    simp only
    have hdim : P.rows = a.n ∧ P.cols = a.n := validateUpdate_dims a _ _ _ _ _ _ _ _ hv
    obtain ⟨n, p, m, hn, s, mP, mA, mG, perm⟩ := a
    simp only at hdim hd ⊢
    obtain ⟨h1, h2⟩ := hdim
    have hsq : P.cols = P.rows := by rw [h1, h2]
    have hmat : upperOfMat (P.toMat n n) = upperOfMat ((withEnt P ent).toMat n n) := by
      have := toMat_upper P ent hu hsq
      rw [h1] at this
      exact this
    simp only [optMat, Option.map_some]
    rw [updateTyped_congr_P cs sqrtF mP s _ _ _ _ _ _ _ _ _ reuse hmat]
end api
end Piqp.C10

/-! ## Injectivity of the full Newton operator, and equal steps across back ends

`backends_agree_exact` concludes `out1 = out2` from an injectivity hypothesis that, as stated there (for *all* steps, dead tails
included), no state with an inactive box slot can meet. `multiply_injective` proves the injectivity that is actually needed —
on steps agreeing on the dead tails — for convex problems at interior iterates (energy argument, `newton_kernel_trivial`), and
`backends_agree_convex` is the resulting statement without unmet hypotheses. -/

set_option linter.unusedSectionVars false
set_option linter.unusedSimpArgs false
set_option linter.unusedVariables false
namespace Piqp.C10
open Finset
section kernel
variable {K : Type} [Field K] [LinearOrder K] [IsStrictOrderedRing K]
variable {n p m : Nat}

theorem sum_scatter_f (act : Fin n → Prop) [DecidablePred act] (idx : Fin n → Fin n) (f x : Fin n → K) :
    (∑ j : Fin n, x j * ∑ a : Fin n, if act a ∧ idx a = j then f a else 0) = ∑ a : Fin n, if act a then f a * x (idx a) else 0 := by
  simp only [Finset.mul_sum]
  rw [Finset.sum_comm]
  refine Finset.sum_congr rfl fun a _ => ?_
  by_cases ha : act a
  · simp only [ha, true_and, if_true]
    rw [Finset.sum_eq_single (idx a)]
    · rw [if_pos rfl]; ring
    · intro j _ hj
      have : ¬ idx a = j := fun e => hj e.symm
      rw [if_neg this, mul_zero]
    · intro h; exact absurd (Finset.mem_univ _) h
  · simp [ha]

theorem sum_swap_f {q : Nat} (M : Fin n → Fin q → K) (x : Fin n → K) (y : Fin q → K) :
    (∑ j : Fin n, x j * ∑ t : Fin q, M j t * y t) = ∑ t : Fin q, y t * ∑ j : Fin n, M j t * x j := by
  simp only [Finset.mul_sum]
  rw [Finset.sum_comm]
  exact Finset.sum_congr rfl fun t _ => Finset.sum_congr rfl fun j _ => by ring

theorem slack_of (sv zinv wz ws : K) (hz : 0 < zinv) (h : sv * wz + (1 / zinv) * ws = 0) : ws = -(sv * zinv) * wz := by
  have hne : zinv ≠ 0 := ne_of_gt hz
  have h2 : ws = -(sv * wz) * zinv := by
    have : (1 / zinv) * ws = -(sv * wz) := by linear_combination h
    calc ws = zinv * ((1 / zinv) * ws) := by field_simp
      _ = zinv * (-(sv * wz)) := by rw [this]
      _ = -(sv * wz) * zinv := by ring
  rw [h2]; ring

/-- **the full regularised Newton operator of a convex problem at an interior iterate has a trivial kernel** (on the live
    slots), stated for plain index functions: the energy argument
    `0 = wxᵀ(row x) = wxᵀP wx + ρ‖wx‖² + δ‖wy‖² + Σ (δ + s·z⁻¹) wz² + Σ_act (…) wzl² + Σ_act (…) wzu²` -/
theorem newton_kernel_trivial (Pm : Fin n → Fin n → K) (AT : Fin n → Fin p → K) (GT : Fin n → Fin m → K)
    (actl actu : Fin n → Prop) [DecidablePred actl] [DecidablePred actu] (idxl idxu : Fin n → Fin n) (scl scu : Fin n → K)
    (ρ δ : K) (sv zinv : Fin m → K) (sl zl su zu : Fin n → K)
    (hP : ∀ x : Fin n → K, 0 ≤ ∑ j : Fin n, x j * ∑ c : Fin n, Pm j c * x c) (hρ : 0 < ρ) (hδ : 0 < δ)
    (hs : ∀ t, 0 < sv t) (hz : ∀ t, 0 < zinv t)
    (hsl : ∀ a, actl a → 0 < sl a) (hzl : ∀ a, actl a → 0 < zl a) (hsu : ∀ a, actu a → 0 < su a) (hzu : ∀ a, actu a → 0 < zu a)
    (wx : Fin n → K) (wy : Fin p → K) (wz ws : Fin m → K) (wzl wsl wzu wsu : Fin n → K)
    (hX : ∀ j, (∑ c, Pm j c * wx c) + ρ * wx j + ((∑ t, AT j t * wy t) + ∑ t, GT j t * wz t)
        - (∑ a, if actl a ∧ idxl a = j then scl a * wzl a else 0) + (∑ a, if actu a ∧ idxu a = j then scu a * wzu a else 0) = 0)
    (hY : ∀ t, (∑ i, AT i t * wx i) - δ * wy t = 0)
    (hZ : ∀ t, (∑ i, GT i t * wx i) - δ * wz t + ws t = 0)
    (hZL : ∀ a, actl a → -scl a * wx (idxl a) - δ * wzl a + wsl a = 0)
    (hZU : ∀ a, actu a → scu a * wx (idxu a) - δ * wzu a + wsu a = 0)
    (hS : ∀ t, sv t * wz t + (1 / zinv t) * ws t = 0)
    (hSL : ∀ a, actl a → sl a * wzl a + (1 / zl a) * wsl a = 0)
    (hSU : ∀ a, actu a → su a * wzu a + (1 / zu a) * wsu a = 0) :
    (∀ j, wx j = 0) ∧ (∀ t, wy t = 0) ∧ (∀ t, wz t = 0) ∧ (∀ t, ws t = 0) ∧
    (∀ a, actl a → wzl a = 0 ∧ wsl a = 0) ∧ (∀ a, actu a → wzu a = 0 ∧ wsu a = 0) := by
  have ews : ∀ t, ws t = -(sv t * zinv t) * wz t := fun t => slack_of _ _ _ _ (hz t) (hS t)
  have ewsl : ∀ a, actl a → wsl a = -(sl a * zl a) * wzl a := fun a ha => slack_of _ _ _ _ (hzl a ha) (hSL a ha)
  have ewsu : ∀ a, actu a → wsu a = -(su a * zu a) * wzu a := fun a ha => slack_of _ _ _ _ (hzu a ha) (hSU a ha)
  have hE : (∑ j, wx j * ((∑ c, Pm j c * wx c) + ρ * wx j + ((∑ t, AT j t * wy t) + ∑ t, GT j t * wz t)
        - (∑ a, if actl a ∧ idxl a = j then scl a * wzl a else 0) + (∑ a, if actu a ∧ idxu a = j then scu a * wzu a else 0))) = 0 :=
    Finset.sum_eq_zero fun j _ => by rw [hX j, mul_zero]
  simp only [mul_add, mul_sub, Finset.sum_add_distrib, Finset.sum_sub_distrib] at hE
  rw [sum_swap_f AT wx wy, sum_swap_f GT wx wz, sum_scatter_f actl idxl (fun a => scl a * wzl a) wx,
    sum_scatter_f actu idxu (fun a => scu a * wzu a) wx] at hE
  have tY : (∑ t, wy t * ∑ j, AT j t * wx j) = ∑ t, δ * (wy t * wy t) :=
    Finset.sum_congr rfl fun t _ => by have := hY t; linear_combination wy t * this
  have tZ : (∑ t, wz t * ∑ j, GT j t * wx j) = ∑ t, (δ + sv t * zinv t) * (wz t * wz t) :=
    Finset.sum_congr rfl fun t _ => by have := hZ t; have e := ews t; linear_combination wz t * this - wz t * e
  have tL : (∑ a, if actl a then scl a * wzl a * wx (idxl a) else 0) =
      -∑ a, if actl a then (δ + sl a * zl a) * (wzl a * wzl a) else 0 := by
    rw [← Finset.sum_neg_distrib]
    refine Finset.sum_congr rfl fun a _ => ?_
    by_cases ha : actl a
    · simp only [ha, if_true]
      have := hZL a ha; have e := ewsl a ha
      linear_combination (-wzl a) * this + wzl a * e
    · simp [ha]
  have tU : (∑ a, if actu a then scu a * wzu a * wx (idxu a) else 0) =
      ∑ a, if actu a then (δ + su a * zu a) * (wzu a * wzu a) else 0 := by
    refine Finset.sum_congr rfl fun a _ => ?_
    by_cases ha : actu a
    · simp only [ha, if_true]
      have := hZU a ha; have e := ewsu a ha
      linear_combination wzu a * this - wzu a * e
    · simp [ha]
  rw [tY, tZ, tL, tU] at hE
  have q1 : 0 ≤ ∑ j, wx j * ∑ c, Pm j c * wx c := hP wx
  have n2 : ∀ j ∈ (Finset.univ : Finset (Fin n)), 0 ≤ wx j * (ρ * wx j) := fun j _ => by nlinarith [mul_self_nonneg (wx j)]
  have n3 : ∀ t ∈ (Finset.univ : Finset (Fin p)), 0 ≤ δ * (wy t * wy t) := fun t _ => mul_nonneg (le_of_lt hδ) (mul_self_nonneg _)
  have n4 : ∀ t ∈ (Finset.univ : Finset (Fin m)), 0 ≤ (δ + sv t * zinv t) * (wz t * wz t) :=
    fun t _ => mul_nonneg (by have := mul_pos (hs t) (hz t); linarith) (mul_self_nonneg _)
  have n5 : ∀ a ∈ (Finset.univ : Finset (Fin n)), 0 ≤ (if actl a then (δ + sl a * zl a) * (wzl a * wzl a) else 0) := fun a _ => by
    split
    · rename_i ha; exact mul_nonneg (by have := mul_pos (hsl a ha) (hzl a ha); linarith) (mul_self_nonneg _)
    · exact le_refl _
  have n6 : ∀ a ∈ (Finset.univ : Finset (Fin n)), 0 ≤ (if actu a then (δ + su a * zu a) * (wzu a * wzu a) else 0) := fun a _ => by
    split
    · rename_i ha; exact mul_nonneg (by have := mul_pos (hsu a ha) (hzu a ha); linarith) (mul_self_nonneg _)
    · exact le_refl _
  have q2 := Finset.sum_nonneg n2
  have q3 := Finset.sum_nonneg n3
  have q4 := Finset.sum_nonneg n4
  have q5 := Finset.sum_nonneg n5
  have q6 := Finset.sum_nonneg n6
  have z2 : (∑ j, wx j * (ρ * wx j)) = 0 := by linarith
  have z3 : (∑ t, δ * (wy t * wy t)) = 0 := by linarith
  have z4 : (∑ t, (δ + sv t * zinv t) * (wz t * wz t)) = 0 := by linarith
  have z5 : (∑ a, if actl a then (δ + sl a * zl a) * (wzl a * wzl a) else 0) = 0 := by linarith
  have z6 : (∑ a, if actu a then (δ + su a * zu a) * (wzu a * wzu a) else 0) = 0 := by linarith
  have hx0 : ∀ j, wx j = 0 := by
    intro j
    have := (Finset.sum_eq_zero_iff_of_nonneg n2).mp z2 j (Finset.mem_univ j)
    have h2 : wx j * wx j = 0 := by
      have : ρ * (wx j * wx j) = 0 := by linarith
      rcases mul_eq_zero.mp this with h | h
      · exact absurd h (ne_of_gt hρ)
      · exact h
    exact mul_self_eq_zero.mp h2
  have hy0 : ∀ t, wy t = 0 := by
    intro t
    have := (Finset.sum_eq_zero_iff_of_nonneg n3).mp z3 t (Finset.mem_univ t)
    rcases mul_eq_zero.mp this with h | h
    · exact absurd h (ne_of_gt hδ)
    · exact mul_self_eq_zero.mp h
  have hz0 : ∀ t, wz t = 0 := by
    intro t
    have := (Finset.sum_eq_zero_iff_of_nonneg n4).mp z4 t (Finset.mem_univ t)
    rcases mul_eq_zero.mp this with h | h
    · have := mul_pos (hs t) (hz t); linarith
    · exact mul_self_eq_zero.mp h
  have hzl0 : ∀ a, actl a → wzl a = 0 := by
    intro a ha
    have := (Finset.sum_eq_zero_iff_of_nonneg n5).mp z5 a (Finset.mem_univ a)
    simp only [ha, if_true] at this
    rcases mul_eq_zero.mp this with h | h
    · have := mul_pos (hsl a ha) (hzl a ha); linarith
    · exact mul_self_eq_zero.mp h
  have hzu0 : ∀ a, actu a → wzu a = 0 := by
    intro a ha
    have := (Finset.sum_eq_zero_iff_of_nonneg n6).mp z6 a (Finset.mem_univ a)
    simp only [ha, if_true] at this
    rcases mul_eq_zero.mp this with h | h
    · have := mul_pos (hsu a ha) (hzu a ha); linarith
    · exact mul_self_eq_zero.mp h
  refine ⟨hx0, hy0, hz0, fun t => by rw [ews t, hz0 t, mul_zero], fun a ha => ⟨hzl0 a ha, by rw [ewsl a ha, hzl0 a ha, mul_zero]⟩,
    fun a ha => ⟨hzu0 a ha, by rw [ewsu a ha, hzu0 a ha, mul_zero]⟩⟩
end kernel

section inj
open Piqp.C13
variable {K : Type} [Field K] [LinearOrder K] [IsStrictOrderedRing K]
variable {n p m : Nat}

theorem mult_x (d : Data K n p m) (k : KKT K n p m) (v old : Step K n p m) (j : Fin n) :
    (KKT.multiply d k v old).x[j] = (∑ c : Fin n, d.Psym[j][c] * v.x[c]) + k.rho * v.x[j] +
      ((∑ t : Fin p, d.AT[j][t] * v.y[t]) + ∑ t : Fin m, d.GT[j][t] * v.z[t])
      - (∑ a : Fin n, if d.lb.act a ∧ d.lb.idx[a] = j then d.lb.sc[a] * v.z_lb[a] else 0)
      + (∑ a : Fin n, if d.ub.act a ∧ d.ub.idx[a] = j then d.ub.sc[a] * v.z_ub[a] else 0) := by
  simp only [KKT.multiply, C13.ofFn_get, C13.mulVec_get, C13.scatter_get]
theorem mult_y (d : Data K n p m) (k : KKT K n p m) (v old : Step K n p m) (t : Fin p) :
    (KKT.multiply d k v old).y[t] = (∑ i : Fin n, d.AT[i][t] * v.x[i]) - k.delta * v.y[t] := by
  simp only [KKT.multiply, C13.ofFn_get, C13.mulVecT_get]
theorem mult_z (d : Data K n p m) (k : KKT K n p m) (v old : Step K n p m) (t : Fin m) :
    (KKT.multiply d k v old).z[t] = (∑ i : Fin n, d.GT[i][t] * v.x[i]) - k.delta * v.z[t] + v.s[t] := by
  simp only [KKT.multiply, C13.ofFn_get, C13.mulVecT_get]
theorem mult_s (d : Data K n p m) (k : KKT K n p m) (v old : Step K n p m) (t : Fin m) :
    (KKT.multiply d k v old).s[t] = k.s[t] * v.z[t] + (1 / k.zinv[t]) * v.s[t] := by
  simp only [KKT.multiply, C13.ofFn_get]
theorem mult_zl (d : Data K n p m) (k : KKT K n p m) (v old : Step K n p m) (a : Fin n) (ha : d.lb.act a) :
    (KKT.multiply d k v old).z_lb[a] = -d.lb.sc[a] * v.x[d.lb.idx[a]] - k.delta * v.z_lb[a] + v.s_lb[a] := by
  simp only [KKT.multiply, C13.headUpd_get, ha, if_true]
theorem mult_zu (d : Data K n p m) (k : KKT K n p m) (v old : Step K n p m) (a : Fin n) (ha : d.ub.act a) :
    (KKT.multiply d k v old).z_ub[a] = d.ub.sc[a] * v.x[d.ub.idx[a]] - k.delta * v.z_ub[a] + v.s_ub[a] := by
  simp only [KKT.multiply, C13.headUpd_get, ha, if_true]
theorem mult_sl (d : Data K n p m) (k : KKT K n p m) (v old : Step K n p m) (a : Fin n) (ha : d.lb.act a) :
    (KKT.multiply d k v old).s_lb[a] = k.s_lb[a] * v.z_lb[a] + (1 / k.zinv_lb[a]) * v.s_lb[a] := by
  simp only [KKT.multiply, C13.headUpd_get, ha, if_true]
theorem mult_su (d : Data K n p m) (k : KKT K n p m) (v old : Step K n p m) (a : Fin n) (ha : d.ub.act a) :
    (KKT.multiply d k v old).s_ub[a] = k.s_ub[a] * v.z_ub[a] + (1 / k.zinv_ub[a]) * v.s_ub[a] := by
  simp only [KKT.multiply, C13.headUpd_get, ha, if_true]

theorem sum_mul_sub {q : Nat} (f x y : Fin q → K) : (∑ a, f a * (x a - y a)) = (∑ a, f a * x a) - ∑ a, f a * y a := by
  simp only [mul_sub, Finset.sum_sub_distrib]

theorem sum_ite_mul_sub {q : Nat} (c : Fin q → Prop) [DecidablePred c] (f x y : Fin q → K) :
    (∑ a, if c a then f a * (x a - y a) else 0) = (∑ a, if c a then f a * x a else 0) - ∑ a, if c a then f a * y a else 0 := by
  rw [← Finset.sum_sub_distrib]
  refine Finset.sum_congr rfl fun a _ => ?_
  split
  · ring
  · ring

theorem step_ext (u v : Step K n p m) (e1 : u.x = v.x) (e2 : u.y = v.y) (e3 : u.z = v.z) (e4 : u.z_lb = v.z_lb) (e5 : u.z_ub = v.z_ub)
    (e6 : u.s = v.s) (e7 : u.s_lb = v.s_lb) (e8 : u.s_ub = v.s_ub) : u = v := by
  cases u; cases v; simp_all

/-- **the full regularised Newton operator is injective on a convex problem at an interior iterate** (for steps that agree on
    the dead tails of the box blocks, which `KKT.multiply` does not read) -/
theorem multiply_injective (d : Data K n p m) (k : KKT K n p m) (old : Step K n p m)
    (hP : ∀ x : Vec K n, 0 ≤ C14.quad d.Psym x) (hρ : 0 < k.rho) (hδ : 0 < k.delta)
    (hs : ∀ t : Fin m, 0 < k.s[t]) (hz : ∀ t : Fin m, 0 < k.zinv[t])
    (hsl : ∀ a : Fin n, d.lb.act a → 0 < k.s_lb[a]) (hzl : ∀ a : Fin n, d.lb.act a → 0 < k.zinv_lb[a])
    (hsu : ∀ a : Fin n, d.ub.act a → 0 < k.s_ub[a]) (hzu : ∀ a : Fin n, d.ub.act a → 0 < k.zinv_ub[a])
    (u v : Step K n p m)
    (htl : ∀ a : Fin n, ¬ d.lb.act a → u.z_lb[a] = v.z_lb[a] ∧ u.s_lb[a] = v.s_lb[a])
    (htu : ∀ a : Fin n, ¬ d.ub.act a → u.z_ub[a] = v.z_ub[a] ∧ u.s_ub[a] = v.s_ub[a])
    (h : KKT.multiply d k u old = KKT.multiply d k v old) : u = v := by
  have hP' : ∀ x : Fin n → K, 0 ≤ ∑ j : Fin n, x j * ∑ c : Fin n, d.Psym[j][c] * x c := by
    intro x
    have := hP (Vector.ofFn x)
    unfold C14.quad at this
    simpa only [C13.ofFn_get] using this
  have hk := newton_kernel_trivial (fun j c => d.Psym[j][c]) (fun j t => d.AT[j][t]) (fun j t => d.GT[j][t])
    d.lb.act d.ub.act (fun a => d.lb.idx[a]) (fun a => d.ub.idx[a]) (fun a => d.lb.sc[a]) (fun a => d.ub.sc[a])
    k.rho k.delta (fun t => k.s[t]) (fun t => k.zinv[t]) (fun a => k.s_lb[a]) (fun a => k.zinv_lb[a]) (fun a => k.s_ub[a]) (fun a => k.zinv_ub[a])
    hP' hρ hδ hs hz hsl hzl hsu hzu
    (fun j => u.x[j] - v.x[j]) (fun t => u.y[t] - v.y[t]) (fun t => u.z[t] - v.z[t]) (fun t => u.s[t] - v.s[t])
    (fun a => u.z_lb[a] - v.z_lb[a]) (fun a => u.s_lb[a] - v.s_lb[a]) (fun a => u.z_ub[a] - v.z_ub[a]) (fun a => u.s_ub[a] - v.s_ub[a])
    (by
      intro j
      have e := congrArg (fun s => s.x[j]) h
      simp only [mult_x] at e
      simp only [sum_mul_sub, sum_ite_mul_sub]
      linear_combination e)
    (by
      intro t
      have e := congrArg (fun s => s.y[t]) h
      simp only [mult_y] at e
      simp only [sum_mul_sub]
      linear_combination e)
    (by
      intro t
      have e := congrArg (fun s => s.z[t]) h
      simp only [mult_z] at e
      simp only [sum_mul_sub]
      linear_combination e)
    (by
      intro a ha
      have e := congrArg (fun s => s.z_lb[a]) h
      simp only [mult_zl d k _ old a ha] at e
      linear_combination e)
    (by
      intro a ha
      have e := congrArg (fun s => s.z_ub[a]) h
      simp only [mult_zu d k _ old a ha] at e
      linear_combination e)
    (by
      intro t
      have e := congrArg (fun s => s.s[t]) h
      simp only [mult_s] at e
      linear_combination e)
    (by
      intro a ha
      have e := congrArg (fun s => s.s_lb[a]) h
      simp only [mult_sl d k _ old a ha] at e
      linear_combination e)
    (by
      intro a ha
      have e := congrArg (fun s => s.s_ub[a]) h
      simp only [mult_su d k _ old a ha] at e
      linear_combination e)
  obtain ⟨kx, ky, kz, ks, kl, ku⟩ := hk
  apply step_ext
  · exact Vector.ext fun i hi => sub_eq_zero.mp (kx ⟨i, hi⟩)
  · exact Vector.ext fun i hi => sub_eq_zero.mp (ky ⟨i, hi⟩)
  · exact Vector.ext fun i hi => sub_eq_zero.mp (kz ⟨i, hi⟩)
  · exact Vector.ext fun i hi => by
      by_cases ha : d.lb.act ⟨i, hi⟩
      · exact sub_eq_zero.mp (kl ⟨i, hi⟩ ha).1
      · exact (htl ⟨i, hi⟩ ha).1
  · exact Vector.ext fun i hi => by
      by_cases ha : d.ub.act ⟨i, hi⟩
      · exact sub_eq_zero.mp (ku ⟨i, hi⟩ ha).1
      · exact (htu ⟨i, hi⟩ ha).1
  · exact Vector.ext fun i hi => sub_eq_zero.mp (ks ⟨i, hi⟩)
  · exact Vector.ext fun i hi => by
      by_cases ha : d.lb.act ⟨i, hi⟩
      · exact sub_eq_zero.mp (kl ⟨i, hi⟩ ha).2
      · exact (htl ⟨i, hi⟩ ha).2
  · exact Vector.ext fun i hi => by
      by_cases ha : d.ub.act ⟨i, hi⟩
      · exact sub_eq_zero.mp (ku ⟨i, hi⟩ ha).2
      · exact (htu ⟨i, hi⟩ ha).2

theorem recover_tails (be : Backend) (d : Data K n p m) (k : KKT K n p m) (r old : Step K n p m) (sol : Vec K n × Vec K p × Vec K m) :
    (∀ a : Fin n, ¬ d.lb.act a → (recover be d k r old sol).z_lb[a] = old.z_lb[a] ∧ (recover be d k r old sol).s_lb[a] = old.s_lb[a]) ∧
    (∀ a : Fin n, ¬ d.ub.act a → (recover be d k r old sol).z_ub[a] = old.z_ub[a] ∧ (recover be d k r old sol).s_ub[a] = old.s_ub[a]) := by
  unfold recover
  refine ⟨fun a ha => ?_, fun a ha => ?_⟩
  · simp only [C13.headUpd_get, ha, if_false]; exact ⟨trivial, trivial⟩
  · simp only [C13.headUpd_get, ha, if_false]; exact ⟨trivial, trivial⟩

/-- **C10, all back ends compute the same step on a convex problem.** Any two of the five back ends whose reduced matrices are
    coherent with the same data and scalings and whose inner factorisations are exact return *equal* steps at an interior
    iterate of a convex problem (`P ⪰ 0`, `ρ, δ > 0`): the injectivity that `backends_agree_exact` asks for holds
    (`multiply_injective`), so this statement has no unmet hypothesis. -/
theorem backends_agree_convex (be1 be2 : Backend) (st1 st2 : KKTSettings K) (d : Data K n p m) (k1 k2 : KKT K n p m)
    (r old out1 out2 : Step K n p m) (slv1 slv2 : SolveFn K n p m)
    (hsame : SameScalings k1 k2)
    (hf1 : k1.fsol = some slv1) (hc1 : Coherent be1 d k1) (he1 : InnerExact be1 k1.k slv1) (hi1 : Interior d k1)
    (hf2 : k2.fsol = some slv2) (hc2 : Coherent be2 d k2) (he2 : InnerExact be2 k2.k slv2) (hi2 : Interior d k2)
    (h1 : KKT.solve be1 st1 d k1 r old false = some out1) (h2 : KKT.solve be2 st2 d k2 r old false = some out2)
    (hP : ∀ x : Vec K n, 0 ≤ C14.quad d.Psym x) (hρ : 0 < k1.rho) (hδ : 0 < k1.delta)
    (hs : ∀ t : Fin m, 0 < k1.s[t]) (hz : ∀ t : Fin m, 0 < k1.zinv[t])
    (hsl : ∀ a : Fin n, d.lb.act a → 0 < k1.s_lb[a]) (hzl : ∀ a : Fin n, d.lb.act a → 0 < k1.zinv_lb[a])
    (hsu : ∀ a : Fin n, d.ub.act a → 0 < k1.s_ub[a]) (hzu : ∀ a : Fin n, d.ub.act a → 0 < k1.zinv_ub[a]) :
    out1 = out2 := by
  have key := (backends_agree_exact be1 be2 st1 st2 d k1 k2 r old out1 out2 slv1 slv2 hsame hf1 hc1 he1 hi1 hf2 hc2 he2 hi2 h1 h2).1
  have e1 := solve_eq_recover be1 st1 d k1 r old out1 slv1 hf1 h1
  have e2 := solve_eq_recover be2 st2 d k2 r old out2 slv2 hf2 h2
  obtain ⟨t1l, t1u⟩ := recover_tails be1 d k1 r old (slv1 (rxOf be1 d k1 r) r.y (zbarOf be1 k1 r))
  obtain ⟨t2l, t2u⟩ := recover_tails be2 d k2 r old (slv2 (rxOf be2 d k2 r) r.y (zbarOf be2 k2 r))
  rw [← e1] at t1l t1u
  rw [← e2] at t2l t2u
  exact multiply_injective d k1 old hP hρ hδ hs hz hsl hzl hsu hzu out1 out2
    (fun a ha => ⟨(t1l a ha).1.trans (t2l a ha).1.symm, (t1l a ha).2.trans (t2l a ha).2.symm⟩)
    (fun a ha => ⟨(t1u a ha).1.trans (t2u a ha).1.symm, (t1u a ha).2.trans (t2u a ha).2.symm⟩) key
end inj
end Piqp.C10

/-! ## The whole trajectory is independent of the sparse formulation (two-run lock-step argument) -/
namespace Piqp.C10
open Piqp.C13 Piqp.C14 Piqp.C02 Piqp.C07
section generic
variable {K : Type}
variable [Add K] [Sub K] [Mul K] [Div K] [Neg K] [Zero K] [One K] [LT K] [DecidableLT K] [LE K] [DecidableLE K] [BEq K]
variable {σ σ' : Type}

/-- two instantiations of the loop's numeric operations stay in lock-step under a relation of states *and* diagnostics, and the
    factorisation that follows a rescaling succeeds in both (refinement off) -/
structure OpsLock (st : Settings K) (cs : Consts K) (ops : LoopOps K σ) (ops' : LoopOps K σ') (R Rf : σ → σ' → Info K → Prop) : Prop where
  hasIneq : ops.hasIneq = ops'.hasIneq
  head : ∀ b s s' i, R s s' i → R (ops.head b s i).1 (ops'.head b s' i).1 (ops.head b s i).2 ∧ (ops'.head b s' i).2 = (ops.head b s i).2
  reg : ∀ s s' i, R s s' i → R (ops.reg s i) (ops'.reg s' i) i
  pprox : ∀ s s' i, R s s' i → ops'.pprox s' = ops.pprox s
  pinfR : ∀ s s' i, R s s' i → ops'.pinfR s' = ops.pinfR s
  dprox : ∀ s s' i, R s s' i → ops'.dprox s' = ops.dprox s
  dinfR : ∀ s s' i, R s s' i → ops'.dinfR s' = ops.dinfR s
  shift : ∀ s s' i, R s s' i → R (ops.shift s i).1 (ops'.shift s' i).1 (ops.shift s i).2 ∧ (ops'.shift s' i).2 = (ops.shift s i).2
  finetune : ∀ s s' i, R s s' i → R s s' (finetuneSwitch st i)
  rescale : ∀ s s' i, R s s' i →
    (ops.factor false (ops.rescale s i)).2 = true ∧ (ops'.factor false (ops'.rescale s' i)).2 = true ∧
    Rf (ops.factor false (ops.rescale s i)).1 (ops'.factor false (ops'.rescale s' i)).1 i
  step : ∀ s s' i (it : Nat), Rf s s' i →
    (ops'.stepNum false s' { i with iter := it, factorRetires := 0 }).2 = (ops.stepNum false s { i with iter := it, factorRetires := 0 }).2 ∧
    (let sn := ops.stepNum false s { i with iter := it, factorRetires := 0 }
     let ru := if ops.hasIneq then regUpdateIneq st cs sn.2.1 sn.2.2.1 sn.2.1.mu sn.2.2.2.1 sn.2.2.2.2.1 sn.2.2.2.2.2.1 sn.2.2.2.2.2.2
               else regUpdateEq cs sn.2.1 sn.2.2.2.1 sn.2.2.2.2.2.1
     R (ops.applyFlags sn.1 ru.2.1 ru.2.2) (ops'.applyFlags (ops'.stepNum false s' { i with iter := it, factorRetires := 0 }).1 ru.2.1 ru.2.2) ru.1)

omit [Neg K] [LE K] [DecidableLE K] in
theorem loopG_lock (st : Settings K) (cs : Consts K) (ops : LoopOps K σ) (ops' : LoopOps K σ') (R Rf : σ → σ' → Info K → Prop)
    (ho : OpsLock st cs ops ops' R Rf) (c : Ctrl) (s : σ) (info : Info K) :
    ∀ s', c.refineOn = false → R s s' info →
      (loopG st cs ops' c s' info).1.1 = (loopG st cs ops c s info).1.1 ∧
      (loopG st cs ops' c s' info).1.2.2 = (loopG st cs ops c s info).1.2.2 ∧
      (loopG st cs ops' c s' info).2 = (loopG st cs ops c s info).2 ∧
      ∃ i, R (loopG st cs ops c s info).1.2.1 (loopG st cs ops' c s' info).1.2.1 i := by
  fun_induction loopG st cs ops c s info
  case case1 c s info hlt hi hterm =>
    intro s' hb hR
    obtain ⟨hR1, hI⟩ := ho.head (c.iter == 0) s s' info hR
    rw [loopG.eq_def st cs ops' c s' info]
    simp only [hi] at hterm hR1 ⊢
    simp only [hlt, dite_true, hI, hterm, if_true]
    exact ⟨trivial, trivial, trivial, _, hR1⟩
  case case2 c s info hlt hi hterm s1 hp =>
    intro s' hb hR
    obtain ⟨hR1, hI⟩ := ho.head (c.iter == 0) s s' info hR
    have hR2 := ho.reg _ _ _ hR1
    rw [loopG.eq_def st cs ops' c s' info]
    simp only [hi, s1] at hterm hp hR1 hR2 ⊢
    simp only [hlt, dite_true, hI, hterm, Bool.false_eq_true, if_false, ho.pprox _ _ _ hR2, ho.pinfR _ _ _ hR2, hp, if_true]
    exact ⟨trivial, trivial, trivial, _, hR2⟩
  case case3 c s info hlt hi hterm s1 hp hd =>
    intro s' hb hR
    obtain ⟨hR1, hI⟩ := ho.head (c.iter == 0) s s' info hR
    have hR2 := ho.reg _ _ _ hR1
    rw [loopG.eq_def st cs ops' c s' info]
    simp only [hi, s1] at hterm hp hd hR1 hR2 ⊢
    simp only [hlt, dite_true, hI, hterm, Bool.false_eq_true, if_false, ho.pprox _ _ _ hR2, ho.pinfR _ _ _ hR2, hp,
      ho.dprox _ _ _ hR2, ho.dinfR _ _ _ hR2, hd, if_true]
    exact ⟨trivial, trivial, trivial, _, hR2⟩
  case case4 c s info hlt hi hterm s1 hp hd iter1 sh info2 s2 fa hfa sn info3 ru s4 ih =>
    intro s' hb hR
    obtain ⟨hR1, hI⟩ := ho.head (c.iter == 0) s s' info hR
    have hR2 := ho.reg _ _ _ hR1
    have hSh := ho.shift _ _ _ hR2
    have hFt := ho.finetune _ _ _ hSh.1
    have hRs := ho.rescale _ _ _ hFt
    have hSn := ho.step _ _ _ (c.iter + 1) hRs.2.2
    rw [loopG.eq_def st cs ops' c s' info]
    simp only [hi, s1, iter1, sh, info2, s2, fa, sn, info3, ru, s4, hb] at hterm hp hd hfa ih hSn ⊢
    simp only [hlt, dite_true, hI, hterm, Bool.false_eq_true, if_false, ho.pprox _ _ _ hR2, ho.pinfR _ _ _ hR2, hp,
      ho.dprox _ _ _ hR2, ho.dinfR _ _ _ hR2, hd, hSh.2, hRs.2.1, if_true, hSn.1, ← ho.hasIneq]
    exact ih _ trivial hSn.2
  case case5 c s info hlt hi hterm s1 hp hd iter1 sh info2 s2 fa hfa hr ih =>
    intro s' hb hR
    obtain ⟨hR1, hI⟩ := ho.head (c.iter == 0) s s' info hR
    have hR2 := ho.reg _ _ _ hR1
    have hSh := ho.shift _ _ _ hR2
    have hFt := ho.finetune _ _ _ hSh.1
    have hRs := ho.rescale _ _ _ hFt
    simp only [hi, s1, iter1, sh, info2, s2, fa, hb] at hfa
    exact absurd hRs.1 hfa
  case case6 c s info hlt hi hterm s1 hp hd sh info2 s2 fa hfa hr hf ih =>
    intro s' hb hR
    exact absurd hb hr
  case case7 c s info hlt hi hterm s1 hp hd iter1 sh info2 s2 fa hfa hr hf =>
    intro s' hb hR
    exact absurd hb hr
  case case8 c s info hlt =>
    intro s' hb hR
    rw [loopG.eq_def st cs ops' c s' info]
    simp only [hlt, dite_false]
    exact ⟨trivial, trivial, trivial, _, hR⟩
end generic

section lock
variable {K : Type} [Field K] [LinearOrder K] [IsStrictOrderedRing K] [Inhabited K]
variable {n p m : Nat}

/-- a factorised KKT state at an interior point, with positive regularisation -/
structure Factored (be : Backend) (d : Data K n p m) (k : KKT K n p m) : Prop where
  slv : ∃ slv, k.fsol = some slv ∧ InnerExact be k.k slv
  coh : Coherent be d k
  rho : 0 < k.rho
  delta : 0 < k.delta
  s : ∀ t : Fin m, 0 < k.s[t]
  zinv : ∀ t : Fin m, 0 < k.zinv[t]
  s_lb : ∀ a : Fin n, d.lb.act a → 0 < k.s_lb[a]
  zinv_lb : ∀ a : Fin n, d.lb.act a → 0 < k.zinv_lb[a]
  s_ub : ∀ a : Fin n, d.ub.act a → 0 < k.s_ub[a]
  zinv_ub : ∀ a : Fin n, d.ub.act a → 0 < k.zinv_ub[a]

theorem Factored.interior {be : Backend} {d : Data K n p m} {k : KKT K n p m} (h : Factored be d k) : Interior d k where
  delta := ne_of_gt h.delta
  zinv := fun t => ne_of_gt (h.zinv t)
  s := fun t => ne_of_gt (h.s t)
  w := fun t => ne_of_gt (by have := mul_pos (h.s t) (h.zinv t); linarith [h.delta])
  zinv_lb := fun a ha => ne_of_gt (h.zinv_lb a ha)
  s_lb := fun a ha => ne_of_gt (h.s_lb a ha)
  w_lb := fun a ha => ne_of_gt (by have := mul_pos (h.s_lb a ha) (h.zinv_lb a ha); linarith [h.delta])
  zinv_ub := fun a ha => ne_of_gt (h.zinv_ub a ha)
  s_ub := fun a ha => ne_of_gt (h.s_ub a ha)
  w_ub := fun a ha => ne_of_gt (by have := mul_pos (h.s_ub a ha) (h.zinv_ub a ha); linarith [h.delta])

/-- two factorised states with the same scalings answer every right-hand side alike, whatever their formulations -/
theorem solveOr_agree (e1 e2 : Env K n p m) (hd : e2.data = e1.data) (k1 k2 : KKT K n p m)
    (hP : ∀ x : Vec K n, 0 ≤ quad e1.data.Psym x)
    (h1 : Factored e1.be e1.data k1) (h2 : Factored e2.be e1.data k2) (hs : SameScalings k1 k2) (r old : Step K n p m) :
    solveOr e2 false k2 r old = solveOr e1 false k1 r old := by
  obtain ⟨slv1, hf1, hx1⟩ := h1.slv
  obtain ⟨slv2, hf2, hx2⟩ := h2.slv
  have s1 : KKT.solve e1.be e1.st.kkt e1.data k1 r old false = some (recover e1.be e1.data k1 r old (slv1 (rxOf e1.be e1.data k1 r) r.y (zbarOf e1.be k1 r))) := by
    unfold KKT.solve; simp only [hf1, Bool.false_and, Bool.false_eq_true, if_false]
  have s2 : KKT.solve e2.be e2.st.kkt e1.data k2 r old false = some (recover e2.be e1.data k2 r old (slv2 (rxOf e2.be e1.data k2 r) r.y (zbarOf e2.be k2 r))) := by
    unfold KKT.solve; simp only [hf2, Bool.false_and, Bool.false_eq_true, if_false]
  have := backends_agree_convex e1.be e2.be e1.st.kkt e2.st.kkt e1.data k1 k2 r old _ _ slv1 slv2 hs hf1 h1.coh hx1 h1.interior
    hf2 h2.coh hx2 h2.interior s1 s2 hP h1.rho h1.delta h1.s h1.zinv h1.s_lb h1.zinv_lb h1.s_ub h1.zinv_ub
  unfold solveOr
  rw [hd, s1, s2]
  exact this.symm

theorem regFactor_fields (be : Backend) (st : KKTSettings K) (d : Data K n p m) (k : KKT K n p m) (b : Bool) (inner : Inner K n p m) :
    (KKT.regFactor be st d k b inner).rho = k.rho ∧ (KKT.regFactor be st d k b inner).delta = k.delta ∧
    (KKT.regFactor be st d k b inner).s = k.s ∧ (KKT.regFactor be st d k b inner).zinv = k.zinv ∧
    (KKT.regFactor be st d k b inner).s_lb = k.s_lb ∧ (KKT.regFactor be st d k b inner).zinv_lb = k.zinv_lb ∧
    (KKT.regFactor be st d k b inner).s_ub = k.s_ub ∧ (KKT.regFactor be st d k b inner).zinv_ub = k.zinv_ub ∧
    (KKT.regFactor be st d k b inner).k = k.k := ⟨rfl, rfl, rfl, rfl, rfl, rfl, rfl, rfl, rfl⟩

/-- the scalings after `update_scalings` + factorisation are a function of the iterate and of the previous scalings -/
theorem scalings_after_rescale (e1 e2 : Env K n p m) (hd : e2.data = e1.data) (k1 k2 : KKT K n p m) (w : Work K n p m) (rho delta : K)
    (b : Bool) (hs : SameScalings k1 k2) :
    SameScalings (KKT.regFactor e1.be e1.st.kkt e1.data (kktScal e1 k1 w rho delta) b e1.inner)
      (KKT.regFactor e2.be e2.st.kkt e2.data (kktScal e2 k2 w rho delta) b e2.inner) := by
  obtain ⟨a1, a2, a3, a4, a5, a6, a7, a8, _⟩ := regFactor_fields e1.be e1.st.kkt e1.data (kktScal e1 k1 w rho delta) b e1.inner
  obtain ⟨b1, b2, b3, b4, b5, b6, b7, b8, _⟩ := regFactor_fields e2.be e2.st.kkt e2.data (kktScal e2 k2 w rho delta) b e2.inner
  obtain ⟨f1, f2, f3, f4, f5, f6, f7, f8⟩ := us_fields e1.be e1.data k1 rho delta w.s w.s_lb w.s_ub w.z w.z_lb w.z_ub
  obtain ⟨g1, g2, g3, g4, g5, g6, g7, g8⟩ := us_fields e2.be e2.data k2 rho delta w.s w.s_lb w.s_ub w.z w.z_lb w.z_ub
  unfold kktScal at *
  exact ⟨by rw [a1, b1, f1, g1], by rw [a2, b2, f2, g2], by rw [a3, b3, f3, g3], by rw [a4, b4, f4, g4],
    by rw [a5, b5, f5, g5, hd, hs.s_lb], by rw [a6, b6, f7, g7, hd, hs.zinv_lb],
    by rw [a7, b7, f6, g6, hd, hs.s_ub], by rw [a8, b8, f8, g8, hd, hs.zinv_ub]⟩

/-- what the lock-step argument needs from a back end's inner factorisation: it succeeds after a rescaling at an interior iterate
    (C14 / C02), and what it returns solves the reduced system exactly (C14) -/
structure GoodInner (e : Env K n p m) : Prop where
  fac : ∀ (b : Bool) (s : NumState K n p m) (i : Info K), ConvInv e s i → ((realOps e).factor b ((realOps e).rescale s i)).2 = true
  exact : ∀ (kb : KBlocks K n p m) (slv : SolveFn K n p m), (∀ a b : Fin n, kb.xx[a][b] = kb.xx[b][a]) → e.inner kb = some slv →
    InnerExact e.be kb slv
  facCoh : ∀ k : KKT K n p m, Coherent e.be e.data k → 0 < k.rho → 0 < k.delta →
    (∀ t : Fin m, 0 < k.s[t] * k.zinv[t] + k.delta) →
    (∀ a : Fin n, e.data.lb.act a → 0 < k.zinv_lb[a] * k.s_lb[a] + k.delta) →
    (∀ a : Fin n, e.data.ub.act a → 0 < k.zinv_ub[a] * k.s_ub[a] + k.delta) →
    (KKT.regFactor e.be e.st.kkt e.data k false e.inner).factOk = true

/-- every sparse formulation with any fill-reducing permutation qualifies -/
theorem goodInner_sparse (e : Env K n p m) (perm : Vector (Fin (n + p + m)) (n + p + m)) (hperm : IsPerm perm)
    (hsp : e.be.isDense = false) (hin : e.inner = innerLDLT e.be perm) (hP : ∀ x : Vec K n, 0 ≤ quad e.data.Psym x) : GoodInner e where
  fac := factor_after_rescale e perm hperm hsp hin hP
  exact := fun kb slv hxx h => innerLDLT_exact e.be perm hperm kb hxx slv (by rw [← hin]; exact h)
  facCoh := fun k hc hρ hδ hw hl hu => by rw [hin]; exact sparse_factorisation_never_fails e.be e.st.kkt e.data k perm hperm hc hP hρ hδ hw hl hu

/-- so does the dense back end (Cholesky of the fully reduced block) given an exact square root -/
theorem goodInner_dense (e : Env K n p m) (sqrtF : K → K) (hsq : ExactSqrt sqrtF)
    (hd : e.be = .dense) (hin : e.inner = innerLLT sqrtF) (hP : ∀ x : Vec K n, 0 ≤ quad e.data.Psym x) : GoodInner e where
  fac := dense_factor_after_rescale e sqrtF hsq hd hin hP
  exact := fun kb slv hxx h => by rw [hd]; exact innerLLT_exact sqrtF hsq kb hxx slv (by rw [← hin]; exact h)
  facCoh := fun k hc hρ hδ hw hl hu => by
    rw [hin]; rw [hd] at hc ⊢
    exact dense_factorisation_never_fails sqrtF hsq e.st.kkt e.data k hc hP hρ hδ hw hl hu

/-- after `update_scalings` at an interior iterate with positive `ρ, δ`, a good back end's plain factorisation succeeds and the
    state it leaves is `Factored` -/
theorem factored_after_rescale (e : Env K n p m) (hg : GoodInner e) (s : NumState K n p m) (i : Info K) (h : ConvInv e s i) :
    Factored e.be e.data (KKT.regFactor e.be e.st.kkt e.data (kktScal e s.2 s.1 i.rho i.delta) false e.inner) := by
  have hok := hg.fac false s i h
  obtain ⟨hcone, hcache, hρ, hδ, _⟩ := h
  obtain ⟨hcoh, _⟩ := C13.updateScalings_coherent e.be e.data s.2 i.rho i.delta s.1.s s.1.s_lb s.1.s_ub s.1.z s.1.z_lb s.1.z_ub hcache
  obtain ⟨f1, f2, f3, f4, f5, f6, f7, f8⟩ := us_fields e.be e.data s.2 i.rho i.delta s.1.s s.1.s_lb s.1.s_ub s.1.z s.1.z_lb s.1.z_ub
  simp only [realOps] at hok
  unfold kktScal at hok ⊢
  generalize KKT.updateScalings e.be e.data s.2 i.rho i.delta s.1.s s.1.s_lb s.1.s_ub s.1.z s.1.z_lb s.1.z_ub = k' at *
  have hcoh' : Coherent e.be e.data (KKT.regFactor e.be e.st.kkt e.data k' false e.inner) := ⟨hcoh.xx, hcoh.xy, hcoh.yy, hcoh.xz, hcoh.zz⟩
  refine ⟨?_, hcoh', ?_, ?_, ?_, ?_, ?_, ?_, ?_, ?_⟩
  · cases hs : e.inner k'.k with
    | none =>
      have : (KKT.regFactor e.be e.st.kkt e.data k' false e.inner).fsol = none := by simp [KKT.regFactor, hs]
      simp [KKT.factOk, this] at hok
    | some slv =>
      have hf : (KKT.regFactor e.be e.st.kkt e.data k' false e.inner).fsol = some slv := by simp [KKT.regFactor, hs]
      refine ⟨slv, hf, ?_⟩
      exact hg.exact k'.k slv (coherent_xx_symm e.be e.data k' hcoh) hs
  · show 0 < k'.rho; rw [f1]; exact hρ
  · show 0 < k'.delta; rw [f2]; exact hδ
  · intro t; show 0 < k'.s[t]; rw [f3]; exact hcone.s t
  · intro t; show 0 < k'.zinv[t]; rw [f4, C13.ofFn_get]; exact one_div_pos.mpr (hcone.z t)
  · intro a ha; show 0 < k'.s_lb[a]; rw [f5, C13.headUpd_get]; simp only [ha, if_true]; exact hcone.s_lb a ha
  · intro a ha; show 0 < k'.zinv_lb[a]; rw [f7, C13.headUpd_get]; simp only [ha, if_true]; exact one_div_pos.mpr (hcone.z_lb a ha)
  · intro a ha; show 0 < k'.s_ub[a]; rw [f6, C13.headUpd_get]; simp only [ha, if_true]; exact hcone.s_ub a ha
  · intro a ha; show 0 < k'.zinv_ub[a]; rw [f8, C13.headUpd_get]; simp only [ha, if_true]; exact one_div_pos.mpr (hcone.z_ub a ha)

/-- a coherent KKT object with positive regularisation and positive scalings factorises, and the result is `Factored` -/
theorem factored_of_coherent (e : Env K n p m) (hg : GoodInner e) (k : KKT K n p m) (hcoh : Coherent e.be e.data k)
    (hρ : 0 < k.rho) (hδ : 0 < k.delta) (hs : ∀ t : Fin m, 0 < k.s[t]) (hz : ∀ t : Fin m, 0 < k.zinv[t])
    (hsl : ∀ a : Fin n, e.data.lb.act a → 0 < k.s_lb[a]) (hzl : ∀ a : Fin n, e.data.lb.act a → 0 < k.zinv_lb[a])
    (hsu : ∀ a : Fin n, e.data.ub.act a → 0 < k.s_ub[a]) (hzu : ∀ a : Fin n, e.data.ub.act a → 0 < k.zinv_ub[a]) :
    Factored e.be e.data (KKT.regFactor e.be e.st.kkt e.data k false e.inner) := by
  have hok := hg.facCoh k hcoh hρ hδ (fun t => by have := mul_pos (hs t) (hz t); linarith)
    (fun a ha => by have := mul_pos (hzl a ha) (hsl a ha); linarith) (fun a ha => by have := mul_pos (hzu a ha) (hsu a ha); linarith)
  have hcoh' : Coherent e.be e.data (KKT.regFactor e.be e.st.kkt e.data k false e.inner) := ⟨hcoh.xx, hcoh.xy, hcoh.yy, hcoh.xz, hcoh.zz⟩
  refine ⟨?_, hcoh', hρ, hδ, hs, hz, hsl, hzl, hsu, hzu⟩
  cases hs' : e.inner k.k with
  | none =>
    have : (KKT.regFactor e.be e.st.kkt e.data k false e.inner).fsol = none := by simp [KKT.regFactor, hs']
    simp [KKT.factOk, this] at hok
  | some slv =>
    have hf : (KKT.regFactor e.be e.st.kkt e.data k false e.inner).fsol = some slv := by simp [KKT.regFactor, hs']
    exact ⟨slv, hf, hg.exact k.k slv (coherent_xx_symm e.be e.data k hcoh) hs'⟩

/-- the same problem handed to another back end (formulation + inner factorisation) -/
def withBackend (e : Env K n p m) (be2 : Backend) (in2 : Inner K n p m) : Env K n p m :=
  { e with be := be2, inner := in2 }

section wb
variable (e : Env K n p m) (be2 : Backend) (in2 : Inner K n p m)
theorem wb_head (b : Bool) (w : Work K n p m) (i : Info K) : headInfo (withBackend e be2 in2) b w i = headInfo e b w i := rfl
theorem wb_reg (w : Work K n p m) (i : Info K) : regResiduals (withBackend e be2 in2) w i = regResiduals e w i := rfl
theorem wb_shift (w : Work K n p m) (i : Info K) : shiftOp (withBackend e be2 in2) w i = shiftOp e w i := rfl
theorem wb_flags (w : Work K n p m) (a b : Bool) : applyFlagsOp (withBackend e be2 in2) w a b = applyFlagsOp e w a b := rfl
theorem wb_pprox (w : Work K n p m) : primalProxInf (withBackend e be2 in2) w = primalProxInf e w := rfl
theorem wb_pinfR (w : Work K n p m) : primalInfR (withBackend e be2 in2) w = primalInfR e w := rfl
theorem wb_dprox (w : Work K n p m) : dualProxInf (withBackend e be2 in2) w = dualProxInf e w := rfl
theorem wb_dinfR (w : Work K n p m) : dualInfR (withBackend e be2 in2) w = dualInfR e w := rfl
theorem wb_staged (b : Bool) (k1 k2 : KKT K n p m) (w : Work K n p m) (i : Info K)
    (h : ∀ r old, solveOr (withBackend e be2 in2) b k2 r old = solveOr e b k1 r old) :
    stepNumOp (withBackend e be2 in2) b k2 w i = stepNumOp e b k1 w i := by
  rw [stepNumOp_staged, stepNumOp_staged]
  unfold stepNumStaged
  simp only [h]
  rfl
end wb

def LockR (e1 e2 : Env K n p m) (s1 s2 : NumState K n p m) (i : Info K) : Prop :=
  s2.1 = s1.1 ∧ SameScalings s1.2 s2.2 ∧ ConvInv e1 s1 i ∧ ConvInv e2 s2 i

def LockF (e1 e2 : Env K n p m) (s1 s2 : NumState K n p m) (i : Info K) : Prop :=
  LockR e1 e2 s1 s2 i ∧ Factored e1.be e1.data s1.2 ∧ Factored e2.be e1.data s2.2

theorem realOps_lock (e : Env K n p m) (be2 : Backend) (in2 : Inner K n p m) (g1 : GoodInner e) (g2 : GoodInner (withBackend e be2 in2))
    (hP : ∀ x : Vec K n, 0 ≤ quad e.data.Psym x)
    (hτ0 : 0 < e.st.tau) (hτ1 : e.st.tau < 1) (heps : 0 ≤ e.cs.machEps) (hft : 0 < e.st.regFinetuneLowerLimit) :
    OpsLock e.st e.cs (realOps e) (realOps (withBackend e be2 in2)) (LockR e (withBackend e be2 in2)) (LockF e (withBackend e be2 in2)) := by
  have I1 := realOps_convInv e g1.fac hτ0 hτ1 heps hft
  have I2 := realOps_convInv (withBackend e be2 in2) g2.fac hτ0 hτ1 heps hft
  refine ⟨rfl, ?_, ?_, ?_, ?_, ?_, ?_, ?_, ?_, ?_, ?_⟩
  · intro b s s' i h
    obtain ⟨hw, hs, h1, h2⟩ := h
    have e2 : (realOps (withBackend e be2 in2)).head b s' i = (((headInfo e b s.1 i).1, s'.2), (headInfo e b s.1 i).2) := by
      simp only [realOps, wb_head, hw]
    refine ⟨⟨?_, hs, I1.head b s i h1, ?_⟩, ?_⟩
    · rw [e2]; rfl
    · have := I2.head b s' i h2
      rw [e2] at this ⊢
      exact this
    · rw [e2]; rfl
  · -- reg
    intro s s' i h
    obtain ⟨hw, hs, h1, h2⟩ := h
    have e2 : (realOps (withBackend e be2 in2)).reg s' i = (regResiduals e s.1 i, s'.2) := by
      simp only [realOps, wb_reg, hw]
    refine ⟨?_, hs, I1.reg s i h1, ?_⟩
    · rw [e2]; rfl
    · have := I2.reg s' i h2
      rw [e2] at this ⊢
      exact this
  · intro s s' i h; simp only [realOps, wb_pprox, h.1]
  · intro s s' i h; simp only [realOps, wb_pinfR, h.1]
  · intro s s' i h; simp only [realOps, wb_dprox, h.1]
  · intro s s' i h; simp only [realOps, wb_dinfR, h.1]
  · -- shift
    intro s s' i h
    obtain ⟨hw, hs, h1, h2⟩ := h
    have e2 : (realOps (withBackend e be2 in2)).shift s' i = (((shiftOp e s.1 i).1, s'.2), (shiftOp e s.1 i).2) := by
      simp only [realOps, wb_shift, hw]
    refine ⟨⟨?_, hs, I1.shift s i h1, ?_⟩, ?_⟩
    · rw [e2]; rfl
    · have := I2.shift s' i h2
      rw [e2] at this ⊢
      exact this
    · rw [e2]; rfl
  · -- finetune
    intro s s' i h
    exact ⟨h.1, h.2.1, I1.finetune s i h.2.2.1, I2.finetune s' i h.2.2.2⟩
  · -- rescale + factor
    intro s s' i h
    obtain ⟨hw, hs, h1, h2⟩ := h
    obtain ⟨ok1, c1⟩ := I1.rescale false s i h1
    obtain ⟨ok2, c2⟩ := I2.rescale false s' i h2
    have F1 := factored_after_rescale e g1 s i h1
    have F2 := factored_after_rescale (withBackend e be2 in2) g2 s' i h2
    have S := scalings_after_rescale e (withBackend e be2 in2) rfl s.2 s'.2 s.1 i.rho i.delta false hs
    refine ⟨ok1, ok2, ⟨?_, ?_, c1, c2⟩, F1, ?_⟩
    · exact hw
    · show SameScalings (KKT.regFactor _ _ _ (kktScal e s.2 s.1 _ _) false _) (KKT.regFactor _ _ _ (kktScal _ s'.2 s'.1 _ _) false _)
      rw [hw]; exact S
    · exact F2
  · -- step
    intro s s' i it h
    obtain ⟨⟨hw, hs, h1, h2⟩, F1, F2⟩ := h
    have hsolve := solveOr_agree e (withBackend e be2 in2) rfl s.2 s'.2 hP F1 F2 hs
    have hstep : stepNumOp (withBackend e be2 in2) false s'.2 s'.1 { i with iter := it, factorRetires := 0 } =
        stepNumOp e false s.2 s.1 { i with iter := it, factorRetires := 0 } := by
      rw [hw]; exact wb_staged e be2 in2 false s.2 s'.2 s.1 _ hsolve
    have e2s : (realOps (withBackend e be2 in2)).stepNum false s' { i with iter := it, factorRetires := 0 } =
        (((stepNumOp e false s.2 s.1 { i with iter := it, factorRetires := 0 }).1, s'.2),
          (stepNumOp e false s.2 s.1 { i with iter := it, factorRetires := 0 }).2) := by
      simp only [realOps]; rw [hstep]
    have J1 := I1.step false s i it h1
    have J2 := I2.step false s' i it h2
    simp only [e2s] at J2 ⊢
    refine ⟨rfl, rfl, hs, J1, J2⟩

/-- **C10, the whole trajectory is independent of the formulation.** On a convex problem, in exact arithmetic and with iterative
    refinement off, the main loop run with any other back end whose inner factorisation is good (`GoodInner`: each sparse
    formulation with any fill-reducing ordering, `goodInner_sparse`; the dense Cholesky back end, `goodInner_dense`) passes
    through the same iterates as the run with `e.be` / `e.inner`: same final iterate and workspace, same diagnostics (`info`: status,
    iteration count, residuals, objectives, `ρ`, `δ`), same loop control, same returned status.  The two runs may start from
    different KKT objects as long as these carry the same scalings.  (Refinement stays off in both because no factorisation
    fails, `convex_never_numerics`.) -/
theorem trajectories_agree (e : Env K n p m) (be2 : Backend) (in2 : Inner K n p m) (g1 : GoodInner e) (g2 : GoodInner (withBackend e be2 in2))
    (hP : ∀ x : Vec K n, 0 ≤ quad e.data.Psym x)
    (hτ0 : 0 < e.st.tau) (hτ1 : e.st.tau < 1) (heps : 0 ≤ e.cs.machEps) (hft : 0 < e.st.regFinetuneLowerLimit)
    (ls : LoopState K n p m) (kkt2 : KKT K n p m) (hr : ls.c.refineOn = false) (hs : SameScalings ls.kkt kkt2)
    (h1 : ConvInv e (ls.w, ls.kkt) ls.info) (h2 : ConvInv (withBackend e be2 in2) (ls.w, kkt2) ls.info) :
    (mainLoop (withBackend e be2 in2) { ls with kkt := kkt2 }).2 = (mainLoop e ls).2 ∧
    (mainLoop (withBackend e be2 in2) { ls with kkt := kkt2 }).1.w = (mainLoop e ls).1.w ∧
    (mainLoop (withBackend e be2 in2) { ls with kkt := kkt2 }).1.info = (mainLoop e ls).1.info ∧
    (mainLoop (withBackend e be2 in2) { ls with kkt := kkt2 }).1.c = (mainLoop e ls).1.c := by
  have L := loopG_lock e.st e.cs (realOps e) (realOps (withBackend e be2 in2)) _ _
    (realOps_lock e be2 in2 g1 g2 hP hτ0 hτ1 heps hft) ls.c (ls.w, ls.kkt) ls.info (ls.w, kkt2) hr ⟨rfl, hs, h1, h2⟩
  obtain ⟨l1, l2, l3, i, l4⟩ := L
  unfold mainLoop
  exact ⟨l3, l4.1, l2, l1⟩
end lock

/-! ## ... and so is the answer of `solve()` -/
section solveLevel
variable {K : Type} [Field K] [LinearOrder K] [IsStrictOrderedRing K] [Inhabited K]
variable {n p m : Nat}

/-- the same solver object re-targeted at another formulation, with that formulation's own KKT object -/
def retarget (s : Solver K n p m) (be2 : Backend) (kkt2 : KKT K n p m) : Solver K n p m := { s with be := be2, kkt := kkt2 }

theorem env_retarget (cs : Consts K) (sqrtF : K → K) (s : Solver K n p m) (be2 : Backend) (kkt2 : KKT K n p m)
    (perm1 perm2 : Vector (Fin (n + p + m)) (n + p + m)) :
    Solver.env cs sqrtF (retarget s be2 kkt2) perm2 = withBackend (Solver.env cs sqrtF s perm1) be2 (execInner sqrtF be2 perm2) := rfl

/-- a back end the theorems below cover: a sparse formulation with a genuine permutation, or the dense one with an exact square root -/
def BackendOk (sqrtF : K → K) (be : Backend) (perm : Vector (Fin (n + p + m)) (n + p + m)) : Prop :=
  (be.isDense = false ∧ IsPerm perm) ∨ (be = .dense ∧ ExactSqrt sqrtF)

theorem goodInner_of (e : Env K n p m) (sqrtF : K → K) (perm : Vector (Fin (n + p + m)) (n + p + m)) (hb : BackendOk sqrtF e.be perm)
    (hin : e.inner = execInner sqrtF e.be perm) (hP : ∀ x : Vec K n, 0 ≤ quad e.data.Psym x) : GoodInner e := by
  rcases hb with ⟨hsp, hperm⟩ | ⟨hd, hsq⟩
  · exact goodInner_sparse e perm hperm hsp (by rw [hin]; simp only [execInner, hsp, Bool.false_eq_true, if_false]) hP
  · exact goodInner_dense e sqrtF hsq hd (by rw [hin, hd]; simp only [execInner, Backend.isDense, if_true]) hP

theorem ipBeforeShift_agree (cs : Consts K) (sqrtF : K → K) (s : Solver K n p m) (be2 : Backend) (kkt2' : KKT K n p m)
    (perm1 perm2 : Vector (Fin (n + p + m)) (n + p + m)) (w0 : Work K n p m) (k1 k2 : KKT K n p m)
    (hP : ∀ x : Vec K n, 0 ≤ quad s.data.Psym x)
    (h1 : Factored s.be s.data k1) (h2 : Factored be2 s.data k2) (hs : SameScalings k1 k2) :
    ipBeforeShift cs (retarget s be2 kkt2') (withBackend (Solver.env cs sqrtF s perm1) be2 (execInner sqrtF be2 perm2)) w0 k2 false =
      ipBeforeShift cs s (Solver.env cs sqrtF s perm1) w0 k1 false := by
  rw [ipBeforeShift_eq, ipBeforeShift_eq]
  exact congrArg (ipFrom cs s.data w0)
    (solveOr_agree (Solver.env cs sqrtF s perm1) (withBackend (Solver.env cs sqrtF s perm1) be2 (execInner sqrtF be2 perm2)) rfl k1 k2 hP h1 h2 hs (ipRhs s.data) (ipOld w0))

/-- what `solve()` starts from (after an `update()` or an earlier `solve()`): slacks and multipliers at one, `ρ, δ` at their
    initial values — inside the cone, and the KKT object it factorises is the rescaled one -/
theorem solve_start_facts (cs : Consts K) (sqrtF : K → K) (s : Solver K n p m) (perm : Vector (Fin (n + p + m)) (n + p + m))
    (hv : s.st.verify = true) (hc : C13.CachesOk s.be s.data s.kkt) (hki : s.kktInitState = false) :
    ConvInv (Solver.env cs sqrtF s perm) ((solveStart cs sqrtF s perm).1, s.kkt) (solveStart cs sqrtF s perm).2.2 ∧
    ((solveStart cs sqrtF s perm).1, (solveStart cs sqrtF s perm).2.1) =
      (realOps (Solver.env cs sqrtF s perm)).rescale ((solveStart cs sqrtF s perm).1, s.kkt) (solveStart cs sqrtF s perm).2.2 := by
  obtain ⟨hρ0, hδ0, hrl, hτ0⟩ := verify_facts s.st hv
  constructor
  · refine ⟨?_, hc, hρ0, hδ0, hrl⟩
    simp only [solveStart, Solver.env]
    refine ⟨fun i => ?_, fun i => ?_, fun i hi => ?_, fun i hi => ?_, fun i hi => ?_, fun i hi => ?_⟩
    · simp [Vec.const]
    · simp [Vec.const]
    · rw [C08.headUpd_get']; simp [hi]
    · rw [C08.headUpd_get']; simp [hi]
    · rw [C08.headUpd_get']; simp [hi]
    · rw [C08.headUpd_get']; simp [hi]
  · refine Prod.ext rfl ?_
    simp only [solveStart, hki, Bool.not_false, if_true, realOps]


/-- `solve()` when the first factorisation succeeds: initial point, main loop, unscaling -/
theorem solveTyped_of_factor (cs : Consts K) (sqrtF : K → K) (s : Solver K n p m) (perm : Vector (Fin (n + p + m)) (n + p + m))
    (hv : s.st.verify = true)
    (hfa : ((realOps (Solver.env cs sqrtF s perm)).factor s.refineOn ((solveStart cs sqrtF s perm).1, (solveStart cs sqrtF s perm).2.1)).2 = true) :
    solveTyped cs sqrtF s perm =
      (let e := Solver.env cs sqrtF s perm
       let fa := (realOps e).factor s.refineOn ((solveStart cs sqrtF s perm).1, (solveStart cs sqrtF s perm).2.1)
       let r := mainLoop e (initialPoint cs s e (solveStart cs sqrtF s perm).1 fa.1.2 (solveStart cs sqrtF s perm).2.2 s.refineOn)
       ({ s with w := restoreBoxDual cs s.data (unscaleResults s.pk s.pre r.1.w), info := r.1.info, kkt := r.1.kkt,
                 kktInitState := false, refineOn := r.1.c.refineOn }, r.2)) := by
  unfold solveTyped
  simp only [hv, Bool.not_true, Bool.false_eq_true, if_false]
  rw [initLoopG.eq_def]
  simp only [hfa, if_true, Bool.not_true, Bool.false_eq_true, if_false]

/-- the common part of the two `solve()`-level theorems: once the two first factorisations leave `Factored` KKT objects with the
    same scalings, the initial points coincide and the main loops run in lock-step -/
theorem solve_agree_core (cs : Consts K) (sqrtF : K → K) (s : Solver K n p m)
    (perm1 perm2 : Vector (Fin (n + p + m)) (n + p + m)) (be2 : Backend) (kkt2 : KKT K n p m)
    (hb1 : BackendOk sqrtF s.be perm1) (hb2 : BackendOk sqrtF be2 perm2)
    (hv : s.st.verify = true) (hτ1 : s.st.tau < 1) (hft : 0 < s.st.regFinetuneLowerLimit) (heps : 0 ≤ cs.machEps)
    (h15 : 1 ≤ cs.c1_5) (h05 : 0 < cs.c0_5)
    (hP : ∀ x : Vec K n, 0 ≤ quad s.data.Psym x) (hr : s.refineOn = false)
    (hnl : s.data.lb.cnt ≤ n) (hnu : s.data.ub.cnt ≤ n)
    (hguard : ∀ (w0 : Work K n p m) (kkt1 : KKT K n p m) (b : Bool), m + s.data.lb.cnt + s.data.ub.cnt ≠ 0 →
      0 < (mehrotraShift cs s.data (ipBeforeShift cs s (Solver.env cs sqrtF s perm1) w0 kkt1 b)).2.2)
    (F1' : Factored s.be s.data ((realOps (Solver.env cs sqrtF s perm1)).factor false
      ((solveStart cs sqrtF s perm1).1, (solveStart cs sqrtF s perm1).2.1)).1.2)
    (F2' : Factored be2 s.data ((realOps (withBackend (Solver.env cs sqrtF s perm1) be2 (execInner sqrtF be2 perm2))).factor false
      ((solveStart cs sqrtF s perm1).1, (solveStart cs sqrtF (retarget s be2 kkt2) perm2).2.1)).1.2)
    (S' : SameScalings ((realOps (Solver.env cs sqrtF s perm1)).factor false
        ((solveStart cs sqrtF s perm1).1, (solveStart cs sqrtF s perm1).2.1)).1.2
      ((realOps (withBackend (Solver.env cs sqrtF s perm1) be2 (execInner sqrtF be2 perm2))).factor false
        ((solveStart cs sqrtF s perm1).1, (solveStart cs sqrtF (retarget s be2 kkt2) perm2).2.1)).1.2)
    (C1 : C13.CachesOk s.be s.data ((realOps (Solver.env cs sqrtF s perm1)).factor false
      ((solveStart cs sqrtF s perm1).1, (solveStart cs sqrtF s perm1).2.1)).1.2)
    (C2 : C13.CachesOk be2 s.data ((realOps (withBackend (Solver.env cs sqrtF s perm1) be2 (execInner sqrtF be2 perm2))).factor false
      ((solveStart cs sqrtF s perm1).1, (solveStart cs sqrtF (retarget s be2 kkt2) perm2).2.1)).1.2) :
    (solveTyped cs sqrtF (retarget s be2 kkt2) perm2).2 = (solveTyped cs sqrtF s perm1).2 ∧
    (solveTyped cs sqrtF (retarget s be2 kkt2) perm2).1.w = (solveTyped cs sqrtF s perm1).1.w ∧
    (solveTyped cs sqrtF (retarget s be2 kkt2) perm2).1.info = (solveTyped cs sqrtF s perm1).1.info := by
  obtain ⟨hρ0, hδ0, hrl, hτ0⟩ := verify_facts s.st hv
  have hE := env_retarget cs sqrtF s be2 kkt2 perm1 perm2
  have hP' : ∀ x : Vec K n, 0 ≤ quad (Solver.env cs sqrtF s perm1).data.Psym x := hP
  have g1 : GoodInner (Solver.env cs sqrtF s perm1) := goodInner_of _ sqrtF perm1 hb1 rfl hP'
  have g2 : GoodInner (withBackend (Solver.env cs sqrtF s perm1) be2 (execInner sqrtF be2 perm2)) := goodInner_of _ sqrtF perm2 hb2 rfl hP'
  have hw0 : (solveStart cs sqrtF (retarget s be2 kkt2) perm2).1 = (solveStart cs sqrtF s perm1).1 := rfl
  have hi0 : (solveStart cs sqrtF (retarget s be2 kkt2) perm2).2.2 = (solveStart cs sqrtF s perm1).2.2 := rfl
  have hfa1 : ((realOps (Solver.env cs sqrtF s perm1)).factor false ((solveStart cs sqrtF s perm1).1, (solveStart cs sqrtF s perm1).2.1)).2 = true := by
    obtain ⟨slv, hf, _⟩ := F1'.slv
    show (KKT.factOk _) = true
    unfold KKT.factOk
    rw [show ∀ k : KKT K n p m, k.fsol.isSome = true ↔ ∃ x, k.fsol = some x from fun k => Option.isSome_iff_exists]
    exact ⟨slv, hf⟩
  have hfa2 : ((realOps (withBackend (Solver.env cs sqrtF s perm1) be2 (execInner sqrtF be2 perm2))).factor false
      ((solveStart cs sqrtF s perm1).1, (solveStart cs sqrtF (retarget s be2 kkt2) perm2).2.1)).2 = true := by
    obtain ⟨slv, hf, _⟩ := F2'.slv
    show (KKT.factOk _) = true
    unfold KKT.factOk
    rw [show ∀ k : KKT K n p m, k.fsol.isSome = true ↔ ∃ x, k.fsol = some x from fun k => Option.isSome_iff_exists]
    exact ⟨slv, hf⟩
  have hfa1' : ((realOps (Solver.env cs sqrtF s perm1)).factor s.refineOn ((solveStart cs sqrtF s perm1).1, (solveStart cs sqrtF s perm1).2.1)).2 = true := by
    rw [hr]; exact hfa1
  have hfa2' : ((realOps (Solver.env cs sqrtF (retarget s be2 kkt2) perm2)).factor (retarget s be2 kkt2).refineOn
      ((solveStart cs sqrtF (retarget s be2 kkt2) perm2).1, (solveStart cs sqrtF (retarget s be2 kkt2) perm2).2.1)).2 = true := by
    rw [hE]
    have : (retarget s be2 kkt2).refineOn = false := hr
    rw [this, hw0]; exact hfa2
  rw [solveTyped_of_factor cs sqrtF s perm1 hv hfa1', solveTyped_of_factor cs sqrtF (retarget s be2 kkt2) perm2 hv hfa2']
  simp only
  rw [hE]
  have hr2 : (retarget s be2 kkt2).refineOn = false := hr
  rw [hr2, hr, hw0, hi0]
  -- name the two factorised KKT objects
  generalize ((realOps (Solver.env cs sqrtF s perm1)).factor false ((solveStart cs sqrtF s perm1).1, (solveStart cs sqrtF s perm1).2.1)).1.2 = k1 at F1' S' C1 ⊢
  generalize ((realOps (withBackend (Solver.env cs sqrtF s perm1) be2 (execInner sqrtF be2 perm2))).factor false
      ((solveStart cs sqrtF s perm1).1, (solveStart cs sqrtF (retarget s be2 kkt2) perm2).2.1)).1.2 = k2 at F2' S' C2 ⊢
  have hip : initialPoint cs (retarget s be2 kkt2) (withBackend (Solver.env cs sqrtF s perm1) be2 (execInner sqrtF be2 perm2))
      (solveStart cs sqrtF s perm1).1 k2 (solveStart cs sqrtF s perm1).2.2 false =
      { initialPoint cs s (Solver.env cs sqrtF s perm1) (solveStart cs sqrtF s perm1).1 k1 (solveStart cs sqrtF s perm1).2.2 false with kkt := k2 } := by
    unfold initialPoint
    simp only [ipBeforeShift_agree cs sqrtF s be2 kkt2 perm1 perm2 (solveStart cs sqrtF s perm1).1 k1 k2 hP F1' F2' S']
    rfl
  have hcone := C08.initialPoint_in_cone cs s (Solver.env cs sqrtF s perm1) (solveStart cs sqrtF s perm1).1 k1
      (solveStart cs sqrtF s perm1).2.2 false hnl hnu h15 h05 (hguard _ _ _)
  have hpos : 0 < (initialPoint cs s (Solver.env cs sqrtF s perm1) (solveStart cs sqrtF s perm1).1 k1 (solveStart cs sqrtF s perm1).2.2 false).info.rho ∧
      0 < (initialPoint cs s (Solver.env cs sqrtF s perm1) (solveStart cs sqrtF s perm1).1 k1 (solveStart cs sqrtF s perm1).2.2 false).info.delta ∧
      0 < (initialPoint cs s (Solver.env cs sqrtF s perm1) (solveStart cs sqrtF s perm1).1 k1 (solveStart cs sqrtF s perm1).2.2 false).info.regLimit := by
    unfold initialPoint; simp only
    refine ⟨?_, ?_, ?_⟩
    · split <;> exact hρ0
    · split <;> exact hδ0
    · split <;> exact hrl
  have T := trajectories_agree (Solver.env cs sqrtF s perm1) be2 (execInner sqrtF be2 perm2) g1 g2 hP' hτ0 hτ1 heps hft
    (initialPoint cs s (Solver.env cs sqrtF s perm1) (solveStart cs sqrtF s perm1).1 k1 (solveStart cs sqrtF s perm1).2.2 false) k2 rfl
    (by rw [C04.initialPoint_kkt]; exact S')
    ⟨hcone, by rw [C04.initialPoint_kkt]; exact C1, hpos.1, hpos.2.1, hpos.2.2⟩
    ⟨hcone, C2, hpos.1, hpos.2.1, hpos.2.2⟩
  rw [hip]
  refine ⟨T.1, ?_, T.2.2.1⟩
  rw [T.2.1]
  rfl

/-- **C10 at the level of `solve()`: the answer does not depend on the back end, the formulation or the ordering.** Take a solver
    object with any covered back end (`BackendOk`: dense with an exact square root, or one of the four sparse formulations with a
    fill-reducing permutation; `kktInitState = false`, refinement off, valid settings, scaled `P ⪰ 0`, caches in agreement with
    the data) and the same object re-targeted at any other covered back end with its own KKT object and its own permutation.  In exact arithmetic `solve()` returns the same status, the same results workspace (`x, y, z, z_lb, z_ub, s, …`)
    and the same `info` in both. -/
theorem solve_backend_independent (cs : Consts K) (sqrtF : K → K) (s : Solver K n p m)
    (perm1 perm2 : Vector (Fin (n + p + m)) (n + p + m)) (be2 : Backend) (kkt2 : KKT K n p m)
    (hb1 : BackendOk sqrtF s.be perm1) (hb2 : BackendOk sqrtF be2 perm2)
    (hv : s.st.verify = true) (hτ1 : s.st.tau < 1) (hft : 0 < s.st.regFinetuneLowerLimit) (heps : 0 ≤ cs.machEps)
    (h15 : 1 ≤ cs.c1_5) (h05 : 0 < cs.c0_5)
    (hP : ∀ x : Vec K n, 0 ≤ quad s.data.Psym x)
    (hc1 : C13.CachesOk s.be s.data s.kkt) (hc2 : C13.CachesOk be2 s.data kkt2) (hss : SameScalings s.kkt kkt2)
    (hki : s.kktInitState = false) (hr : s.refineOn = false)
    (hnl : s.data.lb.cnt ≤ n) (hnu : s.data.ub.cnt ≤ n)
    (hguard : ∀ (w0 : Work K n p m) (kkt1 : KKT K n p m) (b : Bool), m + s.data.lb.cnt + s.data.ub.cnt ≠ 0 →
      0 < (mehrotraShift cs s.data (ipBeforeShift cs s (Solver.env cs sqrtF s perm1) w0 kkt1 b)).2.2) :
    (solveTyped cs sqrtF (retarget s be2 kkt2) perm2).2 = (solveTyped cs sqrtF s perm1).2 ∧
    (solveTyped cs sqrtF (retarget s be2 kkt2) perm2).1.w = (solveTyped cs sqrtF s perm1).1.w ∧
    (solveTyped cs sqrtF (retarget s be2 kkt2) perm2).1.info = (solveTyped cs sqrtF s perm1).1.info := by
  obtain ⟨hρ0, hδ0, hrl, hτ0⟩ := verify_facts s.st hv
  have hE := env_retarget cs sqrtF s be2 kkt2 perm1 perm2
  have hP' : ∀ x : Vec K n, 0 ≤ quad (Solver.env cs sqrtF s perm1).data.Psym x := hP
  have g1 : GoodInner (Solver.env cs sqrtF s perm1) := goodInner_of _ sqrtF perm1 hb1 rfl hP'
  have g2 : GoodInner (withBackend (Solver.env cs sqrtF s perm1) be2 (execInner sqrtF be2 perm2)) := goodInner_of _ sqrtF perm2 hb2 rfl hP'
  obtain ⟨hst1, hpair1⟩ := solve_start_facts cs sqrtF s perm1 hv hc1 hki
  obtain ⟨hst2, hpair2⟩ := solve_start_facts cs sqrtF (retarget s be2 kkt2) perm2 hv hc2 hki
  rw [hE] at hst2 hpair2
  have hw0 : (solveStart cs sqrtF (retarget s be2 kkt2) perm2).1 = (solveStart cs sqrtF s perm1).1 := rfl
  have hi0 : (solveStart cs sqrtF (retarget s be2 kkt2) perm2).2.2 = (solveStart cs sqrtF s perm1).2.2 := rfl
  rw [hw0, hi0] at hst2 hpair2
  have hk2 : (retarget s be2 kkt2).kkt = kkt2 := rfl
  rw [hk2] at hst2 hpair2
  have I1 := realOps_convInv (Solver.env cs sqrtF s perm1) g1.fac hτ0 hτ1 heps hft
  have I2 := realOps_convInv (withBackend (Solver.env cs sqrtF s perm1) be2 (execInner sqrtF be2 perm2)) g2.fac hτ0 hτ1 heps hft
  obtain ⟨hfa1, hinv1⟩ := I1.rescale false _ _ hst1
  obtain ⟨hfa2, hinv2⟩ := I2.rescale false _ _ hst2
  have F1 := factored_after_rescale (Solver.env cs sqrtF s perm1) g1 _ _ hst1
  have F2 := factored_after_rescale (withBackend (Solver.env cs sqrtF s perm1) be2 (execInner sqrtF be2 perm2)) g2 _ _ hst2
  have S := scalings_after_rescale (Solver.env cs sqrtF s perm1) (withBackend (Solver.env cs sqrtF s perm1) be2 (execInner sqrtF be2 perm2)) rfl s.kkt kkt2
    (solveStart cs sqrtF s perm1).1 (solveStart cs sqrtF s perm1).2.2.rho (solveStart cs sqrtF s perm1).2.2.delta false hss
  have hk1 : ((realOps (Solver.env cs sqrtF s perm1)).factor false ((solveStart cs sqrtF s perm1).1, (solveStart cs sqrtF s perm1).2.1)).1.2 =
      ((realOps (Solver.env cs sqrtF s perm1)).factor false ((realOps (Solver.env cs sqrtF s perm1)).rescale ((solveStart cs sqrtF s perm1).1, s.kkt) (solveStart cs sqrtF s perm1).2.2)).1.2 := by
    rw [hpair1]
  have hk2' : ((realOps (withBackend (Solver.env cs sqrtF s perm1) be2 (execInner sqrtF be2 perm2))).factor false
      ((solveStart cs sqrtF s perm1).1, (solveStart cs sqrtF (retarget s be2 kkt2) perm2).2.1)).1.2 =
      ((realOps (withBackend (Solver.env cs sqrtF s perm1) be2 (execInner sqrtF be2 perm2))).factor false
        ((realOps (withBackend (Solver.env cs sqrtF s perm1) be2 (execInner sqrtF be2 perm2))).rescale ((solveStart cs sqrtF s perm1).1, kkt2) (solveStart cs sqrtF s perm1).2.2)).1.2 := by
    rw [hpair2]
  exact solve_agree_core cs sqrtF s perm1 perm2 be2 kkt2 hb1 hb2 hv hτ1 hft heps h15 h05 hP hr hnl hnu hguard
    (by rw [hk1]; exact F1) (by rw [hk2']; exact F2) (by rw [hk1, hk2']; exact S) (by rw [hk1]; exact hinv1.2.1) (by rw [hk2']; exact hinv2.2.1)

/-- a freshly initialised KKT object (`KKT::init`: unit scalings) factorises into a `Factored` one -/
theorem factored_init (e : Env K n p m) (hg : GoodInner e) (rho delta : K) (o1 o2 o3 o4 : Vec K n) (hρ : 0 < rho) (hδ : 0 < delta) :
    Factored e.be e.data (KKT.regFactor e.be e.st.kkt e.data (KKT.init e.be e.data rho delta o1 o2 o3 o4) false e.inner) := by
  have hcoh := C13.init_coherent e.be e.data rho delta o1 o2 o3 o4
  obtain ⟨f1, f2, f3, f4, f5, f6, f7, f8⟩ := init_fields e.be e.data rho delta o1 o2 o3 o4
  generalize KKT.init e.be e.data rho delta o1 o2 o3 o4 = k at hcoh f1 f2 f3 f4 f5 f6 f7 f8 ⊢
  refine factored_of_coherent e hg k hcoh (by rw [f1]; exact hρ) (by rw [f2]; exact hδ) ?_ ?_ ?_ ?_ ?_ ?_
  · intro t; rw [f3]; simp only [C13.vecConst_get]; exact one_pos
  · intro t; rw [f4]; simp only [C13.vecConst_get]; exact one_pos
  · intro a ha; rw [f5, C13.headUpd_get]; simp only [ha, if_true]; exact one_pos
  · intro a ha; rw [f7, C13.headUpd_get]; simp only [ha, if_true]; exact one_pos
  · intro a ha; rw [f6, C13.headUpd_get]; simp only [ha, if_true]; exact one_pos
  · intro a ha; rw [f8, C13.headUpd_get]; simp only [ha, if_true]; exact one_pos

/-- **the first `solve()` after `setup()`** (`kktInitState = true`: each back end factorises the matrix its own `KKT::init` built,
    with the same `ρ, δ` and unit scalings): the answer does not depend on the back end either -/
theorem first_solve_backend_independent (cs : Consts K) (sqrtF : K → K) (s : Solver K n p m)
    (perm1 perm2 : Vector (Fin (n + p + m)) (n + p + m)) (be2 : Backend)
    (hb1 : BackendOk sqrtF s.be perm1) (hb2 : BackendOk sqrtF be2 perm2)
    (hv : s.st.verify = true) (hτ1 : s.st.tau < 1) (hft : 0 < s.st.regFinetuneLowerLimit) (heps : 0 ≤ cs.machEps)
    (h15 : 1 ≤ cs.c1_5) (h05 : 0 < cs.c0_5)
    (hP : ∀ x : Vec K n, 0 ≤ quad s.data.Psym x) (hki : s.kktInitState = true) (hr : s.refineOn = false)
    (rho delta : K) (o1 o2 o3 o4 : Vec K n) (hk : s.kkt = KKT.init s.be s.data rho delta o1 o2 o3 o4) (hρ : 0 < rho) (hδ : 0 < delta)
    (hnl : s.data.lb.cnt ≤ n) (hnu : s.data.ub.cnt ≤ n)
    (hguard : ∀ (w0 : Work K n p m) (kkt1 : KKT K n p m) (b : Bool), m + s.data.lb.cnt + s.data.ub.cnt ≠ 0 →
      0 < (mehrotraShift cs s.data (ipBeforeShift cs s (Solver.env cs sqrtF s perm1) w0 kkt1 b)).2.2) :
    (solveTyped cs sqrtF (retarget s be2 (KKT.init be2 s.data rho delta o1 o2 o3 o4)) perm2).2 = (solveTyped cs sqrtF s perm1).2 ∧
    (solveTyped cs sqrtF (retarget s be2 (KKT.init be2 s.data rho delta o1 o2 o3 o4)) perm2).1.w = (solveTyped cs sqrtF s perm1).1.w ∧
    (solveTyped cs sqrtF (retarget s be2 (KKT.init be2 s.data rho delta o1 o2 o3 o4)) perm2).1.info = (solveTyped cs sqrtF s perm1).1.info := by
  have hP' : ∀ x : Vec K n, 0 ≤ quad (Solver.env cs sqrtF s perm1).data.Psym x := hP
  have g1 : GoodInner (Solver.env cs sqrtF s perm1) := goodInner_of _ sqrtF perm1 hb1 rfl hP'
  have g2 : GoodInner (withBackend (Solver.env cs sqrtF s perm1) be2 (execInner sqrtF be2 perm2)) := goodInner_of _ sqrtF perm2 hb2 rfl hP'
  have hk1 : (solveStart cs sqrtF s perm1).2.1 = KKT.init s.be s.data rho delta o1 o2 o3 o4 := by
    rw [← hk]; simp only [solveStart, hki, Bool.not_true, Bool.false_eq_true, if_false]
  have hk2 : (solveStart cs sqrtF (retarget s be2 (KKT.init be2 s.data rho delta o1 o2 o3 o4)) perm2).2.1 = KKT.init be2 s.data rho delta o1 o2 o3 o4 := by
    simp only [solveStart, retarget, hki, Bool.not_true, Bool.false_eq_true, if_false]
  have F1 := factored_init (Solver.env cs sqrtF s perm1) g1 rho delta o1 o2 o3 o4 hρ hδ
  have F2 := factored_init (withBackend (Solver.env cs sqrtF s perm1) be2 (execInner sqrtF be2 perm2)) g2 rho delta o1 o2 o3 o4 hρ hδ
  have S : SameScalings (KKT.init s.be s.data rho delta o1 o2 o3 o4) (KKT.init be2 s.data rho delta o1 o2 o3 o4) := by
    obtain ⟨a1, a2, a3, a4, a5, a6, a7, a8⟩ := init_fields s.be s.data rho delta o1 o2 o3 o4
    obtain ⟨b1, b2, b3, b4, b5, b6, b7, b8⟩ := init_fields be2 s.data rho delta o1 o2 o3 o4
    exact ⟨by rw [a1, b1], by rw [a2, b2], by rw [a3, b3], by rw [a4, b4], by rw [a5, b5], by rw [a7, b7], by rw [a6, b6], by rw [a8, b8]⟩
  refine solve_agree_core cs sqrtF s perm1 perm2 be2 _ hb1 hb2 hv hτ1 hft heps h15 h05 hP hr hnl hnu hguard ?_ ?_ ?_ ?_ ?_
  · rw [hk1]; exact F1
  · rw [hk2]; exact F2
  · rw [hk1, hk2]; exact ⟨S.rho, S.delta, S.s, S.zinv, S.s_lb, S.zinv_lb, S.s_ub, S.zinv_ub⟩
  · rw [hk1]; exact C04.regFactor_cachesOk _ _ _ _ _ _ (C13.init_cachesOk _ _ _ _ _ _ _ _)
  · rw [hk2]; exact C04.regFactor_cachesOk _ _ _ _ _ _ (C13.init_cachesOk _ _ _ _ _ _ _ _)
end solveLevel

/-! ## ... from `setup()` on -/
section endToEnd
variable {K : Type} [Field K] [LinearOrder K] [IsStrictOrderedRing K] [Inhabited K]
variable {n p m : Nat}

theorem setupTyped_retarget (cs : Consts K) (sqrtF : K → K) (poison : K) (hn : 0 < n)
    (be1 be2 : Backend) (pk : PrecKind) (st : Settings K) (prevInfo : Info K)
    (P : Mat K n n) (c : Vec K n) (AT : Mat K n p) (b : Vec K p) (GT : Mat K n m) (h : Option (Vec K m)) (xlb xub : Option (Vec K n)) :
    setupTyped cs sqrtF poison hn be2 pk st prevInfo P c AT b GT h xlb xub =
      retarget (setupTyped cs sqrtF poison hn be1 pk st prevInfo P c AT b GT h xlb xub) be2
        (KKT.init be2 (setupTyped cs sqrtF poison hn be1 pk st prevInfo P c AT b GT h xlb xub).data st.rhoInit st.deltaInit
          (Vec.const n 1) (Vec.const n 1) (Vec.const n 1) (Vec.const n 1)) := by
  unfold retarget setupTyped
  simp only

/-- **C10 end to end: `setup()` then `solve()` with any two back ends.** The same convex problem (`P`'s stored upper triangle,
    symmetrised, is positive semidefinite), the same settings (valid, `τ < 1`, refinement not forced) and a Ruiz preconditioner,
    handed to any two of {dense, full, eq-eliminated, ineq-eliminated, all-eliminated} with any orderings: in exact arithmetic
    `solve()` returns the same status, the same results and the same `info`. -/
theorem setup_solve_backend_independent (cs : Consts K) (sqrtF : K → K) (poison : K) (hg : C15.PosConsts cs sqrtF) (hn : 0 < n)
    (be1 be2 : Backend) (pk : PrecKind) (hpk : pk ≠ .identity) (st : Settings K) (prevInfo : Info K)
    (P : Mat K n n) (c : Vec K n) (AT : Mat K n p) (b : Vec K p) (GT : Mat K n m) (h : Option (Vec K m)) (xlb xub : Option (Vec K n))
    (perm1 perm2 : Vector (Fin (n + p + m)) (n + p + m)) (hb1 : BackendOk sqrtF be1 perm1) (hb2 : BackendOk sqrtF be2 perm2)
    (hv : st.verify = true) (hτ1 : st.tau < 1) (hft : 0 < st.regFinetuneLowerLimit) (hra : st.refAlways = false)
    (heps : 0 ≤ cs.machEps) (h15 : 1 ≤ cs.c1_5) (h05 : 0 < cs.c0_5)
    (hP : ∀ x : Vec K n, 0 ≤ quad (setupRaw cs poison hn P c AT b GT h xlb xub).Psym x)
    (hguard : ∀ (w0 : Work K n p m) (kkt1 : KKT K n p m) (bb : Bool),
      m + (setupTyped cs sqrtF poison hn be1 pk st prevInfo P c AT b GT h xlb xub).data.lb.cnt +
          (setupTyped cs sqrtF poison hn be1 pk st prevInfo P c AT b GT h xlb xub).data.ub.cnt ≠ 0 →
      0 < (mehrotraShift cs (setupTyped cs sqrtF poison hn be1 pk st prevInfo P c AT b GT h xlb xub).data
        (ipBeforeShift cs (setupTyped cs sqrtF poison hn be1 pk st prevInfo P c AT b GT h xlb xub)
          (Solver.env cs sqrtF (setupTyped cs sqrtF poison hn be1 pk st prevInfo P c AT b GT h xlb xub) perm1) w0 kkt1 bb)).2.2) :
    (solveTyped cs sqrtF (setupTyped cs sqrtF poison hn be2 pk st prevInfo P c AT b GT h xlb xub) perm2).2 =
      (solveTyped cs sqrtF (setupTyped cs sqrtF poison hn be1 pk st prevInfo P c AT b GT h xlb xub) perm1).2 ∧
    (solveTyped cs sqrtF (setupTyped cs sqrtF poison hn be2 pk st prevInfo P c AT b GT h xlb xub) perm2).1.w =
      (solveTyped cs sqrtF (setupTyped cs sqrtF poison hn be1 pk st prevInfo P c AT b GT h xlb xub) perm1).1.w ∧
    (solveTyped cs sqrtF (setupTyped cs sqrtF poison hn be2 pk st prevInfo P c AT b GT h xlb xub) perm2).1.info =
      (solveTyped cs sqrtF (setupTyped cs sqrtF poison hn be1 pk st prevInfo P c AT b GT h xlb xub) perm1).1.info := by
  have hgood := C04.setup_good cs sqrtF poison hg.good hn be1 pk hpk st prevInfo P c AT b GT h xlb xub
  have hshape := C04.setup_shape cs sqrtF poison hg hn be1 pk hpk st prevInfo P c AT b GT h xlb xub
  obtain ⟨hρ0, hδ0, _, _⟩ := verify_facts st hv
  rw [setupTyped_retarget cs sqrtF poison hn be1 be2 pk st prevInfo P c AT b GT h xlb xub]
  have hkis : (setupTyped cs sqrtF poison hn be1 pk st prevInfo P c AT b GT h xlb xub).kktInitState = true := rfl
  have hrs : (setupTyped cs sqrtF poison hn be1 pk st prevInfo P c AT b GT h xlb xub).refineOn = false := hra
  have hks : (setupTyped cs sqrtF poison hn be1 pk st prevInfo P c AT b GT h xlb xub).kkt =
      KKT.init (setupTyped cs sqrtF poison hn be1 pk st prevInfo P c AT b GT h xlb xub).be
        (setupTyped cs sqrtF poison hn be1 pk st prevInfo P c AT b GT h xlb xub).data st.rhoInit st.deltaInit
        (Vec.const n 1) (Vec.const n 1) (Vec.const n 1) (Vec.const n 1) := rfl
  have hPs := psd_of_scaled hgood.scaled.toApplied hshape.pos.c hP
  have hst : (setupTyped cs sqrtF poison hn be1 pk st prevInfo P c AT b GT h xlb xub).st = st := rfl
  have hbe : (setupTyped cs sqrtF poison hn be1 pk st prevInfo P c AT b GT h xlb xub).be = be1 := rfl
  have hnl := hshape.lb.1
  have hnu := hshape.ub.1
  generalize setupTyped cs sqrtF poison hn be1 pk st prevInfo P c AT b GT h xlb xub = s at hkis hrs hks hPs hst hbe hnl hnu hguard ⊢
  rw [← hbe] at hb1
  rw [← hst] at hv hτ1 hft
  exact first_solve_backend_independent cs sqrtF s perm1 perm2 be2 hb1 hb2 hv hτ1 hft heps h15 h05
    hPs hkis hrs st.rhoInit st.deltaInit _ _ _ _ hks hρ0 hδ0 hnl hnu hguard
end endToEnd

/-! ## C02 for every back end -/
section anyBackend
variable {K : Type} [Field K] [LinearOrder K] [IsStrictOrderedRing K] [Inhabited K]
variable {n p m : Nat}

/-- C02 for every back end at once: the first `solve()` after `setup()` never answers NUMERICS on convex data (dense included,
    which `C02.first_solve_never_numerics` leaves out) -/
theorem first_solve_never_numerics_any (cs : Consts K) (sqrtF : K → K) (s : Solver K n p m) (perm : Vector (Fin (n + p + m)) (n + p + m))
    (hb : BackendOk sqrtF s.be perm) (hv : s.st.verify = true) (hτ1 : s.st.tau < 1)
    (hft : 0 < s.st.regFinetuneLowerLimit) (heps : 0 ≤ cs.machEps) (h15 : 1 ≤ cs.c1_5) (h05 : 0 < cs.c0_5)
    (hP : ∀ x : Vec K n, 0 ≤ quad s.data.Psym x) (hki : s.kktInitState = true) (hr : s.refineOn = false)
    (rho delta : K) (o1 o2 o3 o4 : Vec K n) (hk : s.kkt = KKT.init s.be s.data rho delta o1 o2 o3 o4) (hρ : 0 < rho) (hδ : 0 < delta)
    (hnl : s.data.lb.cnt ≤ n) (hnu : s.data.ub.cnt ≤ n)
    (hguard : ∀ (w0 : Work K n p m) (kkt1 : KKT K n p m) (b : Bool), m + s.data.lb.cnt + s.data.ub.cnt ≠ 0 →
      0 < (mehrotraShift cs s.data (ipBeforeShift cs s (Solver.env cs sqrtF s perm) w0 kkt1 b)).2.2) :
    (solveTyped cs sqrtF s perm).2 ≠ Status.numerics := by
  obtain ⟨hρ0, hδ0, hrl, hτ0⟩ := verify_facts s.st hv
  have hP' : ∀ x : Vec K n, 0 ≤ quad (Solver.env cs sqrtF s perm).data.Psym x := hP
  have g : GoodInner (Solver.env cs sqrtF s perm) := goodInner_of _ sqrtF perm hb rfl hP'
  have hk0 : (solveStart cs sqrtF s perm).2.1 = KKT.init s.be s.data rho delta o1 o2 o3 o4 := by
    rw [← hk]; simp only [solveStart, hki, Bool.not_true, Bool.false_eq_true, if_false]
  have F := factored_init (Solver.env cs sqrtF s perm) g rho delta o1 o2 o3 o4 hρ hδ
  have hfa : ((realOps (Solver.env cs sqrtF s perm)).factor s.refineOn ((solveStart cs sqrtF s perm).1, (solveStart cs sqrtF s perm).2.1)).2 = true := by
    rw [hr, hk0]
    obtain ⟨slv, hf, _⟩ := F.slv
    show (KKT.factOk _) = true
    unfold KKT.factOk
    rw [show ∀ k : KKT K n p m, k.fsol.isSome = true ↔ ∃ x, k.fsol = some x from fun k => Option.isSome_iff_exists]
    exact ⟨slv, hf⟩
  have hcache : C13.CachesOk s.be s.data
      ((realOps (Solver.env cs sqrtF s perm)).factor s.refineOn ((solveStart cs sqrtF s perm).1, (solveStart cs sqrtF s perm).2.1)).1.2 := by
    rw [hk0]
    exact C04.regFactor_cachesOk _ _ _ _ _ _ (C13.init_cachesOk _ _ _ _ _ _ _ _)
  rw [solveTyped_of_factor cs sqrtF s perm hv hfa]
  simp only
  unfold mainLoop
  apply loopG_never_numerics _ _ (realOps (Solver.env cs sqrtF s perm)) (ConvInv (Solver.env cs sqrtF s perm))
    (realOps_convInv (Solver.env cs sqrtF s perm) g.fac hτ0 hτ1 heps hft)
  refine ⟨?_, ?_, ?_, ?_, ?_⟩
  · exact C08.initialPoint_in_cone cs s (Solver.env cs sqrtF s perm) (solveStart cs sqrtF s perm).1 _
      (solveStart cs sqrtF s perm).2.2 s.refineOn hnl hnu h15 h05 (hguard _ _ _)
  · rw [C04.initialPoint_kkt]; exact hcache
  · unfold initialPoint; simp only; split <;> exact hρ0
  · unfold initialPoint; simp only; split <;> exact hδ0
  · unfold initialPoint; simp only; split <;> exact hrl

/-- a corollary for C04 (stale state): `solve()` reads the stored KKT object only through its scalings and its caches — two solver
    objects that differ in the KKT object alone (different histories of factorisations, regularised copies, cached products, as long
    as both caches agree with the data) return the same answer -/
theorem solve_independent_of_kkt_history (cs : Consts K) (sqrtF : K → K) (s : Solver K n p m)
    (perm : Vector (Fin (n + p + m)) (n + p + m)) (kkt2 : KKT K n p m) (hb : BackendOk sqrtF s.be perm)
    (hv : s.st.verify = true) (hτ1 : s.st.tau < 1) (hft : 0 < s.st.regFinetuneLowerLimit) (heps : 0 ≤ cs.machEps)
    (h15 : 1 ≤ cs.c1_5) (h05 : 0 < cs.c0_5)
    (hP : ∀ x : Vec K n, 0 ≤ quad s.data.Psym x)
    (hc1 : C13.CachesOk s.be s.data s.kkt) (hc2 : C13.CachesOk s.be s.data kkt2) (hss : SameScalings s.kkt kkt2)
    (hki : s.kktInitState = false) (hr : s.refineOn = false)
    (hnl : s.data.lb.cnt ≤ n) (hnu : s.data.ub.cnt ≤ n)
    (hguard : ∀ (w0 : Work K n p m) (kkt1 : KKT K n p m) (b : Bool), m + s.data.lb.cnt + s.data.ub.cnt ≠ 0 →
      0 < (mehrotraShift cs s.data (ipBeforeShift cs s (Solver.env cs sqrtF s perm) w0 kkt1 b)).2.2) :
    (solveTyped cs sqrtF { s with kkt := kkt2 } perm).2 = (solveTyped cs sqrtF s perm).2 ∧
    (solveTyped cs sqrtF { s with kkt := kkt2 } perm).1.w = (solveTyped cs sqrtF s perm).1.w ∧
    (solveTyped cs sqrtF { s with kkt := kkt2 } perm).1.info = (solveTyped cs sqrtF s perm).1.info :=
  solve_backend_independent cs sqrtF s perm perm s.be kkt2 hb hb hv hτ1 hft heps h15 h05 hP hc1 hc2 hss hki hr hnl hnu hguard
end anyBackend
end Piqp.C10
