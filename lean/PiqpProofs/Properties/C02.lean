import PiqpProofs.Basic
import PiqpModel.Control
import PiqpProofs.Properties.C14

/-!
# C02 — well-posed problems are solved by every back end

The full statement (global convergence of the proximal interior-point method on the class W within 250 iterations) is
**not proved** — see DESIGN.md.  What is proved here is the part of the mechanism that lives in the control skeleton.
-/

namespace Piqp.C02

variable {K : Type}
variable [Add K] [Sub K] [Mul K] [Div K] [Neg K] [Zero K] [One K] [LT K] [DecidableLT K] [LE K] [DecidableLE K] [BEq K]
variable {σ : Type}

omit [Neg K] [LE K] [DecidableLE K] in
/-- (partial) the only ways the main loop can end without SOLVED are: an infeasibility verdict, the iteration limit,
    or exhausted factorisation retries -/
theorem not_solved_partial (st : Settings K) (cs : Consts K) (ops : LoopOps K σ) (c : Ctrl) (s : σ) (info : Info K)
    (h : (loopG st cs ops c s info).2 ≠ Status.solved) :
    (loopG st cs ops c s info).2 = Status.maxIterReached ∨ (loopG st cs ops c s info).2 = Status.primalInfeasible ∨
    (loopG st cs ops c s info).2 = Status.dualInfeasible ∨ (loopG st cs ops c s info).2 = Status.numerics := by
  fun_induction loopG st cs ops c s info <;> simp_all

end Piqp.C02

/-!
## Mechanism: on a convex problem no factorisation ever fails (exact arithmetic)

`C14.sparse_factorisation_never_fails` / `C14.dense_factorisation_never_fails`: the reduced KKT matrix of a convex problem at
an interior iterate is symmetric quasi-definite (resp. positive definite for the dense back end), a class on which the
pivot-free LDLᵀ of every symmetric permutation (resp. Cholesky) meets no zero (non-positive) pivot. Together with
`C13.init_coherent`, `updateScalings_coherent`, `updateData_ok` (the matrix stays coherent with the data) and C08's cone
invariant (the iterate stays interior) this removes the NUMERICS exit and the whole retry logic from the exact-arithmetic
behaviour on the well-posed class; what remains unproved is convergence within the iteration limit.
-/

namespace Piqp.C02
section factor
open Piqp.C14
variable {K : Type} [Field K] [LinearOrder K] [IsStrictOrderedRing K]
variable {n p m : Nat}

theorem convex_sparse_factorisation_succeeds (be : Backend) (st : KKTSettings K) (d : Data K n p m) (k : KKT K n p m)
    (perm : Vector (Fin (n + p + m)) (n + p + m)) (hperm : IsPerm perm) (hc : C13.Coherent be d k)
    (hP : ∀ x : Vec K n, 0 ≤ quad d.Psym x) (hρ : 0 < k.rho) (hδ : 0 < k.delta)
    (hw : ∀ t : Fin m, 0 < k.s[t] * k.zinv[t] + k.delta)
    (hl : ∀ a : Fin n, d.lb.act a → 0 < k.zinv_lb[a] * k.s_lb[a] + k.delta)
    (hu : ∀ a : Fin n, d.ub.act a → 0 < k.zinv_ub[a] * k.s_ub[a] + k.delta) :
    (KKT.regFactor be st d k false (innerLDLT be perm)).factOk = true :=
  sparse_factorisation_never_fails be st d k perm hperm hc hP hρ hδ hw hl hu

theorem convex_dense_factorisation_succeeds (sqrtF : K → K) (hsq : ExactSqrt sqrtF) (st : KKTSettings K) (d : Data K n p m) (k : KKT K n p m)
    (hc : C13.Coherent .dense d k)
    (hP : ∀ x : Vec K n, 0 ≤ quad d.Psym x) (hρ : 0 < k.rho) (hδ : 0 < k.delta)
    (hw : ∀ t : Fin m, 0 < k.s[t] * k.zinv[t] + k.delta)
    (hl : ∀ a : Fin n, d.lb.act a → 0 < k.zinv_lb[a] * k.s_lb[a] + k.delta)
    (hu : ∀ a : Fin n, d.ub.act a → 0 < k.zinv_ub[a] * k.s_ub[a] + k.delta) :
    (KKT.regFactor .dense st d k false (innerLLT sqrtF)).factOk = true :=
  dense_factorisation_never_fails sqrtF hsq st d k hc hP hρ hδ hw hl hu
end factor
end Piqp.C02
