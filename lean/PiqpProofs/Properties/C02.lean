import PiqpProofs.Basic
import PiqpModel.Control

/-!
# C02 — well-posed problems are solved by every back end

The full statement (global convergence of the proximal interior-point method on the class W within 250 iterations) is
**not proved** — see DESIGN.md.  What is proved here is the part of the mechanism that lives in the control skeleton.
-/

namespace Piqp.C02

variable {K : Type}
variable [Add K] [Sub K] [Mul K] [Div K] [Neg K] [Zero K] [One K] [LT K] [DecidableLT K] [LE K] [DecidableLE K] [BEq K]
variable {σ : Type}

omit [Neg K] [LE K] [DecidableLE K] in
/-- (partial) the only ways the main loop can end without SOLVED are: an infeasibility verdict, the iteration limit,
    or exhausted factorisation retries -/
theorem not_solved_partial (st : Settings K) (cs : Consts K) (ops : LoopOps K σ) (c : Ctrl) (s : σ) (info : Info K)
    (h : (loopG st cs ops c s info).2 ≠ Status.solved) :
    (loopG st cs ops c s info).2 = Status.maxIterReached ∨ (loopG st cs ops c s info).2 = Status.primalInfeasible ∨
    (loopG st cs ops c s info).2 = Status.dualInfeasible ∨ (loopG st cs ops c s info).2 = Status.numerics := by
  fun_induction loopG st cs ops c s info <;> simp_all

end Piqp.C02
