import PiqpProofs.Basic
import PiqpModel.Control
import PiqpProofs.Properties.C14
import PiqpProofs.Properties.C04

/-!
# C02 — well-posed problems are solved by every back end

The full statement (global convergence of the proximal interior-point method on the class W within 250 iterations) is
**not proved** — see DESIGN.md.  What is proved here is the part of the mechanism that lives in the control skeleton.
-/

namespace Piqp.C02

variable {K : Type}
variable [Add K] [Sub K] [Mul K] [Div K] [Neg K] [Zero K] [One K] [LT K] [DecidableLT K] [LE K] [DecidableLE K] [BEq K]
variable {σ : Type}

omit [Neg K] [LE K] [DecidableLE K] in
/-- (partial) the only ways the main loop can end without SOLVED are: an infeasibility verdict, the iteration limit,
    or exhausted factorisation retries -/
theorem not_solved_partial (st : Settings K) (cs : Consts K) (ops : LoopOps K σ) (c : Ctrl) (s : σ) (info : Info K)
    (h : (loopG st cs ops c s info).2 ≠ Status.solved) :
    (loopG st cs ops c s info).2 = Status.maxIterReached ∨ (loopG st cs ops c s info).2 = Status.primalInfeasible ∨
    (loopG st cs ops c s info).2 = Status.dualInfeasible ∨ (loopG st cs ops c s info).2 = Status.numerics := by
  fun_induction loopG st cs ops c s info <;> simp_all

end Piqp.C02

/-!
## Mechanism: on a convex problem no factorisation ever fails (exact arithmetic)

`C14.sparse_factorisation_never_fails` / `C14.dense_factorisation_never_fails`: the reduced KKT matrix of a convex problem at
an interior iterate is symmetric quasi-definite (resp. positive definite for the dense back end), a class on which the
pivot-free LDLᵀ of every symmetric permutation (resp. Cholesky) meets no zero (non-positive) pivot. Together with
`C13.init_coherent`, `updateScalings_coherent`, `updateData_ok` (the matrix stays coherent with the data) and C08's cone
invariant (the iterate stays interior) this removes the NUMERICS exit and the whole retry logic from the exact-arithmetic
behaviour on the well-posed class; what remains unproved is convergence within the iteration limit.
-/

namespace Piqp.C02
section factor
open Piqp.C14
variable {K : Type} [Field K] [LinearOrder K] [IsStrictOrderedRing K]
variable {n p m : Nat}

theorem convex_sparse_factorisation_succeeds (be : Backend) (st : KKTSettings K) (d : Data K n p m) (k : KKT K n p m)
    (perm : Vector (Fin (n + p + m)) (n + p + m)) (hperm : IsPerm perm) (hc : C13.Coherent be d k)
    (hP : ∀ x : Vec K n, 0 ≤ quad d.Psym x) (hρ : 0 < k.rho) (hδ : 0 < k.delta)
    (hw : ∀ t : Fin m, 0 < k.s[t] * k.zinv[t] + k.delta)
    (hl : ∀ a : Fin n, d.lb.act a → 0 < k.zinv_lb[a] * k.s_lb[a] + k.delta)
    (hu : ∀ a : Fin n, d.ub.act a → 0 < k.zinv_ub[a] * k.s_ub[a] + k.delta) :
    (KKT.regFactor be st d k false (innerLDLT be perm)).factOk = true :=
  sparse_factorisation_never_fails be st d k perm hperm hc hP hρ hδ hw hl hu

theorem convex_dense_factorisation_succeeds (sqrtF : K → K) (hsq : ExactSqrt sqrtF) (st : KKTSettings K) (d : Data K n p m) (k : KKT K n p m)
    (hc : C13.Coherent .dense d k)
    (hP : ∀ x : Vec K n, 0 ≤ quad d.Psym x) (hρ : 0 < k.rho) (hδ : 0 < k.delta)
    (hw : ∀ t : Fin m, 0 < k.s[t] * k.zinv[t] + k.delta)
    (hl : ∀ a : Fin n, d.lb.act a → 0 < k.zinv_lb[a] * k.s_lb[a] + k.delta)
    (hu : ∀ a : Fin n, d.ub.act a → 0 < k.zinv_ub[a] * k.s_ub[a] + k.delta) :
    (KKT.regFactor .dense st d k false (innerLLT sqrtF)).factOk = true :=
  dense_factorisation_never_fails sqrtF hsq st d k hc hP hρ hδ hw hl hu
end factor
end Piqp.C02

/-!
## … hence the loop never returns NUMERICS on a convex problem

`loopG_never_numerics` is generic: an invariant of state and diagnostics that the loop's steps preserve and under which the
factorisation following a rescaling succeeds excludes the three failure branches. `realOps_convInv` instantiates it for the
real numeric operations with `ConvInv` (iterate strictly inside the cone — C08; KKT caches in agreement with the data — C13/C04;
positive `ρ`, `δ` and regularisation floor), the success of the factorisation coming from the quasi-definiteness theorems of C14.
-/

set_option linter.unusedSectionVars false
set_option linter.unusedSimpArgs false
set_option linter.unusedVariables false
namespace Piqp.C02
section generic
variable {K : Type}
variable [Add K] [Sub K] [Mul K] [Div K] [Neg K] [Zero K] [One K] [LT K] [DecidableLT K] [LE K] [DecidableLE K] [BEq K]
variable {σ : Type}

/-- an invariant of state *and* diagnostics that every step of the loop preserves and under which the factorisation that
    follows a rescaling always succeeds -/
structure OpsInv (st : Settings K) (cs : Consts K) (ops : LoopOps K σ) (Inv : σ → Info K → Prop) : Prop where
  head : ∀ b s i, Inv s i → Inv (ops.head b s i).1 (ops.head b s i).2
  reg : ∀ s i, Inv s i → Inv (ops.reg s i) i
  shift : ∀ s i, Inv s i → Inv (ops.shift s i).1 (ops.shift s i).2
  finetune : ∀ s i, Inv s i → Inv s (finetuneSwitch st i)
  rescale : ∀ b s i, Inv s i → (ops.factor b (ops.rescale s i)).2 = true ∧ Inv (ops.factor b (ops.rescale s i)).1 i
  step : ∀ b s i (it : Nat), Inv s i →
    let sn := ops.stepNum b s { i with iter := it, factorRetires := 0 }
    let ru := if ops.hasIneq then regUpdateIneq st cs sn.2.1 sn.2.2.1 sn.2.1.mu sn.2.2.2.1 sn.2.2.2.2.1 sn.2.2.2.2.2.1 sn.2.2.2.2.2.2
              else regUpdateEq cs sn.2.1 sn.2.2.2.1 sn.2.2.2.2.2.1
    Inv (ops.applyFlags sn.1 ru.2.1 ru.2.2) ru.1

omit [Neg K] [LE K] [DecidableLE K] in
/-- under such an invariant the main loop never takes a factorisation-failure branch: it never returns NUMERICS -/
theorem loopG_never_numerics (st : Settings K) (cs : Consts K) (ops : LoopOps K σ) (Inv : σ → Info K → Prop)
    (ho : OpsInv st cs ops Inv) (c : Ctrl) (s : σ) (info : Info K) (h : Inv s info) :
    (loopG st cs ops c s info).2 ≠ Status.numerics := by
  fun_induction loopG st cs ops c s info
  case case1 => simp
  case case2 => simp
  case case3 => simp
  case case4 c s info hlt hi hterm s1 hp hd iter1 sh info2 s2 fa hfa sn info3 ru s4 ih =>
    apply ih
    have h1 := ho.head (c.iter == 0) s info h
    have h2 := ho.reg _ _ h1
    have h3 := ho.shift _ _ h2
    have h4 := ho.finetune _ _ h3
    have h5 := (ho.rescale c.refineOn _ _ h4).2
    exact ho.step c.refineOn _ _ iter1 h5
  case case5 c s info hlt hi hterm s1 hp hd iter1 sh info2 s2 fa hfa hr ih =>
    have h1 := ho.head (c.iter == 0) s info h
    have h2 := ho.reg _ _ h1
    have h3 := ho.shift _ _ h2
    have h4 := ho.finetune _ _ h3
    exact absurd (ho.rescale c.refineOn _ _ h4).1 hfa
  case case6 c s info hlt hi hterm s1 hp hd sh info2 s2 fa hfa hr hf ih =>
    have h1 := ho.head (c.iter == 0) s info h
    have h2 := ho.reg _ _ h1
    have h3 := ho.shift _ _ h2
    have h4 := ho.finetune _ _ h3
    exact absurd (ho.rescale c.refineOn _ _ h4).1 hfa
  case case7 c s info hlt hi hterm s1 hp hd iter1 sh info2 s2 fa hfa hr hf =>
    have h1 := ho.head (c.iter == 0) s info h
    have h2 := ho.reg _ _ h1
    have h3 := ho.shift _ _ h2
    have h4 := ho.finetune _ _ h3
    exact absurd (ho.rescale c.refineOn _ _ h4).1 hfa
  case case8 => simp
end generic

section real
open Piqp.C14
variable {K : Type} [Field K] [LinearOrder K] [IsStrictOrderedRing K] [Inhabited K]
variable {n p m : Nat}

theorem us_fields (be : Backend) (d : Data K n p m) (k : KKT K n p m) (rho delta : K)
    (s : Vec K m) (s_lb s_ub : Vec K n) (z : Vec K m) (z_lb z_ub : Vec K n) :
    let k' := KKT.updateScalings be d k rho delta s s_lb s_ub z z_lb z_ub
    k'.rho = rho ∧ k'.delta = delta ∧ k'.s = s ∧ k'.zinv = (Vector.ofFn fun i => 1 / z[i]) ∧
    k'.s_lb = d.lb.headUpd k.s_lb (fun i => s_lb[i]) ∧ k'.s_ub = d.ub.headUpd k.s_ub (fun i => s_ub[i]) ∧
    k'.zinv_lb = d.lb.headUpd k.zinv_lb (fun i => 1 / z_lb[i]) ∧ k'.zinv_ub = d.ub.headUpd k.zinv_ub (fun i => 1 / z_ub[i]) := by
  unfold KKT.updateScalings KKT.refresh
  cases be <;> exact ⟨rfl, rfl, rfl, rfl, rfl, rfl, rfl, rfl⟩

theorem vmax_ge_left (a b : K) : a ≤ vmax a b := by
  unfold vmax; split
  · rename_i h; exact le_of_lt h
  · exact le_refl _

theorem regUpdateIneq_pos (st : Settings K) (cs : Consts K) (i : Info K) (a b c d e f : K) (hl : 0 < i.regLimit) :
    0 < (regUpdateIneq st cs i a b c d e f).1.rho ∧ 0 < (regUpdateIneq st cs i a b c d e f).1.delta ∧
    (regUpdateIneq st cs i a b c d e f).1.regLimit = i.regLimit := by
  unfold regUpdateIneq
  simp only
  refine ⟨?_, ?_, ?_⟩
  · split <;> split <;> exact lt_of_lt_of_le hl (vmax_ge_left _ _)
  · split <;> split <;> exact lt_of_lt_of_le hl (vmax_ge_left _ _)
  · split <;> split <;> rfl

theorem regUpdateEq_pos (cs : Consts K) (i : Info K) (a b : K) (hl : 0 < i.regLimit) :
    0 < (regUpdateEq cs i a b).1.rho ∧ 0 < (regUpdateEq cs i a b).1.delta ∧ (regUpdateEq cs i a b).1.regLimit = i.regLimit := by
  unfold regUpdateEq
  simp only
  refine ⟨?_, ?_, ?_⟩
  · split <;> split <;> exact lt_of_lt_of_le hl (vmax_ge_left _ _)
  · split <;> split <;> exact lt_of_lt_of_le hl (vmax_ge_left _ _)
  · split <;> split <;> rfl

/-- the loop invariant of the convex case: iterate strictly inside the cone, KKT caches in agreement with the data, positive
    regularisation parameters and regularisation floor -/
def ConvInv (e : Env K n p m) (s : NumState K n p m) (i : Info K) : Prop :=
  C08.InCone e.data s.1 ∧ C13.CachesOk e.be e.data s.2 ∧ 0 < i.rho ∧ 0 < i.delta ∧ 0 < i.regLimit

theorem finetuneSwitch_pos (st : Settings K) (i : Info K) (hft : 0 < st.regFinetuneLowerLimit) (h : 0 < i.regLimit) :
    (finetuneSwitch st i).rho = i.rho ∧ (finetuneSwitch st i).delta = i.delta ∧ 0 < (finetuneSwitch st i).regLimit := by
  unfold finetuneSwitch
  simp only
  split
  · exact ⟨rfl, rfl, hft⟩
  · exact ⟨rfl, rfl, h⟩

/-- after `update_scalings` at an interior iterate with positive `ρ, δ`, a sparse back end's factorisation succeeds, with or
    without the static regularisation of the refinement mode -/
theorem factor_after_rescale (e : Env K n p m) (perm : Vector (Fin (n + p + m)) (n + p + m)) (hperm : IsPerm perm)
    (hsp : e.be.isDense = false) (hin : e.inner = innerLDLT e.be perm)
    (hP : ∀ x : Vec K n, 0 ≤ quad e.data.Psym x) (b : Bool) (s : NumState K n p m) (i : Info K) (h : ConvInv e s i) :
    ((realOps e).factor b ((realOps e).rescale s i)).2 = true := by
  obtain ⟨hcone, hcache, hρ, hδ, _⟩ := h
  simp only [realOps, kktScal]
  obtain ⟨hcoh, _⟩ := C13.updateScalings_coherent e.be e.data s.2 i.rho i.delta s.1.s s.1.s_lb s.1.s_ub s.1.z s.1.z_lb s.1.z_ub hcache
  obtain ⟨f1, f2, f3, f4, f5, f6, f7, f8⟩ := us_fields e.be e.data s.2 i.rho i.delta s.1.s s.1.s_lb s.1.s_ub s.1.z s.1.z_lb s.1.z_ub
  have hw : ∀ t : Fin m, 0 < (KKT.updateScalings e.be e.data s.2 i.rho i.delta s.1.s s.1.s_lb s.1.s_ub s.1.z s.1.z_lb s.1.z_ub).s[t] *
      (KKT.updateScalings e.be e.data s.2 i.rho i.delta s.1.s s.1.s_lb s.1.s_ub s.1.z s.1.z_lb s.1.z_ub).zinv[t] +
      (KKT.updateScalings e.be e.data s.2 i.rho i.delta s.1.s s.1.s_lb s.1.s_ub s.1.z s.1.z_lb s.1.z_ub).delta := by
    intro t
    rw [f2, f3, f4, C13.ofFn_get]
    have := mul_pos (hcone.s t) (one_div_pos.mpr (hcone.z t))
    linarith
  have hl : ∀ a : Fin n, e.data.lb.act a → 0 < (KKT.updateScalings e.be e.data s.2 i.rho i.delta s.1.s s.1.s_lb s.1.s_ub s.1.z s.1.z_lb s.1.z_ub).zinv_lb[a] *
      (KKT.updateScalings e.be e.data s.2 i.rho i.delta s.1.s s.1.s_lb s.1.s_ub s.1.z s.1.z_lb s.1.z_ub).s_lb[a] +
      (KKT.updateScalings e.be e.data s.2 i.rho i.delta s.1.s s.1.s_lb s.1.s_ub s.1.z s.1.z_lb s.1.z_ub).delta := by
    intro a ha
    rw [f2, f5, f7, C13.headUpd_get, C13.headUpd_get]
    simp only [ha, if_true]
    have := mul_pos (one_div_pos.mpr (hcone.z_lb a ha)) (hcone.s_lb a ha)
    linarith
  have hu : ∀ a : Fin n, e.data.ub.act a → 0 < (KKT.updateScalings e.be e.data s.2 i.rho i.delta s.1.s s.1.s_lb s.1.s_ub s.1.z s.1.z_lb s.1.z_ub).zinv_ub[a] *
      (KKT.updateScalings e.be e.data s.2 i.rho i.delta s.1.s s.1.s_lb s.1.s_ub s.1.z s.1.z_lb s.1.z_ub).s_ub[a] +
      (KKT.updateScalings e.be e.data s.2 i.rho i.delta s.1.s s.1.s_lb s.1.s_ub s.1.z s.1.z_lb s.1.z_ub).delta := by
    intro a ha
    rw [f2, f6, f8, C13.headUpd_get, C13.headUpd_get]
    simp only [ha, if_true]
    have := mul_pos (one_div_pos.mpr (hcone.z_ub a ha)) (hcone.s_ub a ha)
    linarith
  rw [hin]
  cases b
  · exact sparse_factorisation_never_fails e.be e.st.kkt e.data _ perm hperm hcoh hP (by rw [f1]; exact hρ) (by rw [f2]; exact hδ) hw hl hu
  · exact sparse_factorisation_never_fails_refine e.be hsp e.st.kkt e.data _ perm hperm hcoh hP (by rw [f1]; exact hρ) (by rw [f2]; exact hδ) hw hl hu

theorem realOps_convInv (e : Env K n p m)
    (hfac : ∀ (b : Bool) (s : NumState K n p m) (i : Info K), ConvInv e s i → ((realOps e).factor b ((realOps e).rescale s i)).2 = true)
    (hτ0 : 0 < e.st.tau) (hτ1 : e.st.tau < 1) (heps : 0 ≤ e.cs.machEps) (hft : 0 < e.st.regFinetuneLowerLimit) :
    OpsInv e.st e.cs (realOps e) (ConvInv e) where
  head := by
    intro b s i h
    obtain ⟨h1, h2, h3, h4, h5⟩ := h
    refine ⟨(C08.realOps_preserve_cone e hτ0 hτ1 heps).head b s i h1, (C04.realOps_preserve_caches e).head b s i h2, ?_, ?_, ?_⟩
    all_goals (cases b <;> assumption)
  reg := fun s i h => ⟨(C08.realOps_preserve_cone e hτ0 hτ1 heps).reg s i h.1, (C04.realOps_preserve_caches e).reg s i h.2.1, h.2.2⟩
  shift := by
    intro s i h
    obtain ⟨h1, h2, h3, h4, h5⟩ := h
    refine ⟨(C08.realOps_preserve_cone e hτ0 hτ1 heps).shift s i h1, (C04.realOps_preserve_caches e).shift s i h2, ?_, ?_, ?_⟩
    all_goals (simp only [realOps, shiftOp]; split <;> assumption)
  finetune := by
    intro s i h
    obtain ⟨h1, h2, h3, h4, h5⟩ := h
    obtain ⟨f1, f2, f3⟩ := finetuneSwitch_pos e.st i hft h5
    exact ⟨h1, h2, by rw [f1]; exact h3, by rw [f2]; exact h4, f3⟩
  rescale := by
    intro b s i h
    refine ⟨hfac b s i h, ?_⟩
    obtain ⟨h1, h2, h3⟩ := h
    exact ⟨(C08.realOps_preserve_cone e hτ0 hτ1 heps).factor b _ ((C08.realOps_preserve_cone e hτ0 hτ1 heps).rescale s i h1),
      (C04.realOps_preserve_caches e).factor b _ ((C04.realOps_preserve_caches e).rescale s i h2), h3⟩
  step := by
    intro b s i it h
    obtain ⟨h1, h2, h3, h4, h5⟩ := h
    simp only
    have hc := (C08.realOps_preserve_cone e hτ0 hτ1 heps).stepNum b s { i with iter := it, factorRetires := 0 } h1
    have hk := (C04.realOps_preserve_caches e).stepNum b s { i with iter := it, factorRetires := 0 } h2
    have hreg : ((realOps e).stepNum b s { i with iter := it, factorRetires := 0 }).2.1.regLimit = i.regLimit := by
      simp only [realOps, stepNumOp]; split <;> rfl
    have hl : 0 < ((realOps e).stepNum b s { i with iter := it, factorRetires := 0 }).2.1.regLimit := by rw [hreg]; exact h5
    refine ⟨(C08.realOps_preserve_cone e hτ0 hτ1 heps).applyFlags _ _ _ hc, (C04.realOps_preserve_caches e).applyFlags _ _ _ hk, ?_⟩
    split
    · obtain ⟨r1, r2, r3⟩ := regUpdateIneq_pos e.st e.cs _ _ _ _ _ _ _ hl
      exact ⟨r1, r2, by rw [r3]; exact hl⟩
    · obtain ⟨r1, r2, r3⟩ := regUpdateEq_pos e.cs _ _ _ hl
      exact ⟨r1, r2, by rw [r3]; exact hl⟩

/-- **C02 / C12: on a convex problem the solver never answers NUMERICS (exact arithmetic, sparse back ends).** If `P ⪰ 0`,
    the loop starts strictly inside the cone with positive `ρ, δ` and regularisation floor (what `solve()` sets up), the step
    fraction is in `(0,1)` and the fine-tuning floor is positive, then — for all four sparse formulations and every
    fill-reducing permutation — every factorisation of the main loop succeeds and the loop ends with SOLVED, an
    infeasibility verdict or MAX_ITER. -/
theorem convex_never_numerics (e : Env K n p m) (perm : Vector (Fin (n + p + m)) (n + p + m)) (hperm : IsPerm perm)
    (hsp : e.be.isDense = false) (hin : e.inner = innerLDLT e.be perm)
    (hP : ∀ x : Vec K n, 0 ≤ quad e.data.Psym x)
    (hτ0 : 0 < e.st.tau) (hτ1 : e.st.tau < 1) (heps : 0 ≤ e.cs.machEps) (hft : 0 < e.st.regFinetuneLowerLimit)
    (ls : LoopState K n p m) (h : ConvInv e (ls.w, ls.kkt) ls.info) :
    (mainLoop e ls).2 ≠ Status.numerics := by
  unfold mainLoop
  exact loopG_never_numerics e.st e.cs (realOps e) (ConvInv e)
    (realOps_convInv e (factor_after_rescale e perm hperm hsp hin hP) hτ0 hτ1 heps hft) ls.c (ls.w, ls.kkt) ls.info h

/-- dense back end: the factorised block stays positive definite under the static regularisation too -/
theorem dense_factor_after_rescale (e : Env K n p m) (sqrtF : K → K) (hsq : ExactSqrt sqrtF)
    (hd : e.be = .dense) (hin : e.inner = innerLLT sqrtF)
    (hP : ∀ x : Vec K n, 0 ≤ quad e.data.Psym x) (b : Bool) (s : NumState K n p m) (i : Info K) (h : ConvInv e s i) :
    ((realOps e).factor b ((realOps e).rescale s i)).2 = true := by
  obtain ⟨hcone, hcache, hρ, hδ, _⟩ := h
  simp only [realOps, kktScal]
  obtain ⟨hcoh, _⟩ := C13.updateScalings_coherent e.be e.data s.2 i.rho i.delta s.1.s s.1.s_lb s.1.s_ub s.1.z s.1.z_lb s.1.z_ub hcache
  obtain ⟨f1, f2, f3, f4, f5, f6, f7, f8⟩ := us_fields e.be e.data s.2 i.rho i.delta s.1.s s.1.s_lb s.1.s_ub s.1.z s.1.z_lb s.1.z_ub
  generalize hk : KKT.updateScalings e.be e.data s.2 i.rho i.delta s.1.s s.1.s_lb s.1.s_ub s.1.z s.1.z_lb s.1.z_ub = k' at hcoh f1 f2 f3 f4 f5 f6 f7 f8 ⊢
  have hw : ∀ t : Fin m, 0 < k'.s[t] * k'.zinv[t] + k'.delta := by
    intro t
    rw [f2, f3, f4, C13.ofFn_get]
    have := mul_pos (hcone.s t) (one_div_pos.mpr (hcone.z t))
    linarith
  have hl : ∀ a : Fin n, e.data.lb.act a → 0 < k'.zinv_lb[a] * k'.s_lb[a] + k'.delta := by
    intro a ha
    rw [f2, f5, f7, C13.headUpd_get, C13.headUpd_get]
    simp only [ha, if_true]
    have := mul_pos (one_div_pos.mpr (hcone.z_lb a ha)) (hcone.s_lb a ha)
    linarith
  have hu : ∀ a : Fin n, e.data.ub.act a → 0 < k'.zinv_ub[a] * k'.s_ub[a] + k'.delta := by
    intro a ha
    rw [f2, f6, f8, C13.headUpd_get, C13.headUpd_get]
    simp only [ha, if_true]
    have := mul_pos (one_div_pos.mpr (hcone.z_ub a ha)) (hcone.s_ub a ha)
    linarith
  rw [hin]
  rw [hd] at hcoh ⊢
  cases b
  · exact dense_factorisation_never_fails sqrtF hsq e.st.kkt e.data k' hcoh hP (by rw [f1]; exact hρ) (by rw [f2]; exact hδ) hw hl hu
  · have hpd := coherent_xx_pd .dense e.data k' hcoh hP (by rw [f1]; exact hρ) (by rw [f2]; exact hδ) hw (boxTerm_nonneg e.data k' hl hu)
    unfold KKT.regFactor KKT.factOk innerLLT
    simp only [if_true, Backend.isDense]
    have hq : QDef (fun _ : Fin n => true) (addDiag k'.k.xx (Vec.const n (vmax 0 (e.st.kkt.regEps + e.st.kkt.regRel *
        maxFinHead (maxFinHead (maxFin (maxFin 0 n fun j => vabs e.data.P[j][j]) m fun i => k'.zinv[i] * k'.s[i]) e.data.lb.cnt n
          fun i => k'.zinv_lb[i] * k'.s_lb[i]) e.data.ub.cnt n (fun i => k'.zinv_ub[i] * k'.s_ub[i]) - k'.rho)))) := by
      refine ⟨?_, ?_, ?_⟩
      · intro a c
        simp only [addDiag, matOfFn_get']
        by_cases hac : a = c
        · subst hac; rfl
        · have hca : ¬ c = a := fun e => hac e.symm
          simp only [hac, hca, if_false]
          exact coherent_xx_symm .dense e.data k' hcoh a c
      · intro x _ hne
        rw [quad_addDiag]
        have h1 := hpd x hne
        have h2 : 0 ≤ ∑ i : Fin n, x[i] * x[i] := Finset.sum_nonneg fun i _ => mul_self_nonneg _
        have h3 := vmax_zero_nonneg (e.st.kkt.regEps + e.st.kkt.regRel *
          maxFinHead (maxFinHead (maxFin (maxFin 0 n fun j => vabs e.data.P[j][j]) m fun i => k'.zinv[i] * k'.s[i]) e.data.lb.cnt n
            fun i => k'.zinv_lb[i] * k'.s_lb[i]) e.data.ub.cnt n (fun i => k'.zinv_ub[i] * k'.s_ub[i]) - k'.rho)
        nlinarith [mul_nonneg h3 h2]
      · intro x hx hne
        obtain ⟨j, hj⟩ := hne
        exact absurd (hx j rfl) hj
    obtain ⟨L, hL⟩ := pd_llt_ok sqrtF hsq n _ hq
    simp only [hL]
    rfl

/-- the same for the dense back end (Cholesky), given an exact square root -/
theorem convex_never_numerics_dense (e : Env K n p m) (sqrtF : K → K) (hsq : ExactSqrt sqrtF)
    (hd : e.be = .dense) (hin : e.inner = innerLLT sqrtF)
    (hP : ∀ x : Vec K n, 0 ≤ quad e.data.Psym x)
    (hτ0 : 0 < e.st.tau) (hτ1 : e.st.tau < 1) (heps : 0 ≤ e.cs.machEps) (hft : 0 < e.st.regFinetuneLowerLimit)
    (ls : LoopState K n p m) (h : ConvInv e (ls.w, ls.kkt) ls.info) :
    (mainLoop e ls).2 ≠ Status.numerics := by
  unfold mainLoop
  exact loopG_never_numerics e.st e.cs (realOps e) (ConvInv e)
    (realOps_convInv e (dense_factor_after_rescale e sqrtF hsq hd hin hP) hτ0 hτ1 heps hft) ls.c (ls.w, ls.kkt) ls.info h
end real
end Piqp.C02

namespace Piqp.C02
section solver
open Piqp.C14
variable {K : Type} [Field K] [LinearOrder K] [IsStrictOrderedRing K] [Inhabited K]
variable {n p m : Nat}

theorem verify_facts (st : Settings K) (hv : st.verify = true) :
    0 < st.rhoInit ∧ 0 < st.deltaInit ∧ 0 < st.regLowerLimit ∧ 0 < st.tau := by
  unfold Settings.verify at hv
  simp only [Bool.and_eq_true, decide_eq_true_eq] at hv
  obtain ⟨⟨⟨⟨⟨⟨⟨⟨⟨⟨⟨⟨⟨⟨⟨⟨⟨⟨⟨h1, h2⟩, h3⟩, h4⟩, h5⟩, h6⟩, h7⟩, h8⟩, h9⟩, h10⟩, h11⟩, h12⟩, h13⟩, h14⟩, h15⟩, h16⟩, h17⟩, h18⟩, h19⟩, h20⟩ := hv
  exact ⟨h1, h2, h7, h13⟩

/-- **C02 / C12 at the level of `solve()`, sparse back ends, exact arithmetic.** For a solver whose stored (scaled) `P` is
    positive semidefinite and whose KKT caches agree with its data (C04: every state reachable through `setup`/`update`/
    `solve`), with valid settings, `τ < 1`, a positive fine-tuning floor, after an `update()` or an earlier `solve()`
    (`kktInitState = false`), and when the Mehrotra-style initial point is well defined (`hguard`, the hypothesis of C08's
    `initialPoint_in_cone`): `solve()` never answers NUMERICS — the first factorisation succeeds without retries and so does
    every later one, for every fill-reducing permutation. -/
theorem solve_never_numerics (cs : Consts K) (sqrtF : K → K) (s : Solver K n p m) (perm : Vector (Fin (n + p + m)) (n + p + m))
    (hperm : IsPerm perm) (hsp : s.be.isDense = false) (hv : s.st.verify = true) (hτ1 : s.st.tau < 1)
    (hft : 0 < s.st.regFinetuneLowerLimit) (heps : 0 ≤ cs.machEps) (h15 : 1 ≤ cs.c1_5) (h05 : 0 < cs.c0_5)
    (hP : ∀ x : Vec K n, 0 ≤ quad s.data.Psym x) (hc : C13.CachesOk s.be s.data s.kkt) (hki : s.kktInitState = false)
    (hnl : s.data.lb.cnt ≤ n) (hnu : s.data.ub.cnt ≤ n)
    (hguard : ∀ (w0 : Work K n p m) (kkt1 : KKT K n p m) (b : Bool), m + s.data.lb.cnt + s.data.ub.cnt ≠ 0 →
      0 < (mehrotraShift cs s.data (ipBeforeShift cs s (Solver.env cs sqrtF s perm) w0 kkt1 b)).2.2) :
    (solveTyped cs sqrtF s perm).2 ≠ Status.numerics := by
  obtain ⟨hρ0, hδ0, hrl, hτ0⟩ := verify_facts s.st hv
  have hin : (Solver.env cs sqrtF s perm).inner = innerLDLT (Solver.env cs sqrtF s perm).be perm := by
    simp only [Solver.env, execInner, hsp, Bool.false_eq_true, if_false]
  -- the start state: slacks and multipliers at one
  have hstart : ConvInv (Solver.env cs sqrtF s perm) ((solveStart cs sqrtF s perm).1, s.kkt) (solveStart cs sqrtF s perm).2.2 := by
    refine ⟨?_, hc, hρ0, hδ0, hrl⟩
    simp only [solveStart, Solver.env]
    refine ⟨fun i => ?_, fun i => ?_, fun i hi => ?_, fun i hi => ?_, fun i hi => ?_, fun i hi => ?_⟩
    · simp [Vec.const]
    · simp [Vec.const]
    · rw [C08.headUpd_get']; simp [hi]
    · rw [C08.headUpd_get']; simp [hi]
    · rw [C08.headUpd_get']; simp [hi]
    · rw [C08.headUpd_get']; simp [hi]
  have hk0 : (solveStart cs sqrtF s perm).2.1 =
      ((realOps (Solver.env cs sqrtF s perm)).rescale ((solveStart cs sqrtF s perm).1, s.kkt) (solveStart cs sqrtF s perm).2.2).2 := by
    simp only [solveStart, hki, Bool.not_false, if_true, realOps]
  have hpair : ((solveStart cs sqrtF s perm).1, (solveStart cs sqrtF s perm).2.1) =
      (realOps (Solver.env cs sqrtF s perm)).rescale ((solveStart cs sqrtF s perm).1, s.kkt) (solveStart cs sqrtF s perm).2.2 :=
    Prod.ext rfl hk0
  have hP' : ∀ x : Vec K n, 0 ≤ quad (Solver.env cs sqrtF s perm).data.Psym x := hP
  have hfa := factor_after_rescale (Solver.env cs sqrtF s perm) perm hperm hsp hin hP' s.refineOn _ _ hstart
  have hinvfa := ((realOps_convInv (Solver.env cs sqrtF s perm) (factor_after_rescale (Solver.env cs sqrtF s perm) perm hperm hsp hin hP')
    hτ0 hτ1 heps hft).rescale s.refineOn _ _ hstart).2
  rw [← hpair] at hfa hinvfa
  unfold solveTyped
  simp only [hv, Bool.not_true, Bool.false_eq_true, if_false]
  rw [initLoopG.eq_def]
  simp only [hfa, if_true, Bool.not_true, Bool.false_eq_true, if_false]
  apply convex_never_numerics (Solver.env cs sqrtF s perm) perm hperm hsp hin hP' hτ0 hτ1 heps hft
  obtain ⟨_, hck, hr, hd, hl⟩ := hinvfa
  refine ⟨?_, ?_, ?_, ?_, ?_⟩
  · exact C08.initialPoint_in_cone cs s (Solver.env cs sqrtF s perm) (solveStart cs sqrtF s perm).1
      ((realOps (Solver.env cs sqrtF s perm)).factor s.refineOn ((solveStart cs sqrtF s perm).1, (solveStart cs sqrtF s perm).2.1)).1.2
      (solveStart cs sqrtF s perm).2.2 s.refineOn hnl hnu h15 h05 (hguard _ _ _)
  · rw [C04.initialPoint_kkt]; exact hck
  · unfold initialPoint; simp only; split <;> exact hr
  · unfold initialPoint; simp only; split <;> exact hd
  · unfold initialPoint; simp only; split <;> exact hl
end solver
end Piqp.C02

namespace Piqp.C02
section psd
open Finset Piqp.C14 Piqp.C15
variable {K : Type} [Field K] [LinearOrder K] [IsStrictOrderedRing K]
variable {n p m : Nat}

/-- the hypothesis `P ⪰ 0` of the theorems above is about the *stored* (scaled) matrix; it follows from convexity of the
    user's problem: a positive cost scale and any column scaling keep `P` positive semidefinite -/
theorem psd_of_scaled {d0 d : Data K n p m} {pre : Precond K n p m} (hs : Applied d0 d pre) (hc : 0 < pre.c)
    (hP : ∀ x : Vec K n, 0 ≤ quad d0.Psym x) : ∀ x : Vec K n, 0 ≤ quad d.Psym x := by
  intro x
  have : quad d.Psym x = pre.c * quad d0.Psym (Vector.ofFn fun i => x[i] * pre.dx[i]) := by
    unfold quad
    rw [Finset.mul_sum]
    refine Finset.sum_congr rfl fun i _ => ?_
    simp only [C13.ofFn_get]
    have : (∑ j : Fin n, d.Psym[i][j] * x[j]) = pre.c * pre.dx[i] * ∑ j : Fin n, d0.Psym[i][j] * (x[j] * pre.dx[j]) := by
      rw [Finset.mul_sum]
      exact Finset.sum_congr rfl fun j _ => by rw [C01.Psym_scaled hs i j]; ring
    rw [this]; ring
  rw [this]
  exact mul_nonneg (le_of_lt hc) (hP _)
end psd
end Piqp.C02

namespace Piqp.C02
section first
open Piqp.C14
variable {K : Type} [Field K] [LinearOrder K] [IsStrictOrderedRing K] [Inhabited K]
variable {n p m : Nat}

theorem init_fields (be : Backend) (d : Data K n p m) (rho delta : K) (o1 o2 o3 o4 : Vec K n) :
    let k := KKT.init be d rho delta o1 o2 o3 o4
    k.rho = rho ∧ k.delta = delta ∧ k.s = Vec.const m 1 ∧ k.zinv = Vec.const m 1 ∧
    k.s_lb = d.lb.headUpd o1 (fun _ => 1) ∧ k.s_ub = d.ub.headUpd o2 (fun _ => 1) ∧
    k.zinv_lb = d.lb.headUpd o3 (fun _ => 1) ∧ k.zinv_ub = d.ub.headUpd o4 (fun _ => 1) := by
  unfold KKT.init
  cases be <;> exact ⟨rfl, rfl, rfl, rfl, rfl, rfl, rfl, rfl⟩

/-- the factorisation of the matrix `setup()` built succeeds (convex data, positive `ρ, δ`): no retry at the first solve -/
theorem init_factor_succeeds (be : Backend) (hsp : be.isDense = false) (st : KKTSettings K) (d : Data K n p m) (rho delta : K)
    (o1 o2 o3 o4 : Vec K n) (perm : Vector (Fin (n + p + m)) (n + p + m)) (hperm : IsPerm perm)
    (hP : ∀ x : Vec K n, 0 ≤ quad d.Psym x) (hρ : 0 < rho) (hδ : 0 < delta) (b : Bool) :
    (KKT.regFactor be st d (KKT.init be d rho delta o1 o2 o3 o4) b (innerLDLT be perm)).factOk = true := by
  have hcoh := C13.init_coherent be d rho delta o1 o2 o3 o4
  obtain ⟨f1, f2, f3, f4, f5, f6, f7, f8⟩ := init_fields be d rho delta o1 o2 o3 o4
  generalize KKT.init be d rho delta o1 o2 o3 o4 = k at hcoh f1 f2 f3 f4 f5 f6 f7 f8 ⊢
  have hw : ∀ t : Fin m, 0 < k.s[t] * k.zinv[t] + k.delta := by
    intro t; rw [f2, f3, f4]; simp only [C13.vecConst_get]; linarith
  have hl : ∀ a : Fin n, d.lb.act a → 0 < k.zinv_lb[a] * k.s_lb[a] + k.delta := by
    intro a ha; rw [f2, f5, f7, C13.headUpd_get, C13.headUpd_get]; simp only [ha, if_true]; linarith
  have hu : ∀ a : Fin n, d.ub.act a → 0 < k.zinv_ub[a] * k.s_ub[a] + k.delta := by
    intro a ha; rw [f2, f6, f8, C13.headUpd_get, C13.headUpd_get]; simp only [ha, if_true]; linarith
  cases b
  · exact sparse_factorisation_never_fails be st d k perm hperm hcoh hP (by rw [f1]; exact hρ) (by rw [f2]; exact hδ) hw hl hu
  · exact sparse_factorisation_never_fails_refine be hsp st d k perm hperm hcoh hP (by rw [f1]; exact hρ) (by rw [f2]; exact hδ) hw hl hu

/-- **the first `solve()` after `setup()`** (`kktInitState = true`, the KKT state is the one `KKT::init` built): on convex
    data it never answers NUMERICS either — the matrix assembled by `setup` factorises without retries and so does every
    matrix of the main loop (sparse back ends, every permutation, exact arithmetic) -/
theorem first_solve_never_numerics (cs : Consts K) (sqrtF : K → K) (s : Solver K n p m) (perm : Vector (Fin (n + p + m)) (n + p + m))
    (hperm : IsPerm perm) (hsp : s.be.isDense = false) (hv : s.st.verify = true) (hτ1 : s.st.tau < 1)
    (hft : 0 < s.st.regFinetuneLowerLimit) (heps : 0 ≤ cs.machEps) (h15 : 1 ≤ cs.c1_5) (h05 : 0 < cs.c0_5)
    (hP : ∀ x : Vec K n, 0 ≤ quad s.data.Psym x) (hki : s.kktInitState = true)
    (rho delta : K) (o1 o2 o3 o4 : Vec K n) (hk : s.kkt = KKT.init s.be s.data rho delta o1 o2 o3 o4) (hρ : 0 < rho) (hδ : 0 < delta)
    (hnl : s.data.lb.cnt ≤ n) (hnu : s.data.ub.cnt ≤ n)
    (hguard : ∀ (w0 : Work K n p m) (kkt1 : KKT K n p m) (b : Bool), m + s.data.lb.cnt + s.data.ub.cnt ≠ 0 →
      0 < (mehrotraShift cs s.data (ipBeforeShift cs s (Solver.env cs sqrtF s perm) w0 kkt1 b)).2.2) :
    (solveTyped cs sqrtF s perm).2 ≠ Status.numerics := by
  obtain ⟨hρ0, hδ0, hrl, hτ0⟩ := verify_facts s.st hv
  have hin : (Solver.env cs sqrtF s perm).inner = innerLDLT (Solver.env cs sqrtF s perm).be perm := by
    simp only [Solver.env, execInner, hsp, Bool.false_eq_true, if_false]
  have hP' : ∀ x : Vec K n, 0 ≤ quad (Solver.env cs sqrtF s perm).data.Psym x := hP
  have hk0 : (solveStart cs sqrtF s perm).2.1 = s.kkt := by
    simp only [solveStart, hki, Bool.not_true, Bool.false_eq_true, if_false]
  have hcone : C08.InCone s.data (solveStart cs sqrtF s perm).1 := by
    simp only [solveStart]
    refine ⟨fun i => ?_, fun i => ?_, fun i hi => ?_, fun i hi => ?_, fun i hi => ?_, fun i hi => ?_⟩
    · simp [Vec.const]
    · simp [Vec.const]
    · rw [C08.headUpd_get']; simp [hi]
    · rw [C08.headUpd_get']; simp [hi]
    · rw [C08.headUpd_get']; simp [hi]
    · rw [C08.headUpd_get']; simp [hi]
  have hfa : ((realOps (Solver.env cs sqrtF s perm)).factor s.refineOn ((solveStart cs sqrtF s perm).1, (solveStart cs sqrtF s perm).2.1)).2 = true := by
    simp only [realOps]
    rw [hk0, hk, hin]
    exact init_factor_succeeds s.be hsp s.st.kkt s.data rho delta o1 o2 o3 o4 perm hperm hP hρ hδ s.refineOn
  have hcache : C13.CachesOk s.be s.data
      ((realOps (Solver.env cs sqrtF s perm)).factor s.refineOn ((solveStart cs sqrtF s perm).1, (solveStart cs sqrtF s perm).2.1)).1.2 := by
    simp only [realOps]
    rw [hk0, hk]
    exact C04.regFactor_cachesOk _ _ _ _ _ _ (C13.init_cachesOk _ _ _ _ _ _ _ _)
  unfold solveTyped
  simp only [hv, Bool.not_true, Bool.false_eq_true, if_false]
  rw [initLoopG.eq_def]
  simp only [hfa, if_true, Bool.not_true, Bool.false_eq_true, if_false]
  apply convex_never_numerics (Solver.env cs sqrtF s perm) perm hperm hsp hin hP' hτ0 hτ1 heps hft
  refine ⟨?_, ?_, ?_, ?_, ?_⟩
  · exact C08.initialPoint_in_cone cs s (Solver.env cs sqrtF s perm) (solveStart cs sqrtF s perm).1
      ((realOps (Solver.env cs sqrtF s perm)).factor s.refineOn ((solveStart cs sqrtF s perm).1, (solveStart cs sqrtF s perm).2.1)).1.2
      (solveStart cs sqrtF s perm).2.2 s.refineOn hnl hnu h15 h05 (hguard _ _ _)
  · rw [C04.initialPoint_kkt]; exact hcache
  · unfold initialPoint; simp only; split <;> exact hρ0
  · unfold initialPoint; simp only; split <;> exact hδ0
  · unfold initialPoint; simp only; split <;> exact hrl

/-- **end to end: `setup()` on a convex problem, then `solve()`**: with a Ruiz preconditioner, valid settings, `τ < 1`, a
    positive fine-tuning floor and a well-defined initial point, the answer is never NUMERICS (sparse back ends, every
    permutation). The hypothesis on `P` is on the *user's* matrix (its stored upper triangle symmetrised). -/
theorem setup_solve_never_numerics (cs : Consts K) (sqrtF : K → K) (poison : K) (hg : C15.PosConsts cs sqrtF) (hn : 0 < n)
    (be : Backend) (hsp : be.isDense = false) (pk : PrecKind) (hpk : pk ≠ .identity) (st : Settings K) (prevInfo : Info K)
    (P : Mat K n n) (c : Vec K n) (AT : Mat K n p) (b : Vec K p) (GT : Mat K n m) (h : Option (Vec K m)) (xlb xub : Option (Vec K n))
    (perm : Vector (Fin (n + p + m)) (n + p + m)) (hperm : IsPerm perm)
    (hv : st.verify = true) (hτ1 : st.tau < 1) (hft : 0 < st.regFinetuneLowerLimit) (heps : 0 ≤ cs.machEps) (h15 : 1 ≤ cs.c1_5) (h05 : 0 < cs.c0_5)
    (hP : ∀ x : Vec K n, 0 ≤ quad (setupRaw cs poison hn P c AT b GT h xlb xub).Psym x)
    (hguard : ∀ (w0 : Work K n p m) (kkt1 : KKT K n p m) (bb : Bool),
      m + (setupTyped cs sqrtF poison hn be pk st prevInfo P c AT b GT h xlb xub).data.lb.cnt +
          (setupTyped cs sqrtF poison hn be pk st prevInfo P c AT b GT h xlb xub).data.ub.cnt ≠ 0 →
      0 < (mehrotraShift cs (setupTyped cs sqrtF poison hn be pk st prevInfo P c AT b GT h xlb xub).data
        (ipBeforeShift cs (setupTyped cs sqrtF poison hn be pk st prevInfo P c AT b GT h xlb xub)
          (Solver.env cs sqrtF (setupTyped cs sqrtF poison hn be pk st prevInfo P c AT b GT h xlb xub) perm) w0 kkt1 bb)).2.2) :
    (solveTyped cs sqrtF (setupTyped cs sqrtF poison hn be pk st prevInfo P c AT b GT h xlb xub) perm).2 ≠ Status.numerics := by
  have hgood := C04.setup_good cs sqrtF poison hg.good hn be pk hpk st prevInfo P c AT b GT h xlb xub
  have hshape := C04.setup_shape cs sqrtF poison hg hn be pk hpk st prevInfo P c AT b GT h xlb xub
  obtain ⟨hρ0, hδ0, _, _⟩ := verify_facts st hv
  exact first_solve_never_numerics cs sqrtF _ perm hperm hsp hv hτ1 hft heps h15 h05
    (psd_of_scaled hgood.scaled.toApplied hshape.pos.c hP) rfl st.rhoInit st.deltaInit _ _ _ _ rfl hρ0 hδ0
    hshape.lb.1 hshape.ub.1 hguard
end first
end Piqp.C02

namespace Piqp.C02
section dense
open Piqp.C14
variable {K : Type} [Field K] [LinearOrder K] [IsStrictOrderedRing K] [Inhabited K]
variable {n p m : Nat}

/-- `solve()` after an update or an earlier solve, dense back end (Cholesky with an exact square root) -/
theorem solve_never_numerics_dense (cs : Consts K) (sqrtF : K → K) (hsq : ExactSqrt sqrtF) (s : Solver K n p m)
    (perm : Vector (Fin (n + p + m)) (n + p + m))
    (hd : s.be = .dense) (hv : s.st.verify = true) (hτ1 : s.st.tau < 1)
    (hft : 0 < s.st.regFinetuneLowerLimit) (heps : 0 ≤ cs.machEps) (h15 : 1 ≤ cs.c1_5) (h05 : 0 < cs.c0_5)
    (hP : ∀ x : Vec K n, 0 ≤ quad s.data.Psym x) (hc : C13.CachesOk s.be s.data s.kkt) (hki : s.kktInitState = false)
    (hnl : s.data.lb.cnt ≤ n) (hnu : s.data.ub.cnt ≤ n)
    (hguard : ∀ (w0 : Work K n p m) (kkt1 : KKT K n p m) (b : Bool), m + s.data.lb.cnt + s.data.ub.cnt ≠ 0 →
      0 < (mehrotraShift cs s.data (ipBeforeShift cs s (Solver.env cs sqrtF s perm) w0 kkt1 b)).2.2) :
    (solveTyped cs sqrtF s perm).2 ≠ Status.numerics := by
  obtain ⟨hρ0, hδ0, hrl, hτ0⟩ := verify_facts s.st hv
  have hbe : (Solver.env cs sqrtF s perm).be = .dense := hd
  have hin : (Solver.env cs sqrtF s perm).inner = innerLLT sqrtF := by
    simp only [Solver.env, execInner, hd, Backend.isDense, if_true]
  have hP' : ∀ x : Vec K n, 0 ≤ quad (Solver.env cs sqrtF s perm).data.Psym x := hP
  have hstart : ConvInv (Solver.env cs sqrtF s perm) ((solveStart cs sqrtF s perm).1, s.kkt) (solveStart cs sqrtF s perm).2.2 := by
    refine ⟨?_, hc, hρ0, hδ0, hrl⟩
    simp only [solveStart, Solver.env]
    refine ⟨fun i => ?_, fun i => ?_, fun i hi => ?_, fun i hi => ?_, fun i hi => ?_, fun i hi => ?_⟩
    · simp [Vec.const]
    · simp [Vec.const]
    · rw [C08.headUpd_get']; simp [hi]
    · rw [C08.headUpd_get']; simp [hi]
    · rw [C08.headUpd_get']; simp [hi]
    · rw [C08.headUpd_get']; simp [hi]
  have hk0 : (solveStart cs sqrtF s perm).2.1 =
      ((realOps (Solver.env cs sqrtF s perm)).rescale ((solveStart cs sqrtF s perm).1, s.kkt) (solveStart cs sqrtF s perm).2.2).2 := by
    simp only [solveStart, hki, Bool.not_false, if_true, realOps]
  have hpair : ((solveStart cs sqrtF s perm).1, (solveStart cs sqrtF s perm).2.1) =
      (realOps (Solver.env cs sqrtF s perm)).rescale ((solveStart cs sqrtF s perm).1, s.kkt) (solveStart cs sqrtF s perm).2.2 :=
    Prod.ext rfl hk0
  have hfac := dense_factor_after_rescale (Solver.env cs sqrtF s perm) sqrtF hsq hbe hin hP'
  have hfa := hfac s.refineOn _ _ hstart
  have hinvfa := ((realOps_convInv (Solver.env cs sqrtF s perm) hfac hτ0 hτ1 heps hft).rescale s.refineOn _ _ hstart).2
  rw [← hpair] at hfa hinvfa
  unfold solveTyped
  simp only [hv, Bool.not_true, Bool.false_eq_true, if_false]
  rw [initLoopG.eq_def]
  simp only [hfa, if_true, Bool.not_true, Bool.false_eq_true, if_false]
  apply convex_never_numerics_dense (Solver.env cs sqrtF s perm) sqrtF hsq hbe hin hP' hτ0 hτ1 heps hft
  obtain ⟨_, hck, hr, hdd, hl⟩ := hinvfa
  refine ⟨?_, ?_, ?_, ?_, ?_⟩
  · exact C08.initialPoint_in_cone cs s (Solver.env cs sqrtF s perm) (solveStart cs sqrtF s perm).1
      ((realOps (Solver.env cs sqrtF s perm)).factor s.refineOn ((solveStart cs sqrtF s perm).1, (solveStart cs sqrtF s perm).2.1)).1.2
      (solveStart cs sqrtF s perm).2.2 s.refineOn hnl hnu h15 h05 (hguard _ _ _)
  · rw [C04.initialPoint_kkt]; exact hck
  · unfold initialPoint; simp only; split <;> exact hr
  · unfold initialPoint; simp only; split <;> exact hdd
  · unfold initialPoint; simp only; split <;> exact hl
end dense
end Piqp.C02
