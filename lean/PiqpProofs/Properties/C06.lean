import PiqpProofs.Basic
import PiqpModel.Control
import PiqpModel.Api

/-!
# C06 — any finite input terminates safely

`loopG` and `initLoopG` are total functions: Lean's termination checker accepted them with the lexicographic measure
`(max_iter − iter, refinement not yet on, max_factor_retires − factor_retires)` **for arbitrary numeric operations**,
i.e. whatever the data make the norms, comparisons and factorisations return (NaN-poisoned comparisons included:
they are just booleans here).  The theorems below are the observable consequences.
-/

namespace Piqp.C06

variable {K : Type}
variable [Add K] [Sub K] [Mul K] [Div K] [Neg K] [Zero K] [One K] [LT K] [DecidableLT K] [LE K] [DecidableLE K] [BEq K]
variable {σ : Type}

omit [Neg K] [LE K] [DecidableLE K] in
/-- at most `max_iter` iterations -/
theorem iter_le_max_iter (st : Settings K) (cs : Consts K) (ops : LoopOps K σ) (c : Ctrl) (s : σ) (info : Info K)
    (h : (c.iter : Int) ≤ st.maxIter) :
    ((loopG st cs ops c s info).1.1.iter : Int) ≤ st.maxIter := by
  fun_induction loopG st cs ops c s info <;> simp_all <;> omega

omit [Neg K] [LE K] [DecidableLE K] in
/-- the main loop returns one of five documented codes (UNSOLVED / INVALID_SETTINGS are returned before the loop) -/
theorem status_documented (st : Settings K) (cs : Consts K) (ops : LoopOps K σ) (c : Ctrl) (s : σ) (info : Info K) :
    (loopG st cs ops c s info).2 ∈ [Status.solved, Status.maxIterReached, Status.primalInfeasible, Status.dualInfeasible, Status.numerics] := by
  fun_induction loopG st cs ops c s info <;> simp_all

end Piqp.C06

/-! ## the same at the level of `solve()` and of the public interface (glue included: settings check, start state,
    factorisation retry loop before the first iterate, initial point, main loop, unscaling) -/

namespace Piqp.C06
set_option linter.unusedSectionVars false
set_option linter.unusedSimpArgs false
set_option linter.unusedVariables false
variable {K : Type}
variable [Add K] [Sub K] [Mul K] [Div K] [Neg K] [Zero K] [One K] [LT K] [DecidableLT K] [LE K] [DecidableLE K]
variable [NatCast K] [BEq K] [Inhabited K]
variable {σ : Type}

/-- the numeric operations do not touch the iteration counter stored in `info` -/
structure OpsKeepIter (ops : LoopOps K σ) : Prop where
  head : ∀ b s (i : Info K), (ops.head b s i).2.iter = i.iter
  shift : ∀ s (i : Info K), (ops.shift s i).2.iter = i.iter
  stepNum : ∀ b s (i : Info K), (ops.stepNum b s i).2.1.iter = i.iter

theorem finetuneSwitch_iter (st : Settings K) (i : Info K) : (finetuneSwitch st i).iter = i.iter := by
  unfold finetuneSwitch; simp only; split <;> rfl

theorem regUpdateIneq_iter (st : Settings K) (cs : Consts K) (i : Info K) (a b c d e f : K) :
    (regUpdateIneq st cs i a b c d e f).1.iter = i.iter := by
  unfold regUpdateIneq; simp only; split <;> split <;> rfl

theorem regUpdateEq_iter (cs : Consts K) (i : Info K) (a b : K) : (regUpdateEq cs i a b).1.iter = i.iter := by
  unfold regUpdateEq; simp only; split <;> split <;> rfl

/-- `info.iter` is the loop counter at every exit -/
theorem loopG_info_iter (st : Settings K) (cs : Consts K) (ops : LoopOps K σ) (hk : OpsKeepIter ops) (c : Ctrl) (s : σ) (info : Info K)
    (h : info.iter = c.iter) :
    (loopG st cs ops c s info).1.2.2.iter = (loopG st cs ops c s info).1.1.iter := by
  fun_induction loopG st cs ops c s info
  case case1 c s info hlt hi hterm =>
    simp only [hi]; rw [hk.head]; exact h
  case case2 c s info hlt hi hterm s1 hp =>
    simp only [hi]; rw [hk.head]; exact h
  case case3 c s info hlt hi hterm s1 hp hd =>
    simp only [hi]; rw [hk.head]; exact h
  case case4 c s info hlt hi hterm s1 hp hd iter1 sh info2 s2 fa hfa sn info3 ru s4 ih =>
    apply ih
    simp only [ru, info3, sn, iter1]
    split
    · rw [regUpdateIneq_iter, hk.stepNum]
    · rw [regUpdateEq_iter, hk.stepNum]
  case case5 c s info hlt hi hterm s1 hp hd iter1 sh info2 s2 fa hfa hr ih =>
    apply ih; rfl
  case case6 c s info hlt hi hterm s1 hp hd sh info2 s2 fa hfa hr hf ih =>
    apply ih; rfl
  case case7 c s info hlt hi hterm s1 hp hd iter1 sh info2 s2 fa hfa hr hf =>
    rfl
  case case8 c s info hlt =>
    exact h

theorem initLoopG_info (st : Settings K) (cs : Consts K) (ops : LoopOps K σ) (refineOn : Bool) (retries : Nat) (s : σ) (info : Info K) :
    (initLoopG st cs ops refineOn retries s info).2.2.2.1.iter = info.iter ∧
    ((initLoopG st cs ops refineOn retries s info).2.2.2.2 = false →
      (initLoopG st cs ops refineOn retries s info).2.2.2.1.status = Status.numerics) := by
  fun_induction initLoopG st cs ops refineOn retries s info
  case case1 => exact ⟨rfl, fun h => by cases h⟩
  case case2 ih => exact ih
  case case3 ih => exact ih
  case case4 => exact ⟨rfl, fun _ => rfl⟩

variable {n p m : Nat}

omit [Neg K] [LE K] [DecidableLE K] [NatCast K] [Inhabited K] in
theorem loop_status_eq_info (st : Settings K) (cs : Consts K) (ops : LoopOps K σ) (c : Ctrl) (s : σ) (info : Info K) :
    (loopG st cs ops c s info).1.2.2.status = (loopG st cs ops c s info).2 := by
  fun_induction loopG st cs ops c s info <;> simp_all

theorem initialPoint_iter (cs : Consts K) (s : Solver K n p m) (e : Env K n p m) (w0 : Work K n p m) (k : KKT K n p m) (i : Info K) (b : Bool) :
    (initialPoint cs s e w0 k i b).info.iter = i.iter ∧ (initialPoint cs s e w0 k i b).c.iter = 0 := by
  unfold initialPoint
  simp only
  constructor
  · split <;> rfl
  · trivial

theorem updateNr_iter (e : Env K n p m) (w : Work K n p m) (i : Info K) : (updateNrResiduals e w i).2.iter = i.iter := rfl

theorem realOps_keepIter (e : Env K n p m) : OpsKeepIter (realOps e) where
  head := by
    intro b s i
    cases b <;> rfl
  shift := by
    intro s i
    simp only [realOps, shiftOp]
    split <;> rfl
  stepNum := by
    intro b s i
    simp only [realOps, stepNumOp]
    split <;> rfl

/-- **C06 / C09 at the interface**: whatever the data, `solve()` returns one of the six documented codes (UNSOLVED is only
    ever reported by a solver that was never set up), `info.status` is that code, and `info.iter ≤ max_iter`. -/
theorem solve_documented (cs : Consts K) (sqrtF : K → K) (s : Solver K n p m) (perm : Vector (Fin (n + p + m)) (n + p + m)) :
    (solveTyped cs sqrtF s perm).2 ∈ [Status.solved, Status.maxIterReached, Status.primalInfeasible, Status.dualInfeasible,
        Status.numerics, Status.invalidSettings] ∧
    (solveTyped cs sqrtF s perm).1.info.status = (solveTyped cs sqrtF s perm).2 ∧
    (s.st.verify = true → ((solveTyped cs sqrtF s perm).1.info.iter : Int) ≤ s.st.maxIter) := by
  unfold solveTyped
  by_cases hv : s.st.verify
  · simp only [hv, Bool.not_true, Bool.false_eq_true, if_false]
    have hmax : (0 : Int) < s.st.maxIter := by
      unfold Settings.verify at hv
      simp only [Bool.and_eq_true, decide_eq_true_eq] at hv
      exact hv.1.1.1.1.1.1.1.1.1.1.2
    have hil := initLoopG_info (Solver.env cs sqrtF s perm).st (Solver.env cs sqrtF s perm).cs (realOps (Solver.env cs sqrtF s perm))
      s.refineOn 0 ((solveStart cs sqrtF s perm).1, (solveStart cs sqrtF s perm).2.1) (solveStart cs sqrtF s perm).2.2
    have hstart : (solveStart cs sqrtF s perm).2.2.iter = 0 := rfl
    generalize initLoopG (Solver.env cs sqrtF s perm).st (Solver.env cs sqrtF s perm).cs (realOps (Solver.env cs sqrtF s perm))
      s.refineOn 0 ((solveStart cs sqrtF s perm).1, (solveStart cs sqrtF s perm).2.1) (solveStart cs sqrtF s perm).2.2 = il at hil ⊢
    obtain ⟨a, b, wk, info, ok⟩ := il
    simp only at hil ⊢
    cases ok
    · simp only [Bool.not_false, if_true]
      refine ⟨by simp, hil.2 rfl, fun _ => ?_⟩
      rw [hil.1, hstart]; exact Int.le_of_lt hmax
    · simp only [Bool.not_true, Bool.false_eq_true, if_false]
      obtain ⟨hi1, hi2⟩ := initialPoint_iter cs s (Solver.env cs sqrtF s perm) (solveStart cs sqrtF s perm).1 wk.2 info a
      generalize initialPoint cs s (Solver.env cs sqrtF s perm) (solveStart cs sqrtF s perm).1 wk.2 info a = ls0 at hi1 hi2 ⊢
      unfold mainLoop
      simp only
      have e0 : (Solver.env cs sqrtF s perm).st = s.st := rfl
      have hst := status_documented s.st (Solver.env cs sqrtF s perm).cs (realOps (Solver.env cs sqrtF s perm)) ls0.c (ls0.w, ls0.kkt) ls0.info
      have hse := loop_status_eq_info s.st (Solver.env cs sqrtF s perm).cs (realOps (Solver.env cs sqrtF s perm)) ls0.c (ls0.w, ls0.kkt) ls0.info
      have hit := iter_le_max_iter s.st (Solver.env cs sqrtF s perm).cs (realOps (Solver.env cs sqrtF s perm)) ls0.c (ls0.w, ls0.kkt) ls0.info
        (by rw [hi2]; exact Int.le_of_lt hmax)
      have hii := loopG_info_iter s.st (Solver.env cs sqrtF s perm).cs (realOps (Solver.env cs sqrtF s perm))
        (realOps_keepIter (Solver.env cs sqrtF s perm)) ls0.c (ls0.w, ls0.kkt) ls0.info (by rw [hi1, hi2, hil.1, hstart])
      rw [e0]
      refine ⟨?_, hse, fun _ => by rw [hii]; exact hit⟩
      have := hst
      simp only [List.mem_cons, List.not_mem_nil, or_false] at this ⊢
      rcases this with h | h | h | h | h <;> simp [h]
  · have hv' : s.st.verify = false := by simpa using hv
    simp only [hv', Bool.not_false, if_true]
    exact ⟨by simp, trivial, fun h => by cases h⟩

/-- the same at the public interface: `solve()` always answers with a documented status code (UNSOLVED exactly when the
    solver was never set up) -/
theorem api_solve_documented (cs : Consts K) (sqrtF : K → K) (poison : K) (st : ApiState K) :
    ∃ s', (apiStep cs sqrtF poison st Call.solve).2 = Outcome.status s' ∧
      s' ∈ [Status.solved, Status.maxIterReached, Status.primalInfeasible, Status.dualInfeasible, Status.numerics,
            Status.invalidSettings, Status.unsolved] := by
  simp only [apiStep]
  cases hs : st.sol with
  | none => exact ⟨Status.unsolved, rfl, by simp⟩
  | some a =>
    refine ⟨(solveTyped cs sqrtF a.s a.perm).2, rfl, ?_⟩
    have := (solve_documented cs sqrtF a.s a.perm).1
    simp only [List.mem_cons, List.not_mem_nil, or_false] at this ⊢
    rcases this with h | h | h | h | h | h <;> simp [h]
end Piqp.C06
