import PiqpProofs.Basic
import PiqpModel.Control

/-!
# C06 — any finite input terminates safely

`loopG` and `initLoopG` are total functions: Lean's termination checker accepted them with the lexicographic measure
`(max_iter − iter, refinement not yet on, max_factor_retires − factor_retires)` **for arbitrary numeric operations**,
i.e. whatever the data make the norms, comparisons and factorisations return (NaN-poisoned comparisons included:
they are just booleans here).  The theorems below are the observable consequences.
-/

namespace Piqp.C06

variable {K : Type}
variable [Add K] [Sub K] [Mul K] [Div K] [Neg K] [Zero K] [One K] [LT K] [DecidableLT K] [LE K] [DecidableLE K] [BEq K]
variable {σ : Type}

omit [Neg K] [LE K] [DecidableLE K] in
/-- at most `max_iter` iterations -/
theorem iter_le_max_iter (st : Settings K) (cs : Consts K) (ops : LoopOps K σ) (c : Ctrl) (s : σ) (info : Info K)
    (h : (c.iter : Int) ≤ st.maxIter) :
    ((loopG st cs ops c s info).1.1.iter : Int) ≤ st.maxIter := by
  fun_induction loopG st cs ops c s info <;> simp_all <;> omega

omit [Neg K] [LE K] [DecidableLE K] in
/-- the main loop returns one of five documented codes (UNSOLVED / INVALID_SETTINGS are returned before the loop) -/
theorem status_documented (st : Settings K) (cs : Consts K) (ops : LoopOps K σ) (c : Ctrl) (s : σ) (info : Info K) :
    (loopG st cs ops c s info).2 ∈ [Status.solved, Status.maxIterReached, Status.primalInfeasible, Status.dualInfeasible, Status.numerics] := by
  fun_induction loopG st cs ops c s info <;> simp_all

end Piqp.C06
