import PiqpProofs.Basic
import PiqpModel.Api
import PiqpModel.Control
import PiqpProofs.Properties.C01
import PiqpProofs.Properties.C08

/-!
# C12 — factorisation failures are retried, bounded and never poison the result

All statements are about `loopG` / `initLoopG` with an **arbitrary** `LoopOps`: the factorisation outcome
`ops.factor` is any function, so they hold for every failure pattern, every back end and every numeric trajectory.
-/

namespace Piqp.C12

variable {K : Type}
variable [Add K] [Sub K] [Mul K] [Div K] [Neg K] [Zero K] [One K] [LT K] [DecidableLT K] [LE K] [DecidableLE K] [BEq K]
variable {σ : Type}

omit [Neg K] [LE K] [DecidableLE K] in
/-- the loop never runs past `max_iter`, whatever fails -/
theorem iter_le_max_iter (st : Settings K) (cs : Consts K) (ops : LoopOps K σ) (c : Ctrl) (s : σ) (info : Info K)
    (h : (c.iter : Int) ≤ st.maxIter) :
    ((loopG st cs ops c s info).1.1.iter : Int) ≤ st.maxIter := by
  fun_induction loopG st cs ops c s info <;> simp_all <;> omega

omit [Neg K] [LE K] [DecidableLE K] in
/-- NUMERICS is returned only with iterative refinement enabled and the retry budget used up -/
theorem numerics_only_after_retries (st : Settings K) (cs : Consts K) (ops : LoopOps K σ) (c : Ctrl) (s : σ) (info : Info K)
    (h : (loopG st cs ops c s info).2 = Status.numerics) :
    (loopG st cs ops c s info).1.1.refineOn = true ∧
    ¬ ((loopG st cs ops c s info).1.1.factorRetires : Int) < st.maxFactorRetires := by
  fun_induction loopG st cs ops c s info <;> simp_all

omit [Neg K] [LE K] [DecidableLE K] in
/-- the regularisation is raised at most `max_factor_retires` consecutive times -/
theorem retries_bounded (st : Settings K) (cs : Consts K) (ops : LoopOps K σ) (c : Ctrl) (s : σ) (info : Info K)
    (h0 : 0 ≤ st.maxFactorRetires) (h : (c.factorRetires : Int) ≤ st.maxFactorRetires) :
    ((loopG st cs ops c s info).1.1.factorRetires : Int) ≤ st.maxFactorRetires := by
  fun_induction loopG st cs ops c s info <;> simp_all <;> omega

omit [Neg K] [LE K] [DecidableLE K] in
/-- once iterative refinement is on it stays on -/
theorem refinement_sticky (st : Settings K) (cs : Consts K) (ops : LoopOps K σ) (c : Ctrl) (s : σ) (info : Info K)
    (h : c.refineOn = true) : (loopG st cs ops c s info).1.1.refineOn = true := by
  fun_induction loopG st cs ops c s info <;> simp_all

omit [Neg K] [LE K] [DecidableLE K] in
/-- SOLVED under any failure pattern still means the termination test held (C01 is oracle-generic) -/
theorem solved_certificate_under_failures (st : Settings K) (cs : Consts K) (ops : LoopOps K σ) (c : Ctrl) (s : σ) (info : Info K)
    (h : (loopG st cs ops c s info).2 = Status.solved) :
    termTest st (loopG st cs ops c s info).1.2.2 = true := by
  fun_induction loopG st cs ops c s info <;> simp_all [termTest]

omit [Neg K] [LE K] [DecidableLE K] in
/-- initial retry loop: failure (`ok = false`) is reported only with refinement on and the budget used up;
    the first failure only switches refinement on -/
theorem init_numerics_only_after_retries (st : Settings K) (cs : Consts K) (ops : LoopOps K σ) (refineOn : Bool) (retries : Nat)
    (s : σ) (info : Info K) (h : (initLoopG st cs ops refineOn retries s info).2.2.2.2 = false) :
    (initLoopG st cs ops refineOn retries s info).1 = true ∧
    ¬ ((initLoopG st cs ops refineOn retries s info).2.1 : Int) < st.maxFactorRetires := by
  fun_induction initLoopG st cs ops refineOn retries s info <;> simp_all

end Piqp.C12

/-!
## Failures never poison the result

In `realOps e` the factorisation is `KKT.regFactor … e.inner` with an **arbitrary** `e.inner : Inner K n p m` — it may fail (return
`none`) on any subset of the calls, in any pattern. The two theorems below are therefore statements about every failure
pattern at once; they are C08's and C01's theorems, restated here because this is what "never poison the result" means.
-/

namespace Piqp.C12
section poison
variable {K : Type} [Field K] [LinearOrder K] [IsStrictOrderedRing K]
variable {n p m : Nat}

/-- whatever the factorisation does, the iterate returned at any exit (SOLVED, either verdict, MAX_ITER, NUMERICS) has
    strictly positive slacks and multipliers on every active block -/
theorem failures_keep_cone (e : Env K n p m) (ls : LoopState K n p m) (hτ0 : 0 < e.st.tau) (hτ1 : e.st.tau < 1)
    (heps : 0 ≤ e.cs.machEps) (hc : C08.InCone e.data ls.w) : C08.InCone e.data (mainLoop e ls).1.w :=
  C08.mainLoop_in_cone e ls hτ0 hτ1 heps hc

/-- whatever the factorisation does, SOLVED carries the certificate of the user's problem -/
theorem failures_keep_certificate (e : Env K n p m) (d0 : Data K n p m) (hk : e.pk ≠ .identity)
    (hs : C15.Scaled d0 e.data e.pre) (hi : C15.InvFull e.pre) (ls : LoopState K n p m) (h0 : ls.c.iter = 0)
    (hsolved : (mainLoop e ls).2 = Status.solved) (i : Fin n) :
    vabs (C01.userDualRes d0 (e.pre.unscalePrimal e.pk (mainLoop e ls).1.w.x) (e.pre.unscaleDualEq e.pk (mainLoop e ls).1.w.y)
        (e.pre.unscaleDualIneq e.pk (mainLoop e ls).1.w.z) (e.pre.unscaleDualLb e.pk (mainLoop e ls).1.w.z_lb)
        (e.pre.unscaleDualUb e.pk (mainLoop e ls).1.w.z_ub) i)
      < e.st.epsAbs + e.st.epsRel * (mainLoop e ls).1.info.dualRelInf :=
  (C01.solved_certificate e d0 hk hs hi ls h0 hsolved).1 i
end poison
end Piqp.C12

namespace Piqp.C12
section api
variable {K : Type}
variable [Add K] [Sub K] [Mul K] [Div K] [Neg K] [Zero K] [One K] [LT K] [DecidableLT K] [LE K] [DecidableLE K]
variable [NatCast K] [BEq K] [Inhabited K]
variable {n p m : Nat}

/-- **C12 at the interface**: `solve()` answers NUMERICS only with iterative refinement switched on (and it stays on in the
    solver object) — i.e. never before refinement has been tried — for every state, data and failure pattern of the inner
    factorisation -/
theorem solve_numerics_refinement_on (cs : Consts K) (sqrtF : K → K) (s : Solver K n p m) (perm : Vector (Fin (n + p + m)) (n + p + m))
    (h : (solveTyped cs sqrtF s perm).2 = Status.numerics) : (solveTyped cs sqrtF s perm).1.refineOn = true := by
  unfold solveTyped at h ⊢
  by_cases hv : s.st.verify
  · simp only [hv, Bool.not_true, Bool.false_eq_true, if_false] at h ⊢
    have hil := init_numerics_only_after_retries (Solver.env cs sqrtF s perm).st (Solver.env cs sqrtF s perm).cs
      (realOps (Solver.env cs sqrtF s perm)) s.refineOn 0 ((solveStart cs sqrtF s perm).1, (solveStart cs sqrtF s perm).2.1)
      (solveStart cs sqrtF s perm).2.2
    generalize initLoopG (Solver.env cs sqrtF s perm).st (Solver.env cs sqrtF s perm).cs (realOps (Solver.env cs sqrtF s perm))
      s.refineOn 0 ((solveStart cs sqrtF s perm).1, (solveStart cs sqrtF s perm).2.1) (solveStart cs sqrtF s perm).2.2 = il at hil h ⊢
    obtain ⟨a, b, wk, info, ok⟩ := il
    simp only at hil h ⊢
    cases ok
    · simp only [Bool.not_false, if_true]
      exact (hil rfl).1
    · simp only [Bool.not_true, Bool.false_eq_true, if_false] at h ⊢
      unfold mainLoop at h ⊢
      simp only at h ⊢
      exact (numerics_only_after_retries _ _ _ _ _ _ h).1
  · have hv' : s.st.verify = false := by simpa using hv
    simp only [hv', Bool.not_false, if_true] at h
    cases h
end api
end Piqp.C12
