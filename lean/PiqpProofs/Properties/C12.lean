import PiqpProofs.Basic
import PiqpModel.Control

/-!
# C12 — factorisation failures are retried, bounded and never poison the result

All statements are about `loopG` / `initLoopG` with an **arbitrary** `LoopOps`: the factorisation outcome
`ops.factor` is any function, so they hold for every failure pattern, every back end and every numeric trajectory.
-/

namespace Piqp.C12

variable {K : Type}
variable [Add K] [Sub K] [Mul K] [Div K] [Neg K] [Zero K] [One K] [LT K] [DecidableLT K] [LE K] [DecidableLE K] [BEq K]
variable {σ : Type}

omit [Neg K] [LE K] [DecidableLE K] in
/-- the loop never runs past `max_iter`, whatever fails -/
theorem iter_le_max_iter (st : Settings K) (cs : Consts K) (ops : LoopOps K σ) (c : Ctrl) (s : σ) (info : Info K)
    (h : (c.iter : Int) ≤ st.maxIter) :
    ((loopG st cs ops c s info).1.1.iter : Int) ≤ st.maxIter := by
  fun_induction loopG st cs ops c s info <;> simp_all <;> omega

omit [Neg K] [LE K] [DecidableLE K] in
/-- NUMERICS is returned only with iterative refinement enabled and the retry budget used up -/
theorem numerics_only_after_retries (st : Settings K) (cs : Consts K) (ops : LoopOps K σ) (c : Ctrl) (s : σ) (info : Info K)
    (h : (loopG st cs ops c s info).2 = Status.numerics) :
    (loopG st cs ops c s info).1.1.refineOn = true ∧
    ¬ ((loopG st cs ops c s info).1.1.factorRetires : Int) < st.maxFactorRetires := by
  fun_induction loopG st cs ops c s info <;> simp_all

omit [Neg K] [LE K] [DecidableLE K] in
/-- the regularisation is raised at most `max_factor_retires` consecutive times -/
theorem retries_bounded (st : Settings K) (cs : Consts K) (ops : LoopOps K σ) (c : Ctrl) (s : σ) (info : Info K)
    (h0 : 0 ≤ st.maxFactorRetires) (h : (c.factorRetires : Int) ≤ st.maxFactorRetires) :
    ((loopG st cs ops c s info).1.1.factorRetires : Int) ≤ st.maxFactorRetires := by
  fun_induction loopG st cs ops c s info <;> simp_all <;> omega

omit [Neg K] [LE K] [DecidableLE K] in
/-- once iterative refinement is on it stays on -/
theorem refinement_sticky (st : Settings K) (cs : Consts K) (ops : LoopOps K σ) (c : Ctrl) (s : σ) (info : Info K)
    (h : c.refineOn = true) : (loopG st cs ops c s info).1.1.refineOn = true := by
  fun_induction loopG st cs ops c s info <;> simp_all

omit [Neg K] [LE K] [DecidableLE K] in
/-- SOLVED under any failure pattern still means the termination test held (C01 is oracle-generic) -/
theorem solved_certificate_under_failures (st : Settings K) (cs : Consts K) (ops : LoopOps K σ) (c : Ctrl) (s : σ) (info : Info K)
    (h : (loopG st cs ops c s info).2 = Status.solved) :
    termTest st (loopG st cs ops c s info).1.2.2 = true := by
  fun_induction loopG st cs ops c s info <;> simp_all [termTest]

omit [Neg K] [LE K] [DecidableLE K] in
/-- initial retry loop: failure (`ok = false`) is reported only with refinement on and the budget used up;
    the first failure only switches refinement on -/
theorem init_numerics_only_after_retries (st : Settings K) (cs : Consts K) (ops : LoopOps K σ) (refineOn : Bool) (retries : Nat)
    (s : σ) (info : Info K) (h : (initLoopG st cs ops refineOn retries s info).2.2.2.2 = false) :
    (initLoopG st cs ops refineOn retries s info).1 = true ∧
    ¬ ((initLoopG st cs ops refineOn retries s info).2.1 : Int) < st.maxFactorRetires := by
  fun_induction initLoopG st cs ops refineOn retries s info <;> simp_all

end Piqp.C12
