import PiqpModel.Csc
import Mathlib.Data.List.Perm.Subperm
import Mathlib.Data.List.Nodup
import PiqpProofs.Basic
import PiqpModel.LinAlg
import PiqpModel.Exec
import PiqpProofs.Properties.C13
import Mathlib.Data.Fintype.EquivFin
import Mathlib.Algebra.BigOperators.Group.Finset.Basic
import Mathlib.Tactic.Ring
import Mathlib.Tactic.FieldSimp
import Mathlib.Algebra.BigOperators.Fin
import Mathlib.Algebra.BigOperators.Ring.Finset
import Mathlib.Algebra.BigOperators.Field
import Mathlib.Tactic.Linarith
import Mathlib.Tactic.FinCases
import Mathlib.Algebra.Order.BigOperators.Group.Finset

/-!
# C14 — factorisation and sparse kernels are exact on every pattern (spec level)

`ldlt` / `ldltSolve` are the dense Schur-complement recursions the model uses for every pivot-free LDLᵀ in the code
(sparse up-looking LDLt, dense LDLTNoPivot blocked/unblocked): in exact arithmetic the factors of a pivot-free LDLᵀ do not
depend on the loop order, and the exhaustive correspondence (check C14) compares the implementation's `L`, `D` and solves
with these definitions on every pattern for n ≤ 5.
-/

set_option linter.unusedSectionVars false
set_option linter.unusedSimpArgs false
set_option linter.unusedVariables false
set_option linter.unusedTactic false

namespace Piqp.C14
open Finset
variable {K : Type} [Field K] [DecidableEq K]

@[simp] theorem consV_zero {n : Nat} (a : K) (v : Vec K n) : (consV a v)[(0 : Fin (n+1))] = a := by
  simp [consV]

@[simp] theorem consV_succ {n : Nat} (a : K) (v : Vec K n) (i : Fin n) : (consV a v)[i.succ] = v[i] := by
  simp [consV]

@[simp] theorem colDiv_get {n : Nat} (A : Mat K (n+1) (n+1)) (d : K) (i : Fin n) :
    (colDiv A d)[i] = A[i.succ][(0 : Fin (n+1))] / d := by
  simp [colDiv]

@[simp] theorem schur_get {n : Nat} (A : Mat K (n+1) (n+1)) (l : Vec K n) (w : K) (i j : Fin n) :
    (schur A l w)[i][j] = A[i.succ][j.succ] - l[i] * w * l[j] := by
  simp [schur, Mat.ofFn]

theorem ldltSolve_correct : ∀ (n : Nat) (A : Mat K n n) (b x : Vec K n),
    (∀ i j : Fin n, A[i][j] = A[j][i]) → ldltSolve n A b = .ok x →
    ∀ i : Fin n, ∑ j : Fin n, A[i][j] * x[j] = b[i]
  | 0, _, _, _, _, _ => fun i => i.elim0
  | n+1, A, b, x, hsym, h => by
    unfold ldltSolve at h
    simp only at h
    split at h
    · simp at h
    · rename_i hd
      have hd0 : A[(0 : Fin (n+1))][(0 : Fin (n+1))] ≠ 0 := by simpa using hd
      split at h
      · simp at h
      · rename_i x' hx'
        simp only [Except.ok.injEq] at h
        subst h
        have hsymS : ∀ i j : Fin n, (schur A (colDiv A (A[(0 : Fin (n+1))][(0 : Fin (n+1))])) (A[(0 : Fin (n+1))][(0 : Fin (n+1))]))[i][j] =
            (schur A (colDiv A (A[(0 : Fin (n+1))][(0 : Fin (n+1))])) (A[(0 : Fin (n+1))][(0 : Fin (n+1))]))[j][i] := by
          intro i j
          simp only [schur_get, colDiv_get]
          rw [hsym i.succ j.succ]
          ring
        have ih := ldltSolve_correct n _ _ x' hsymS hx'
        intro i
        set d0 := A[(0 : Fin (n+1))][(0 : Fin (n+1))] with hd0def
        set l := colDiv A d0 with hl
        have hl' : ∀ k : Fin n, A[k.succ][(0 : Fin (n+1))] = l[k] * d0 := by
          intro k; rw [hl, colDiv_get]; field_simp
        have hT : sumFin n (fun k => l[k] * x'[k]) = ∑ k : Fin n, l[k] * x'[k] := sumFin_eq_sum n _
        rw [Fin.sum_univ_succ]
        simp only [consV_zero, consV_succ]
        rw [hT]
        refine Fin.cases ?_ (fun s => ?_) i
        · -- row 0
          have : ∀ k : Fin n, A[(0 : Fin (n+1))][k.succ] * x'[k] = d0 * (l[k] * x'[k]) := by
            intro k; rw [hsym 0 k.succ, hl' k]; ring
          simp only [this, ← Finset.mul_sum]
          field_simp
          ring
        · -- row s+1
          have ihs := ih s
          simp only [schur_get, Vector.getElem_ofFn] at ihs
          have e1 : ∑ k : Fin n, A[s.succ][k.succ] * x'[k] =
              (b[s.succ] - l[s] * b[(0 : Fin (n+1))]) + l[s] * d0 * ∑ k : Fin n, l[k] * x'[k] := by
            have : ∀ k : Fin n, A[s.succ][k.succ] * x'[k] = (A[s.succ][k.succ] - l[s] * d0 * l[k]) * x'[k] + l[s] * d0 * (l[k] * x'[k]) := by
              intro k; ring
            simp only [this, Finset.sum_add_distrib, ← Finset.mul_sum]
            rw [ihs]
            simp [Fin.getElem_fin, Vector.getElem_ofFn]
          rw [e1, hl' s]
          field_simp
          ring

theorem consL_00 {n : Nat} (d : K) (l : Vec K n) (L' : Mat K n n) : (consL d l L')[(0 : Fin (n+1))][(0 : Fin (n+1))] = d := by
  simp [consL, Mat.ofFn]
theorem consL_0s {n : Nat} (d : K) (l : Vec K n) (L' : Mat K n n) (j : Fin n) : (consL d l L')[(0 : Fin (n+1))][j.succ] = 0 := by
  simp [consL, Mat.ofFn]
theorem consL_s0 {n : Nat} (d : K) (l : Vec K n) (L' : Mat K n n) (i : Fin n) : (consL d l L')[i.succ][(0 : Fin (n+1))] = l[i] := by
  simp [consL, Mat.ofFn]
theorem consL_ss {n : Nat} (d : K) (l : Vec K n) (L' : Mat K n n) (i j : Fin n) : (consL d l L')[i.succ][j.succ] = L'[i][j] := by
  simp [consL, Mat.ofFn]

/-- `A = L D Lᵀ` for the factors returned by the pivot-free LDLᵀ recursion -/
theorem ldlt_correct : ∀ (n : Nat) (A L : Mat K n n) (D : Vec K n),
    (∀ i j : Fin n, A[i][j] = A[j][i]) → ldlt n A = .ok (L, D) →
    ∀ i j : Fin n, ∑ k : Fin n, L[i][k] * D[k] * L[j][k] = A[i][j]
  | 0, _, _, _, _, _ => fun i => i.elim0
  | n+1, A, L, D, hsym, h => by
    unfold ldlt at h
    simp only at h
    split at h
    · simp at h
    · rename_i hd
      have hd0 : A[(0 : Fin (n+1))][(0 : Fin (n+1))] ≠ 0 := by simpa using hd
      split at h
      · simp at h
      · rename_i L' D' hx'
        simp only [Except.ok.injEq, Prod.mk.injEq] at h
        obtain ⟨hL, hD⟩ := h
        subst hL hD
        set d0 := A[(0 : Fin (n+1))][(0 : Fin (n+1))] with hd0def
        set l := colDiv A d0 with hl
        have hl' : ∀ k : Fin n, A[k.succ][(0 : Fin (n+1))] = l[k] * d0 := by
          intro k; rw [hl, colDiv_get]; field_simp
        have hsymS : ∀ i j : Fin n, (schur A l d0)[i][j] = (schur A l d0)[j][i] := by
          intro i j
          simp only [schur_get]
          rw [hsym i.succ j.succ]
          ring
        have ih := ldlt_correct n _ L' D' hsymS hx'
        intro i j
        rw [Fin.sum_univ_succ]
        refine Fin.cases ?_ (fun s => ?_) i <;> refine Fin.cases ?_ (fun t => ?_) j
        · simp only [consL_00, consL_0s, consV_zero, consV_succ, zero_mul, mul_zero, Finset.sum_const_zero, add_zero, one_mul, mul_one]
          rfl
        · simp only [consL_00, consL_0s, consL_s0, consV_zero, consV_succ, zero_mul, Finset.sum_const_zero, add_zero]
          rw [hsym 0 t.succ, hl' t]; ring
        · simp only [consL_00, consL_0s, consL_s0, consV_zero, consV_succ, mul_zero, Finset.sum_const_zero, add_zero]
          rw [hl' s]; ring
        · simp only [consL_s0, consL_ss, consV_zero, consV_succ]
          rw [ih s t, schur_get]
          ring

/-- `perm` followed by `permt` with the inverse table is the identity whenever the table inverts the permutation -/
theorem permt_perm_id {n : Nat} (p : Vector (Fin n) n) (b : Vec K n)
    (hinv : ∀ i : Fin n, p[(permInv p)[i]] = i) : permtVec p (permVec p b) = b := by
  unfold permtVec permVec
  apply Vector.ext
  intro i hi
  simp only [Vector.getElem_ofFn, Fin.getElem_fin]
  have := hinv ⟨i, hi⟩
  simp only [Fin.getElem_fin] at this
  simp [this]

/-- non-vacuity: a 2×2 quasi-definite matrix factorises and the theorem's hypotheses hold -/
example : ldlt 2 (#v[#v[(2 : ℚ), 1], #v[1, -3]] : Mat ℚ 2 2) =
    .ok (#v[#v[1, 0], #v[1/2, 1]], #v[2, -7/2]) := by
  decide +kernel


/-! ## The staged solve on stored factors, permutations and block assembly: the model's sparse inner solver is exact -/

theorem minorM_consL {n : Nat} (d : K) (l : Vec K n) (L' : Mat K n n) : minorM (consL d l L') = L' := by
  apply Vector.ext; intro i hi
  apply Vector.ext; intro j hj
  have := consL_ss d l L' ⟨i, hi⟩ ⟨j, hj⟩
  simp only [minorM, Mat.ofFn, Vector.getElem_ofFn]
  simpa using this

theorem tailV_consV {n : Nat} (a : K) (v : Vec K n) : tailV (consV a v) = v := by
  apply Vector.ext; intro i hi
  have := consV_succ a v ⟨i, hi⟩
  simp only [tailV, Vector.getElem_ofFn]
  simpa using this

theorem col0_consL {n : Nat} (d : K) (l : Vec K n) (L' : Mat K n n) :
    (Vector.ofFn fun i : Fin n => (consL d l L')[i.succ][(0 : Fin (n+1))]) = l := by
  apply Vector.ext; intro i hi
  have := consL_s0 d l L' ⟨i, hi⟩
  simp only [Vector.getElem_ofFn]
  simpa using this

/-- the staged solve (`solveLD` on the stored factors) is the elimination recursion `ldltSolve` -/
theorem solveLD_eq : ∀ (n : Nat) (A L : Mat K n n) (D b : Vec K n),
    ldlt n A = .ok (L, D) → ldltSolve n A b = .ok (solveLD n L D b)
  | 0, _, _, _, _, _ => by simp [ldltSolve, solveLD]
  | n+1, A, L, D, b, h => by
    simp only [ldlt] at h
    simp only [ldltSolve]
    split at h
    · cases h
    · rename_i hd
      simp only [hd, Bool.false_eq_true, if_false]
      cases hrec : ldlt n (schur A (colDiv A A[(0 : Fin (n+1))][(0 : Fin (n+1))]) A[(0 : Fin (n+1))][(0 : Fin (n+1))]) with
      | error k => rw [hrec] at h; cases h
      | ok LD =>
        obtain ⟨L', D'⟩ := LD
        rw [hrec] at h
        simp only [Except.ok.injEq, Prod.mk.injEq] at h
        obtain ⟨hL, hD⟩ := h
        subst hL; subst hD
        rw [solveLD_eq n _ L' D' _ hrec]
        simp only [solveLD, col0_consL, minorM_consL, tailV_consV, consV_zero]

/-- the index table is a permutation and `permInv` inverts it -/
def IsPerm {N : Nat} (p : Vector (Fin N) N) : Prop := ∀ i : Fin N, p[(permInv p)[i]] = i

theorem IsPerm.bij {N : Nat} {p : Vector (Fin N) N} (h : IsPerm p) : Function.Bijective (fun i : Fin N => p[i]) := by
  have hs : Function.Surjective (fun i : Fin N => p[i]) := by
    intro i
    exact ⟨(permInv p)[i], h i⟩
  exact ⟨(Finite.injective_iff_surjective (α := Fin N) (f := fun i : Fin N => p[i])).mpr hs, hs⟩

theorem IsPerm.left {N : Nat} {p : Vector (Fin N) N} (h : IsPerm p) (j : Fin N) : (permInv p)[p[j]] = j :=
  h.bij.1 (h (p[j]))

theorem permSym_get {N : Nat} (M : Mat K N N) (p : Vector (Fin N) N) (i j : Fin N) : (permSym M p)[i][j] = M[p[i]][p[j]] := by
  simp [permSym, Mat.ofFn]
theorem permVec_get {N : Nat} (p : Vector (Fin N) N) (b : Vec K N) (j : Fin N) : (permVec p b)[j] = b[p[j]] := by
  simp [permVec]
theorem permtVec_get {N : Nat} (p : Vector (Fin N) N) (b : Vec K N) (i : Fin N) : (permtVec p b)[i] = b[(permInv p)[i]] := by
  simp [permtVec]

/-- a solution of the symmetrically permuted system, permuted back, solves the original system -/
theorem perm_solve {N : Nat} (M : Mat K N N) (p : Vector (Fin N) N) (hp : IsPerm p) (rhs v : Vec K N)
    (h : ∀ i : Fin N, ∑ j : Fin N, (permSym M p)[i][j] * v[j] = (permVec p rhs)[i]) :
    ∀ r : Fin N, ∑ k : Fin N, M[r][k] * (permtVec p v)[k] = rhs[r] := by
  intro r
  obtain ⟨i, hr⟩ := hp.bij.2 r
  beta_reduce at hr
  subst hr
  have hi := h i
  simp only [permSym_get, permVec_get] at hi
  have hre := hp.bij.sum_comp (fun k : Fin N => M[p[i]][k] * (permtVec p v)[k])
  rw [← hre, ← hi]
  refine Finset.sum_congr rfl fun j _ => ?_
  beta_reduce
  rw [permtVec_get]
  congr 2
  exact hp.left j

section blocks
variable {n p m : Nat}

def ix (a : Fin n) : Fin (n + p + m) := ⟨a.val, by omega⟩
def iy (t : Fin p) : Fin (n + p + m) := ⟨n + t.val, by omega⟩
def iz (t : Fin m) : Fin (n + p + m) := ⟨n + p + t.val, by omega⟩

theorem decode_ix (a : Fin n) : Blk.decode (ix (p := p) (m := m) a) = Blk.x a := by
  simp [Blk.decode, ix, a.isLt]
theorem decode_iy (t : Fin p) : Blk.decode (iy (n := n) (m := m) t) = Blk.y t := by
  have h1 : ¬ (n + t.val < n) := by omega
  have h2 : n + t.val < n + p := by omega
  simp [Blk.decode, iy, h1, h2]
theorem decode_iz (t : Fin m) : Blk.decode (iz (n := n) (p := p) t) = Blk.z t := by
  have h1 : ¬ (n + p + t.val < n) := by omega
  have h2 : ¬ (n + p + t.val < n + p) := by omega
  unfold Blk.decode
  split
  · rename_i h; exact absurd h h1
  · split
    · rename_i h; exact absurd h h2
    · congr 1
      apply Fin.ext
      simp only [iz]; omega

/-- a sum over the assembled index range splits into the three blocks -/
theorem sum_blocks (f : Fin (n + p + m) → K) :
    ∑ k, f k = (∑ a : Fin n, f (ix a)) + (∑ t : Fin p, f (iy t)) + ∑ t : Fin m, f (iz t) := by
  rw [Fin.sum_univ_add, Fin.sum_univ_add]
  rfl


theorem matOfFn_get' {r c : Nat} (f : Fin r → Fin c → K) (i : Fin r) (j : Fin c) : (Mat.ofFn f)[i][j] = f i j := by
  simp [Mat.ofFn]
theorem ofFn_get' {α : Type} {q : Nat} (f : Fin q → α) (i : Fin q) : (Vector.ofFn f)[i] = f i := by simp

theorem assemble_get (be : Backend) (kb : KBlocks K n p m) (i j : Fin (n + p + m)) :
    (assemble be kb)[i][j] =
      match Blk.decode i, Blk.decode j with
      | .x a, .x b => kb.xx[a][b]
      | .x a, .y b => if be.keepY then kb.xy[a][b] else 0
      | .y a, .x b => if be.keepY then kb.xy[b][a] else 0
      | .x a, .z b => if be.keepZ then kb.xz[a][b] else 0
      | .z a, .x b => if be.keepZ then kb.xz[b][a] else 0
      | .y a, .y b => if a = b then (if be.keepY then kb.yy[a] else 1) else 0
      | .z a, .z b => if a = b then (if be.keepZ then kb.zz[a] else 1) else 0
      | .y _, .z _ => 0
      | .z _, .y _ => 0 := by
  unfold assemble
  rw [matOfFn_get']
  rfl

theorem assembleRhs_get (be : Backend) (rx : Vec K n) (ry : Vec K p) (rz : Vec K m) (i : Fin (n + p + m)) :
    (assembleRhs be rx ry rz)[i] =
      match Blk.decode (n := n) (p := p) (m := m) i with
      | .x a => rx[a]
      | .y a => if be.keepY then ry[a] else 0
      | .z a => if be.keepZ then rz[a] else 0 := by
  unfold assembleRhs
  rw [ofFn_get']
  rfl

theorem assemble_symm (be : Backend) (kb : KBlocks K n p m) (hxx : ∀ a b : Fin n, kb.xx[a][b] = kb.xx[b][a])
    (i j : Fin (n + p + m)) : (assemble be kb)[i][j] = (assemble be kb)[j][i] := by
  rw [assemble_get, assemble_get]
  cases Blk.decode i <;> cases Blk.decode j <;> simp only
  · exact hxx _ _
  · rename_i a b; by_cases h : a = b
    · subst h; simp
    · have : ¬ b = a := fun e => h e.symm
      simp [h, this]
  · rename_i a b; by_cases h : a = b
    · subst h; simp
    · have : ¬ b = a := fun e => h e.symm
      simp [h, this]


theorem M_xx (be : Backend) (kb : KBlocks K n p m) (a c : Fin n) : (assemble be kb)[ix (p := p) (m := m) a][ix (p := p) (m := m) c] = kb.xx[a][c] := by
  rw [assemble_get, decode_ix, decode_ix]
theorem M_xy (be : Backend) (kb : KBlocks K n p m) (a : Fin n) (t : Fin p) :
    (assemble be kb)[ix (p := p) (m := m) a][iy (n := n) (m := m) t] = if be.keepY then kb.xy[a][t] else 0 := by
  rw [assemble_get, decode_ix, decode_iy]
theorem M_xz (be : Backend) (kb : KBlocks K n p m) (a : Fin n) (t : Fin m) :
    (assemble be kb)[ix (p := p) (m := m) a][iz (n := n) (p := p) t] = if be.keepZ then kb.xz[a][t] else 0 := by
  rw [assemble_get, decode_ix, decode_iz]
theorem M_yx (be : Backend) (kb : KBlocks K n p m) (t : Fin p) (c : Fin n) :
    (assemble be kb)[iy (n := n) (m := m) t][ix (p := p) (m := m) c] = if be.keepY then kb.xy[c][t] else 0 := by
  rw [assemble_get, decode_iy, decode_ix]
theorem M_yy (be : Backend) (kb : KBlocks K n p m) (t u : Fin p) :
    (assemble be kb)[iy (n := n) (m := m) t][iy (n := n) (m := m) u] = if t = u then (if be.keepY then kb.yy[t] else 1) else 0 := by
  rw [assemble_get, decode_iy, decode_iy]
theorem M_yz (be : Backend) (kb : KBlocks K n p m) (t : Fin p) (u : Fin m) :
    (assemble be kb)[iy (n := n) (m := m) t][iz (n := n) (p := p) u] = 0 := by
  rw [assemble_get, decode_iy, decode_iz]
theorem M_zx (be : Backend) (kb : KBlocks K n p m) (t : Fin m) (c : Fin n) :
    (assemble be kb)[iz (n := n) (p := p) t][ix (p := p) (m := m) c] = if be.keepZ then kb.xz[c][t] else 0 := by
  rw [assemble_get, decode_iz, decode_ix]
theorem M_zy (be : Backend) (kb : KBlocks K n p m) (t : Fin m) (u : Fin p) :
    (assemble be kb)[iz (n := n) (p := p) t][iy (n := n) (m := m) u] = 0 := by
  rw [assemble_get, decode_iz, decode_iy]
theorem M_zz (be : Backend) (kb : KBlocks K n p m) (t u : Fin m) :
    (assemble be kb)[iz (n := n) (p := p) t][iz (n := n) (p := p) u] = if t = u then (if be.keepZ then kb.zz[t] else 1) else 0 := by
  rw [assemble_get, decode_iz, decode_iz]

theorem split_x (w : Vec K (n + p + m)) (c : Fin n) : (splitSol w).1[c] = w[ix (p := p) (m := m) c] := by
  simp only [splitSol, ofFn_get']; rfl
theorem split_y (w : Vec K (n + p + m)) (t : Fin p) : (splitSol w).2.1[t] = w[iy (n := n) (m := m) t] := by
  simp only [splitSol, ofFn_get']; rfl
theorem split_z (w : Vec K (n + p + m)) (t : Fin m) : (splitSol w).2.2[t] = w[iz (n := n) (p := p) t] := by
  simp only [splitSol, ofFn_get']; rfl


/-- **C14 → C13: the model's sparse inner solver is exact.** Whenever `innerLDLT` (assemble the kept blocks, permute
    symmetrically with the fill-reducing permutation, pivot-free LDLᵀ, solve, permute back, split) succeeds, the solve map it
    returns satisfies the hypothesis `InnerExact` of C13's elimination theorem — for every back end, every permutation, every
    symmetric (1,1) block. Together with `C13.factor_then_solve_exact` this makes the statement "the step solves the full
    Newton system" unconditional for the model's sparse back ends. -/
theorem innerLDLT_exact (be : Backend) (perm : Vector (Fin (n + p + m)) (n + p + m)) (hp : IsPerm perm)
    (kb : KBlocks K n p m) (hxx : ∀ a b : Fin n, kb.xx[a][b] = kb.xx[b][a]) (slv : SolveFn K n p m)
    (h : innerLDLT be perm kb = some slv) : C13.InnerExact be kb slv := by
  unfold innerLDLT at h
  cases hl : ldlt (n + p + m) (permSym (assemble be kb) perm) with
  | error k => rw [hl] at h; cases h
  | ok LD =>
    obtain ⟨L, D⟩ := LD
    rw [hl] at h
    simp only [Option.some.injEq] at h
    subst h
    intro rx ry rz
    have hs := solveLD_eq (n + p + m) _ L D (permVec perm (assembleRhs be rx ry rz)) hl
    have hsym : ∀ i j : Fin (n + p + m), (permSym (assemble be kb) perm)[i][j] = (permSym (assemble be kb) perm)[j][i] := by
      intro i j; rw [permSym_get, permSym_get]; exact assemble_symm be kb hxx _ _
    have hc := ldltSolve_correct (n + p + m) _ _ _ hsym hs
    have hw := perm_solve (assemble be kb) perm hp (assembleRhs be rx ry rz) _ hc
    set w := permtVec perm (solveLD (n + p + m) L D (permVec perm (assembleRhs be rx ry rz))) with hwdef
    refine ⟨fun j => ?_, fun hY t => ?_, fun hZ t => ?_⟩
    · have := hw (ix j)
      rw [sum_blocks, assembleRhs_get, decode_ix] at this
      simp only [M_xx, M_xy, M_xz] at this
      simp only [split_x, split_y, split_z]
      rcases Bool.eq_false_or_eq_true be.keepY with hY | hY <;> rcases Bool.eq_false_or_eq_true be.keepZ with hZ | hZ <;>
        simp only [hY, hZ, if_true, if_false, Bool.false_eq_true, zero_mul, Finset.sum_const_zero, add_zero] at this ⊢ <;>
        exact this
    · have := hw (iy t)
      rw [sum_blocks, assembleRhs_get, decode_iy] at this
      simp only [M_yx, M_yy, M_yz, hY, if_true, zero_mul, Finset.sum_const_zero, add_zero, ite_mul, Finset.sum_ite_eq, Finset.mem_univ] at this
      simp only [split_x, split_y]
      exact this
    · have := hw (iz t)
      rw [sum_blocks, assembleRhs_get, decode_iz] at this
      simp only [M_zx, M_zy, M_zz, hZ, if_true, zero_mul, Finset.sum_const_zero, add_zero, ite_mul, Finset.sum_ite_eq, Finset.mem_univ] at this
      simp only [split_x, split_z]
      exact this


section composite
variable {K : Type} [Field K] [LinearOrder K]

theorem coherent_xx_symm (be : Backend) (d : Data K n p m) (k : KKT K n p m) (hc : C13.Coherent be d k) (a b : Fin n) :
    k.k.xx[a][b] = k.k.xx[b][a] := by
  rw [hc.xx a b, hc.xx b a]
  have hP : d.Psym[a][b] = d.Psym[b][a] := by
    simp only [Data.Psym, C13.matOfFn_get]
    by_cases h1 : a.val ≤ b.val <;> by_cases h2 : b.val ≤ a.val
    · have : a = b := Fin.ext (Nat.le_antisymm h1 h2); subst this; rfl
    · simp [h1, h2]
    · simp [h1, h2]
    · omega
  have hA : (∑ t : Fin p, d.AT[a][t] * d.AT[b][t]) = ∑ t : Fin p, d.AT[b][t] * d.AT[a][t] :=
    Finset.sum_congr rfl fun t _ => mul_comm _ _
  have hG : (∑ t : Fin m, d.GT[a][t] * d.GT[b][t] / (k.s[t] * k.zinv[t] + k.delta)) =
      ∑ t : Fin m, d.GT[b][t] * d.GT[a][t] / (k.s[t] * k.zinv[t] + k.delta) :=
    Finset.sum_congr rfl fun t _ => by rw [mul_comm]
  rw [hP, hA, hG]
  by_cases hab : a = b
  · subst hab; rfl
  · have hba : ¬ b = a := fun e => hab e.symm
    simp only [hab, hba, if_false]

/-- **C13 + C14, unconditional for the model's sparse back ends**: factorise the coherent reduced matrix with the model's own
    inner solver (pivot-free LDLᵀ of the symmetrically permuted assembled matrix) and solve: the step solves the full
    regularised Newton system, for every permutation, whenever the factorisation meets no zero pivot. -/
theorem sparse_factor_then_solve_exact (be : Backend) (st : KKTSettings K) (d : Data K n p m) (k : KKT K n p m)
    (perm : Vector (Fin (n + p + m)) (n + p + m)) (hp : IsPerm perm)
    (r old out : Step K n p m) (hcoh : C13.Coherent be d k) (hin : C13.Interior d k)
    (h : KKT.solve be st d (KKT.regFactor be st d k false (innerLDLT be perm)) r old false = some out) :
    let back := KKT.multiply d k out old
    (∀ j : Fin n, back.x[j] = r.x[j]) ∧ (∀ t : Fin p, back.y[t] = r.y[t]) ∧ (∀ t : Fin m, back.z[t] = r.z[t]) ∧
    (∀ t : Fin m, back.s[t] = r.s[t]) := by
  cases hs : innerLDLT be perm k.k with
  | none =>
    have : (KKT.regFactor be st d k false (innerLDLT be perm)).fsol = none := by simp [KKT.regFactor, hs]
    unfold KKT.solve at h
    simp [this] at h
  | some slv =>
    have hf : (KKT.regFactor be st d k false (innerLDLT be perm)).fsol = some slv := by simp [KKT.regFactor, hs]
    have hcoh' : C13.Coherent be d (KKT.regFactor be st d k false (innerLDLT be perm)) := ⟨hcoh.xx, hcoh.xy, hcoh.yy, hcoh.xz, hcoh.zz⟩
    have hin' : C13.Interior d (KKT.regFactor be st d k false (innerLDLT be perm)) :=
      ⟨hin.delta, hin.zinv, hin.s, hin.w, hin.zinv_lb, hin.s_lb, hin.w_lb, hin.zinv_ub, hin.s_ub, hin.w_ub⟩
    have hex := innerLDLT_exact be perm hp k.k (coherent_xx_symm be d k hcoh) slv hs
    have res := C13.solve_solves_full_system be st d (KKT.regFactor be st d k false (innerLDLT be perm)) r old out slv hf hcoh' hex hin' h
    exact ⟨res.1, res.2.1, res.2.2.1, res.2.2.2.1⟩
end composite
end blocks

section llt
variable {K : Type} [Field K] [LinearOrder K]

/-- the square root the dense back end's Cholesky needs to be exact: `sqrt(x)² = x` for positive `x` -/
def ExactSqrt (sqrtF : K → K) : Prop := ∀ x : K, 0 < x → sqrtF x * sqrtF x = x

theorem lltSolve_correct (sqrtF : K → K) (hsq : ExactSqrt sqrtF) : ∀ (n : Nat) (A : Mat K n n) (b x : Vec K n),
    (∀ i j : Fin n, A[i][j] = A[j][i]) → lltSolve sqrtF n A b = .ok x →
    ∀ i : Fin n, ∑ j : Fin n, A[i][j] * x[j] = b[i]
  | 0, _, _, _, _, _ => fun i => i.elim0
  | n+1, A, b, x, hsym, h => by
    unfold lltSolve at h
    simp only at h
    split at h
    · simp at h
    · rename_i hpos
      have hpos' : 0 < A[(0 : Fin (n+1))][(0 : Fin (n+1))] := not_le.mp hpos
      split at h
      · simp at h
      · rename_i x' hx'
        simp only [Except.ok.injEq] at h
        subst h
        set l00 := sqrtF A[(0 : Fin (n+1))][(0 : Fin (n+1))] with hl00
        have hsq0 : l00 * l00 = A[(0 : Fin (n+1))][(0 : Fin (n+1))] := hsq _ hpos'
        have hne : l00 ≠ 0 := by
          intro h0; rw [h0, mul_zero] at hsq0; exact absurd hsq0.symm (ne_of_gt hpos')
        set l := colDiv A l00 with hl
        have hsymS : ∀ i j : Fin n, (schur A l 1)[i][j] = (schur A l 1)[j][i] := by
          intro i j
          simp only [schur_get]
          rw [hsym i.succ j.succ]; ring
        have ih := lltSolve_correct sqrtF hsq n _ _ x' hsymS hx'
        have hl' : ∀ k : Fin n, A[k.succ][(0 : Fin (n+1))] = l[k] * l00 := by
          intro k; rw [hl, colDiv_get]; field_simp
        have hT : sumFin n (fun k => l[k] * x'[k]) = ∑ k : Fin n, l[k] * x'[k] := sumFin_eq_sum n _
        intro i
        rw [Fin.sum_univ_succ]
        simp only [consV_zero, consV_succ]
        rw [hT]
        refine Fin.cases ?_ (fun s => ?_) i
        · have : ∀ k : Fin n, A[(0 : Fin (n+1))][k.succ] * x'[k] = l00 * (l[k] * x'[k]) := by
            intro k; rw [hsym 0 k.succ, hl' k]; ring
          simp only [this, ← Finset.mul_sum]
          rw [← hsq0]
          field_simp
          ring
        · have ihs := ih s
          simp only [schur_get, Vector.getElem_ofFn] at ihs
          have e1 : ∑ k : Fin n, A[s.succ][k.succ] * x'[k] =
              (b[s.succ] - l[s] * (b[(0 : Fin (n+1))] / l00)) + l[s] * ∑ k : Fin n, l[k] * x'[k] := by
            have : ∀ k : Fin n, A[s.succ][k.succ] * x'[k] = (A[s.succ][k.succ] - l[s] * 1 * l[k]) * x'[k] + l[s] * (l[k] * x'[k]) := by
              intro k; ring
            simp only [this, Finset.sum_add_distrib, ← Finset.mul_sum]
            rw [ihs]
            simp [Fin.getElem_fin, Vector.getElem_ofFn]
          rw [e1, hl' s]
          field_simp
          ring


/-- the staged Cholesky solve is the recursion `lltSolve` -/
theorem solveLL_eq (sqrtF : K → K) : ∀ (n : Nat) (A L : Mat K n n) (b : Vec K n),
    llt sqrtF n A = .ok L → lltSolve sqrtF n A b = .ok (solveLL n L b)
  | 0, _, _, _, _ => by simp [lltSolve, solveLL]
  | n+1, A, L, b, h => by
    simp only [llt] at h
    simp only [lltSolve]
    split at h
    · cases h
    · rename_i hd
      simp only [hd, if_false]
      cases hrec : llt sqrtF n (schur A (colDiv A (sqrtF A[(0 : Fin (n+1))][(0 : Fin (n+1))])) 1) with
      | error k => rw [hrec] at h; cases h
      | ok L' =>
        rw [hrec] at h
        simp only [Except.ok.injEq] at h
        subst h
        rw [solveLL_eq sqrtF n _ L' _ hrec]
        simp only [solveLL, col0_consL, minorM_consL, consL_00]

/-- **the dense back end's inner solver is exact when `sqrt` is**: whenever `innerLLT` succeeds on a symmetric `(1,1)` block,
    its solve map satisfies C13's `InnerExact` for the dense formulation -/
theorem innerLLT_exact {n p m : Nat} (sqrtF : K → K) (hsq : ExactSqrt sqrtF) (kb : KBlocks K n p m)
    (hxx : ∀ a b : Fin n, kb.xx[a][b] = kb.xx[b][a]) (slv : SolveFn K n p m)
    (h : innerLLT sqrtF kb = some slv) : C13.InnerExact .dense kb slv := by
  unfold innerLLT at h
  cases hl : llt sqrtF n kb.xx with
  | error k => rw [hl] at h; cases h
  | ok L =>
    rw [hl] at h
    simp only [Option.some.injEq] at h
    subst h
    intro rx ry rz
    have hs := solveLL_eq sqrtF n kb.xx L rx hl
    have hc := lltSolve_correct sqrtF hsq n kb.xx rx _ hxx hs
    refine ⟨fun j => ?_, fun hY => by simp [Backend.keepY] at hY, fun hZ => by simp [Backend.keepZ] at hZ⟩
    simp only [Backend.keepY, Backend.keepZ, Bool.false_eq_true, if_false, add_zero]
    exact hc j

/-- **C13 + C14, dense back end**: factorise the coherent reduced `(1,1)` block with the model's own Cholesky and solve:
    the step solves the full regularised Newton system whenever the factorisation succeeds, given only that `sqrt` is exact
    (`sqrt(x)² = x` for `x > 0`; rounding of `sqrt`, like all rounding, is outside the model). -/
theorem dense_factor_then_solve_exact {n p m : Nat} (sqrtF : K → K) (hsq : ExactSqrt sqrtF) (st : KKTSettings K)
    (d : Data K n p m) (k : KKT K n p m)
    (r old out : Step K n p m) (hcoh : C13.Coherent .dense d k) (hin : C13.Interior d k)
    (h : KKT.solve .dense st d (KKT.regFactor .dense st d k false (innerLLT sqrtF)) r old false = some out) :
    let back := KKT.multiply d k out old
    (∀ j : Fin n, back.x[j] = r.x[j]) ∧ (∀ t : Fin p, back.y[t] = r.y[t]) ∧ (∀ t : Fin m, back.z[t] = r.z[t]) ∧
    (∀ t : Fin m, back.s[t] = r.s[t]) := by
  cases hs : innerLLT sqrtF k.k with
  | none =>
    have : (KKT.regFactor .dense st d k false (innerLLT sqrtF)).fsol = none := by simp [KKT.regFactor, hs]
    unfold KKT.solve at h
    simp [this] at h
  | some slv =>
    have hf : (KKT.regFactor .dense st d k false (innerLLT sqrtF)).fsol = some slv := by simp [KKT.regFactor, hs]
    have hcoh' : C13.Coherent .dense d (KKT.regFactor .dense st d k false (innerLLT sqrtF)) := ⟨hcoh.xx, hcoh.xy, hcoh.yy, hcoh.xz, hcoh.zz⟩
    have hin' : C13.Interior d (KKT.regFactor .dense st d k false (innerLLT sqrtF)) :=
      ⟨hin.delta, hin.zinv, hin.s, hin.w, hin.zinv_lb, hin.s_lb, hin.w_lb, hin.zinv_ub, hin.s_ub, hin.w_ub⟩
    have hex := innerLLT_exact sqrtF hsq k.k (coherent_xx_symm .dense d k hcoh) slv hs
    have res := C13.solve_solves_full_system .dense st d (KKT.regFactor .dense st d k false (innerLLT sqrtF)) r old out slv hf hcoh' hex hin' h
    exact ⟨res.1, res.2.1, res.2.2.1, res.2.2.2.1⟩
end llt
end Piqp.C14

/-! ## Quasi-definite matrices are strongly factorisable (Vanderbei), in the model

The reduced KKT matrices of a convex problem at an interior iterate are symmetric quasi-definite; the class is closed under
symmetric permutation and under taking Schur complements, and its members have non-zero diagonal. Hence the pivot-free LDLᵀ
recursion — the model of both `sparse::LDLt` and `dense::LDLTNoPivot` — never meets a zero pivot on them, for every
elimination order; likewise Cholesky on the fully reduced (positive definite) block of the dense back end. -/

namespace Piqp.C14
open Finset
section qd
variable {K : Type} [Field K] [LinearOrder K] [IsStrictOrderedRing K]

/-- the quadratic form `xᵀ A x` -/
def quad {n : Nat} (A : Mat K n n) (x : Vec K n) : K := ∑ i : Fin n, x[i] * ∑ j : Fin n, A[i][j] * x[j]

/-- **symmetric quasi-definite** with respect to a sign pattern `σ` of the indices: the form is positive on vectors
    supported on the `+` indices and negative on vectors supported on the `−` indices (off-diagonal blocks arbitrary).
    The reduced KKT matrices of a convex problem at an interior iterate are of this kind (`+` on the `x` block, `−` on the
    multiplier blocks), and so is every symmetric permutation of them. -/
structure QDef {n : Nat} (σ : Fin n → Bool) (A : Mat K n n) : Prop where
  sym : ∀ i j : Fin n, A[i][j] = A[j][i]
  pos : ∀ x : Vec K n, (∀ i : Fin n, σ i = false → x[i] = 0) → (∃ i : Fin n, x[i] ≠ 0) → 0 < quad A x
  neg : ∀ x : Vec K n, (∀ i : Fin n, σ i = true → x[i] = 0) → (∃ i : Fin n, x[i] ≠ 0) → quad A x < 0

/-- the form on a vector `(t, y)`, split along the first row/column -/
theorem quad_cons {n : Nat} (A : Mat K (n+1) (n+1)) (hs : ∀ i j : Fin (n+1), A[i][j] = A[j][i]) (t : K) (y : Vec K n) :
    quad A (consV t y) =
      A[(0 : Fin (n+1))][(0 : Fin (n+1))] * t * t + 2 * t * (∑ j : Fin n, A[j.succ][(0 : Fin (n+1))] * y[j]) +
        ∑ i : Fin n, y[i] * ∑ j : Fin n, A[i.succ][j.succ] * y[j] := by
  unfold quad
  rw [Fin.sum_univ_succ]
  have hrow : ∀ r : Fin (n+1), (∑ j : Fin (n+1), A[r][j] * (consV t y)[j]) =
      A[r][(0 : Fin (n+1))] * t + ∑ j : Fin n, A[r][j.succ] * y[j] := by
    intro r
    rw [Fin.sum_univ_succ]
    simp only [consV_zero, consV_succ]
  simp only [hrow, consV_zero, consV_succ]
  have h0 : (∑ j : Fin n, A[(0 : Fin (n+1))][j.succ] * y[j]) = ∑ j : Fin n, A[j.succ][(0 : Fin (n+1))] * y[j] :=
    Finset.sum_congr rfl fun j _ => by rw [hs]
  rw [h0]
  have h1 : (∑ i : Fin n, y[i] * (A[i.succ][(0 : Fin (n+1))] * t + ∑ j : Fin n, A[i.succ][j.succ] * y[j])) =
      t * (∑ j : Fin n, A[j.succ][(0 : Fin (n+1))] * y[j]) + ∑ i : Fin n, y[i] * ∑ j : Fin n, A[i.succ][j.succ] * y[j] := by
    simp only [mul_add, Finset.sum_add_distrib, Finset.mul_sum]
    congr 1
    exact Finset.sum_congr rfl fun i _ => by ring
  rw [h1]
  ring

theorem quad_schur {n : Nat} (A : Mat K (n+1) (n+1)) (y : Vec K n) (hd : A[(0 : Fin (n+1))][(0 : Fin (n+1))] ≠ 0) :
    quad (schur A (colDiv A A[(0 : Fin (n+1))][(0 : Fin (n+1))]) A[(0 : Fin (n+1))][(0 : Fin (n+1))]) y =
      (∑ i : Fin n, y[i] * ∑ j : Fin n, A[i.succ][j.succ] * y[j]) -
        (∑ j : Fin n, A[j.succ][(0 : Fin (n+1))] * y[j]) * (∑ j : Fin n, A[j.succ][(0 : Fin (n+1))] * y[j]) / A[(0 : Fin (n+1))][(0 : Fin (n+1))] := by
  unfold quad
  simp only [schur_get, colDiv_get]
  set d0 := A[(0 : Fin (n+1))][(0 : Fin (n+1))] with hd0
  set κ := ∑ j : Fin n, A[j.succ][(0 : Fin (n+1))] * y[j] with hκ
  have h1 : ∀ i : Fin n, (∑ j : Fin n, (A[i.succ][j.succ] - A[i.succ][(0 : Fin (n+1))] / d0 * d0 * (A[j.succ][(0 : Fin (n+1))] / d0)) * y[j]) =
      (∑ j : Fin n, A[i.succ][j.succ] * y[j]) - A[i.succ][(0 : Fin (n+1))] / d0 * κ := by
    intro i
    rw [hκ, Finset.mul_sum, ← Finset.sum_sub_distrib]
    exact Finset.sum_congr rfl fun j _ => by field_simp
  simp only [h1, mul_sub, Finset.sum_sub_distrib]
  congr 1
  have : (∑ i : Fin n, y[i] * (A[i.succ][(0 : Fin (n+1))] / d0 * κ)) = (∑ i : Fin n, A[i.succ][(0 : Fin (n+1))] * y[i]) * κ / d0 := by
    rw [Finset.sum_mul, Finset.sum_div]
    exact Finset.sum_congr rfl fun i _ => by field_simp
  rw [this]

theorem consV_zero_vec_get {n : Nat} (i : Fin n) : (Vector.ofFn fun _ : Fin n => (0 : K))[i] = 0 := by simp

/-- a quasi-definite matrix has a non-zero first pivot, of the sign of its index -/
theorem qdef_pivot {n : Nat} (σ : Fin (n+1) → Bool) (A : Mat K (n+1) (n+1)) (h : QDef σ A) :
    (σ 0 = true → 0 < A[(0 : Fin (n+1))][(0 : Fin (n+1))]) ∧ (σ 0 = false → A[(0 : Fin (n+1))][(0 : Fin (n+1))] < 0) := by
  have hq : quad A (consV 1 (Vector.ofFn fun _ : Fin n => (0 : K))) = A[(0 : Fin (n+1))][(0 : Fin (n+1))] := by
    rw [quad_cons A h.sym]
    simp
  have hne : ∃ i : Fin (n+1), (consV (1 : K) (Vector.ofFn fun _ : Fin n => (0 : K)))[i] ≠ 0 := ⟨0, by rw [consV_zero]; exact one_ne_zero⟩
  constructor
  · intro h0
    rw [← hq]
    apply h.pos _ _ hne
    intro i hi
    refine Fin.cases (motive := fun i => σ i = false → (consV (1 : K) (Vector.ofFn fun _ : Fin n => (0 : K)))[i] = 0) ?_ ?_ i hi
    · intro hc; rw [h0] at hc; cases hc
    · intro j _; rw [consV_succ]; exact consV_zero_vec_get j
  · intro h0
    rw [← hq]
    apply h.neg _ _ hne
    intro i hi
    refine Fin.cases (motive := fun i => σ i = true → (consV (1 : K) (Vector.ofFn fun _ : Fin n => (0 : K)))[i] = 0) ?_ ?_ i hi
    · intro hc; rw [h0] at hc; cases hc
    · intro j _; rw [consV_succ]; exact consV_zero_vec_get j

theorem consV_support {n : Nat} (σ : Fin (n+1) → Bool) (bv : Bool) (t : K) (y : Vec K n)
    (h0 : σ 0 = bv → t = 0) (hy : ∀ i : Fin n, σ i.succ = bv → y[i] = 0) :
    ∀ i : Fin (n+1), σ i = bv → (consV t y)[i] = 0 := by
  intro i
  refine Fin.cases (motive := fun i => σ i = bv → (consV t y)[i] = 0) ?_ ?_ i
  · intro h; rw [consV_zero]; exact h0 h
  · intro j h; rw [consV_succ]; exact hy j h

theorem consV_ne {n : Nat} (t : K) (y : Vec K n) (hy : ∃ i : Fin n, y[i] ≠ 0) : ∃ i : Fin (n+1), (consV t y)[i] ≠ 0 := by
  obtain ⟨i, hi⟩ := hy
  exact ⟨i.succ, by rw [consV_succ]; exact hi⟩

/-- **the Schur complement of a quasi-definite matrix is quasi-definite** (for the sign pattern of the remaining indices) -/
theorem qdef_schur {n : Nat} (σ : Fin (n+1) → Bool) (A : Mat K (n+1) (n+1)) (h : QDef σ A) :
    QDef (fun i : Fin n => σ i.succ)
      (schur A (colDiv A A[(0 : Fin (n+1))][(0 : Fin (n+1))]) A[(0 : Fin (n+1))][(0 : Fin (n+1))]) := by
  obtain ⟨hp, hn⟩ := qdef_pivot σ A h
  have hd : A[(0 : Fin (n+1))][(0 : Fin (n+1))] ≠ 0 := by
    cases h0 : σ 0
    · exact ne_of_lt (hn h0)
    · exact ne_of_gt (hp h0)
  set d0 := A[(0 : Fin (n+1))][(0 : Fin (n+1))] with hd0
  refine ⟨?_, ?_, ?_⟩
  · intro i j
    simp only [schur_get, colDiv_get]
    rw [h.sym i.succ j.succ]
    ring
  · intro y hy hne
    rw [quad_schur A y hd]
    set κ := ∑ j : Fin n, A[j.succ][(0 : Fin (n+1))] * y[j] with hκ
    set QN := ∑ i : Fin n, y[i] * ∑ j : Fin n, A[i.succ][j.succ] * y[j] with hQN
    cases h0 : σ 0
    · -- the eliminated index is a `−` one: pad with 0
      have hd0neg := hn h0
      have hx := h.pos (consV 0 y) (consV_support σ false 0 y (fun _ => rfl) hy) (consV_ne 0 y hne)
      rw [quad_cons A h.sym] at hx
      have : 0 ≤ -(κ * κ / d0) := by
        rw [neg_nonneg]
        exact div_nonpos_of_nonneg_of_nonpos (mul_self_nonneg κ) (le_of_lt hd0neg)
      simp only [mul_zero, zero_mul, zero_add] at hx
      linarith
    · have hd0pos := hp h0
      have hx := h.pos (consV (-κ / d0) y) (consV_support σ false _ y (fun hc => by rw [h0] at hc; cases hc) hy) (consV_ne _ y hne)
      rw [quad_cons A h.sym] at hx
      have e : d0 * (-κ / d0) * (-κ / d0) + 2 * (-κ / d0) * κ = -(κ * κ / d0) := by field_simp; ring
      linarith
  · intro y hy hne
    rw [quad_schur A y hd]
    set κ := ∑ j : Fin n, A[j.succ][(0 : Fin (n+1))] * y[j] with hκ
    set QN := ∑ i : Fin n, y[i] * ∑ j : Fin n, A[i.succ][j.succ] * y[j] with hQN
    cases h0 : σ 0
    · have hd0neg := hn h0
      have hx := h.neg (consV (-κ / d0) y) (consV_support σ true _ y (fun hc => by rw [h0] at hc; cases hc) hy) (consV_ne _ y hne)
      rw [quad_cons A h.sym] at hx
      have e : d0 * (-κ / d0) * (-κ / d0) + 2 * (-κ / d0) * κ = -(κ * κ / d0) := by field_simp; ring
      linarith
    · have hd0pos := hp h0
      have hx := h.neg (consV 0 y) (consV_support σ true 0 y (fun _ => rfl) hy) (consV_ne 0 y hne)
      rw [quad_cons A h.sym] at hx
      have : 0 ≤ κ * κ / d0 := div_nonneg (mul_self_nonneg κ) (le_of_lt hd0pos)
      simp only [mul_zero, zero_mul, zero_add] at hx
      linarith

/-- **Vanderbei's theorem for the model's factorisation**: the pivot-free LDLᵀ recursion never meets a zero pivot on a
    symmetric quasi-definite matrix — for every size and every sign pattern, hence (the class is closed under symmetric
    permutation, `qdef_perm`) for every elimination order. -/
theorem qdef_ldlt_ok : ∀ (n : Nat) (σ : Fin n → Bool) (A : Mat K n n), QDef σ A → ∃ LD, ldlt n A = .ok LD
  | 0, _, _, _ => ⟨_, rfl⟩
  | n+1, σ, A, h => by
    obtain ⟨hp, hn⟩ := qdef_pivot σ A h
    have hd : A[(0 : Fin (n+1))][(0 : Fin (n+1))] ≠ 0 := by
      cases h0 : σ 0
      · exact ne_of_lt (hn h0)
      · exact ne_of_gt (hp h0)
    obtain ⟨LD, hrec⟩ := qdef_ldlt_ok n _ _ (qdef_schur σ A h)
    unfold ldlt
    simp only [beq_iff_eq, hd, if_false, hrec]
    exact ⟨_, rfl⟩

/-- the form of a symmetrically permuted matrix is the form of the matrix at the vector permuted back -/
theorem quad_perm {N : Nat} (A : Mat K N N) (p : Vector (Fin N) N) (hp : IsPerm p) (y : Vec K N) :
    quad (permSym A p) y = quad A (permtVec p y) := by
  unfold quad
  have hx : ∀ i : Fin N, (permtVec p y)[p[i]] = y[i] := by
    intro i; rw [permtVec_get]; exact congrArg (fun k : Fin N => y[k]) (hp.left i)
  have inner : ∀ r : Fin N, (∑ l : Fin N, A[r][l] * (permtVec p y)[l]) = ∑ j : Fin N, A[r][p[j]] * y[j] := by
    intro r
    rw [← Function.Bijective.sum_comp hp.bij (fun l => A[r][l] * (permtVec p y)[l])]
    exact Finset.sum_congr rfl fun j _ => by rw [hx]
  rw [← Function.Bijective.sum_comp hp.bij (fun k => (permtVec p y)[k] * ∑ l : Fin N, A[k][l] * (permtVec p y)[l])]
  refine Finset.sum_congr rfl fun i _ => ?_
  simp only [hx, inner, permSym_get]

/-- **quasi-definiteness is invariant under symmetric permutation**, with the sign pattern permuted along -/
theorem qdef_perm {N : Nat} (σ : Fin N → Bool) (A : Mat K N N) (p : Vector (Fin N) N) (hp : IsPerm p) (h : QDef σ A) :
    QDef (fun i => σ p[i]) (permSym A p) := by
  refine ⟨?_, ?_, ?_⟩
  · intro i j; rw [permSym_get, permSym_get, h.sym]
  · intro y hy hne
    rw [quad_perm A p hp y]
    apply h.pos
    · intro k hk
      rw [permtVec_get]
      apply hy
      rw [hp k]; exact hk
    · obtain ⟨i, hi⟩ := hne
      exact ⟨p[i], by rw [permtVec_get, show y[(permInv p)[p[i]]] = y[i] from congrArg (fun k : Fin N => y[k]) (hp.left i)]; exact hi⟩
  · intro y hy hne
    rw [quad_perm A p hp y]
    apply h.neg
    · intro k hk
      rw [permtVec_get]
      apply hy
      rw [hp k]; exact hk
    · obtain ⟨i, hi⟩ := hne
      exact ⟨p[i], by rw [permtVec_get, show y[(permInv p)[p[i]]] = y[i] from congrArg (fun k : Fin N => y[k]) (hp.left i)]; exact hi⟩

theorem sum_neg_of_nonpos_of_neg {q : Nat} (f : Fin q → K) (hle : ∀ u, f u ≤ 0) (t : Fin q) (ht : f t < 0) : ∑ u, f u < 0 := by
  rw [← Finset.add_sum_erase _ _ (Finset.mem_univ t)]
  have := Finset.sum_nonpos (s := Finset.univ.erase t) (f := f) (fun u _ => hle u)
  linarith

/-- Cholesky with an exact square root never meets a non-positive pivot on a symmetric positive definite matrix -/
theorem pd_llt_ok (sqrtF : K → K) (hsq : ExactSqrt sqrtF) : ∀ (n : Nat) (A : Mat K n n), QDef (fun _ => true) A →
    ∃ L, llt sqrtF n A = .ok L
  | 0, _, _ => ⟨_, rfl⟩
  | n+1, A, h => by
    obtain ⟨hp, _⟩ := qdef_pivot (fun _ => true) A h
    have hx : 0 < A[(0 : Fin (n+1))][(0 : Fin (n+1))] := hp rfl
    have hl : sqrtF A[(0 : Fin (n+1))][(0 : Fin (n+1))] * sqrtF A[(0 : Fin (n+1))][(0 : Fin (n+1))] = A[(0 : Fin (n+1))][(0 : Fin (n+1))] := hsq _ hx
    have hl0 : sqrtF A[(0 : Fin (n+1))][(0 : Fin (n+1))] ≠ 0 := by
      intro h0; rw [h0, mul_zero] at hl; exact absurd hl.symm (ne_of_gt hx)
    have hS : schur A (colDiv A (sqrtF A[(0 : Fin (n+1))][(0 : Fin (n+1))])) 1 =
        schur A (colDiv A A[(0 : Fin (n+1))][(0 : Fin (n+1))]) A[(0 : Fin (n+1))][(0 : Fin (n+1))] := by
      apply Vector.ext; intro i hi
      apply Vector.ext; intro j hj
      have e1 := schur_get A (colDiv A (sqrtF A[(0 : Fin (n+1))][(0 : Fin (n+1))])) 1 ⟨i, hi⟩ ⟨j, hj⟩
      have e2 := schur_get A (colDiv A A[(0 : Fin (n+1))][(0 : Fin (n+1))]) A[(0 : Fin (n+1))][(0 : Fin (n+1))] ⟨i, hi⟩ ⟨j, hj⟩
      rw [colDiv_get, colDiv_get] at e1 e2
      have hxne : A[(0 : Fin (n+1))][(0 : Fin (n+1))] ≠ 0 := ne_of_gt hx
      have key : A[(⟨i, hi⟩ : Fin n).succ][(0 : Fin (n+1))] / sqrtF A[(0 : Fin (n+1))][(0 : Fin (n+1))] * 1 *
            (A[(⟨j, hj⟩ : Fin n).succ][(0 : Fin (n+1))] / sqrtF A[(0 : Fin (n+1))][(0 : Fin (n+1))]) =
          A[(⟨i, hi⟩ : Fin n).succ][(0 : Fin (n+1))] / A[(0 : Fin (n+1))][(0 : Fin (n+1))] * A[(0 : Fin (n+1))][(0 : Fin (n+1))] *
            (A[(⟨j, hj⟩ : Fin n).succ][(0 : Fin (n+1))] / A[(0 : Fin (n+1))][(0 : Fin (n+1))]) := by
        rw [div_mul_cancel₀ _ hxne, mul_one, div_mul_div_comm, hl, mul_div_assoc]
      rw [key] at e1
      exact e1.trans e2.symm
    have hq := qdef_schur (fun _ => true) A h
    obtain ⟨L', hrec⟩ := pd_llt_ok sqrtF hsq n (schur A (colDiv A (sqrtF A[(0 : Fin (n+1))][(0 : Fin (n+1))])) 1) (by rw [hS]; exact hq)
    unfold llt
    simp only [not_le.mpr hx, if_false, hrec]
    exact ⟨_, rfl⟩

section assembled
variable {n p m : Nat}

/-- the sign pattern of the assembled reduced KKT matrix: `+` on the `x` block and on the decoupled identity rows of
    eliminated blocks, `−` on the kept multiplier blocks -/
def kktSign (be : Backend) (i : Fin (n + p + m)) : Bool :=
  match Blk.decode (n := n) (p := p) (m := m) i with
  | .x _ => true
  | .y _ => !be.keepY
  | .z _ => !be.keepZ

theorem kktSign_x (be : Backend) (a : Fin n) : kktSign be (ix (p := p) (m := m) a) = true := by
  unfold kktSign; rw [decode_ix]
theorem kktSign_y (be : Backend) (t : Fin p) : kktSign be (iy (n := n) (m := m) t) = !be.keepY := by
  unfold kktSign; rw [decode_iy]
theorem kktSign_z (be : Backend) (t : Fin m) : kktSign be (iz (n := n) (p := p) t) = !be.keepZ := by
  unfold kktSign; rw [decode_iz]

/-- block expansion of the form of the assembled matrix -/
theorem quad_assemble (be : Backend) (kb : KBlocks K n p m) (v : Vec K (n + p + m)) :
    quad (assemble be kb) v =
      (∑ a : Fin n, v[ix (p := p) (m := m) a] * ((∑ c : Fin n, kb.xx[a][c] * v[ix (p := p) (m := m) c]) +
          (∑ t : Fin p, (if be.keepY then kb.xy[a][t] else 0) * v[iy (n := n) (m := m) t]) +
          (∑ t : Fin m, (if be.keepZ then kb.xz[a][t] else 0) * v[iz (n := n) (p := p) t]))) +
      (∑ t : Fin p, v[iy (n := n) (m := m) t] * ((∑ c : Fin n, (if be.keepY then kb.xy[c][t] else 0) * v[ix (p := p) (m := m) c]) +
          (if be.keepY then kb.yy[t] else 1) * v[iy (n := n) (m := m) t])) +
      (∑ t : Fin m, v[iz (n := n) (p := p) t] * ((∑ c : Fin n, (if be.keepZ then kb.xz[c][t] else 0) * v[ix (p := p) (m := m) c]) +
          (if be.keepZ then kb.zz[t] else 1) * v[iz (n := n) (p := p) t])) := by
  unfold quad
  rw [sum_blocks]
  have hrow : ∀ r : Fin (n + p + m), (∑ j : Fin (n + p + m), (assemble be kb)[r][j] * v[j]) =
      (∑ c : Fin n, (assemble be kb)[r][ix (p := p) (m := m) c] * v[ix (p := p) (m := m) c]) +
      (∑ t : Fin p, (assemble be kb)[r][iy (n := n) (m := m) t] * v[iy (n := n) (m := m) t]) +
      (∑ t : Fin m, (assemble be kb)[r][iz (n := n) (p := p) t] * v[iz (n := n) (p := p) t]) := fun r => sum_blocks _
  simp only [hrow, M_xx, M_xy, M_xz, M_yx, M_yy, M_yz, M_zx, M_zy, M_zz,
    zero_mul, Finset.sum_const_zero, add_zero]
  congr 1
  · congr 1
    refine Finset.sum_congr rfl fun t _ => ?_
    congr 1
    congr 1
    simp [Finset.sum_ite_eq, ite_mul]
  · refine Finset.sum_congr rfl fun t _ => ?_
    congr 1
    simp [Finset.sum_ite_eq, ite_mul]

/-- every index of the assembled range is an `x`, a `y` or a `z` index -/
theorem blocks_cases (i : Fin (n + p + m)) :
    (∃ a : Fin n, i = ix (p := p) (m := m) a) ∨ (∃ t : Fin p, i = iy (n := n) (m := m) t) ∨ (∃ t : Fin m, i = iz (n := n) (p := p) t) := by
  by_cases h1 : i.val < n
  · exact Or.inl ⟨⟨i.val, h1⟩, Fin.ext rfl⟩
  · by_cases h2 : i.val < n + p
    · exact Or.inr (Or.inl ⟨⟨i.val - n, by omega⟩, Fin.ext (by simp only [iy]; omega)⟩)
    · exact Or.inr (Or.inr ⟨⟨i.val - n - p, by omega⟩, Fin.ext (by simp only [iz]; omega)⟩)

/-- **the assembled reduced KKT matrix is quasi-definite** when its `(1,1)` block is symmetric positive definite and the
    kept multiplier diagonals are negative -/
theorem assemble_qdef (be : Backend) (kb : KBlocks K n p m) (hsym : ∀ a b : Fin n, kb.xx[a][b] = kb.xx[b][a])
    (hpd : ∀ x : Vec K n, (∃ a : Fin n, x[a] ≠ 0) → 0 < quad kb.xx x)
    (hy : be.keepY = true → ∀ t : Fin p, kb.yy[t] < 0) (hz : be.keepZ = true → ∀ t : Fin m, kb.zz[t] < 0) :
    QDef (kktSign (n := n) (p := p) (m := m) be) (assemble be kb) := by
  refine ⟨assemble_symm be kb hsym, ?_, ?_⟩
  · intro v hv hne
    rw [quad_assemble]
    -- on `+`-supported vectors the kept multiplier parts vanish
    have hyv : be.keepY = true → ∀ t : Fin p, v[iy (n := n) (m := m) t] = 0 := fun hk t => hv _ (by rw [kktSign_y, hk]; rfl)
    have hzv : be.keepZ = true → ∀ t : Fin m, v[iz (n := n) (p := p) t] = 0 := fun hk t => hv _ (by rw [kktSign_z, hk]; rfl)
    have e1 : ∀ a : Fin n, (∑ t : Fin p, (if be.keepY then kb.xy[a][t] else 0) * v[iy (n := n) (m := m) t]) = 0 := by
      intro a; apply Finset.sum_eq_zero; intro t _
      cases hk : be.keepY
      · simp
      · simp [hyv hk t]
    have e2 : ∀ a : Fin n, (∑ t : Fin m, (if be.keepZ then kb.xz[a][t] else 0) * v[iz (n := n) (p := p) t]) = 0 := by
      intro a; apply Finset.sum_eq_zero; intro t _
      cases hk : be.keepZ
      · simp
      · simp [hzv hk t]
    have e3 : ∀ t : Fin p, v[iy (n := n) (m := m) t] * ((∑ c : Fin n, (if be.keepY then kb.xy[c][t] else 0) * v[ix (p := p) (m := m) c]) +
        (if be.keepY then kb.yy[t] else 1) * v[iy (n := n) (m := m) t]) = v[iy (n := n) (m := m) t] * v[iy (n := n) (m := m) t] := by
      intro t
      cases hk : be.keepY
      · simp
      · simp [hyv hk t]
    have e4 : ∀ t : Fin m, v[iz (n := n) (p := p) t] * ((∑ c : Fin n, (if be.keepZ then kb.xz[c][t] else 0) * v[ix (p := p) (m := m) c]) +
        (if be.keepZ then kb.zz[t] else 1) * v[iz (n := n) (p := p) t]) = v[iz (n := n) (p := p) t] * v[iz (n := n) (p := p) t] := by
      intro t
      cases hk : be.keepZ
      · simp
      · simp [hzv hk t]
    simp only [e1, e2, e3, e4, add_zero]
    have hxq : (∑ a : Fin n, v[ix (p := p) (m := m) a] * ∑ c : Fin n, kb.xx[a][c] * v[ix (p := p) (m := m) c]) =
        quad kb.xx (Vector.ofFn fun a => v[ix (p := p) (m := m) a]) := by
      unfold quad
      simp only [ofFn_get']
    rw [hxq]
    have hy2 : 0 ≤ ∑ t : Fin p, v[iy (n := n) (m := m) t] * v[iy (n := n) (m := m) t] := Finset.sum_nonneg fun t _ => mul_self_nonneg _
    have hz2 : 0 ≤ ∑ t : Fin m, v[iz (n := n) (p := p) t] * v[iz (n := n) (p := p) t] := Finset.sum_nonneg fun t _ => mul_self_nonneg _
    obtain ⟨i, hi⟩ := hne
    rcases blocks_cases i with ⟨a, rfl⟩ | ⟨t, rfl⟩ | ⟨t, rfl⟩
    · have := hpd (Vector.ofFn fun a => v[ix (p := p) (m := m) a]) ⟨a, by rw [ofFn_get']; exact hi⟩
      linarith
    · have hx0 : 0 ≤ quad kb.xx (Vector.ofFn fun a => v[ix (p := p) (m := m) a]) := by
        by_cases hx : ∃ a : Fin n, (Vector.ofFn fun a => v[ix (p := p) (m := m) a])[a] ≠ 0
        · exact le_of_lt (hpd _ hx)
        · have hall : ∀ a : Fin n, (Vector.ofFn fun a => v[ix (p := p) (m := m) a])[a] = 0 := fun a => by
            by_contra hc; exact hx ⟨a, hc⟩
          unfold quad
          exact le_of_eq (Finset.sum_eq_zero fun a _ => by rw [hall a, zero_mul]).symm
      have hpos : 0 < ∑ t : Fin p, v[iy (n := n) (m := m) t] * v[iy (n := n) (m := m) t] :=
        lt_of_lt_of_le (mul_self_pos.mpr hi) (Finset.single_le_sum (f := fun t : Fin p => v[iy (n := n) (m := m) t] * v[iy (n := n) (m := m) t])
          (fun t _ => mul_self_nonneg _) (Finset.mem_univ t))
      linarith
    · have hx0 : 0 ≤ quad kb.xx (Vector.ofFn fun a => v[ix (p := p) (m := m) a]) := by
        by_cases hx : ∃ a : Fin n, (Vector.ofFn fun a => v[ix (p := p) (m := m) a])[a] ≠ 0
        · exact le_of_lt (hpd _ hx)
        · have hall : ∀ a : Fin n, (Vector.ofFn fun a => v[ix (p := p) (m := m) a])[a] = 0 := fun a => by
            by_contra hc; exact hx ⟨a, hc⟩
          unfold quad
          exact le_of_eq (Finset.sum_eq_zero fun a _ => by rw [hall a, zero_mul]).symm
      have hpos : 0 < ∑ t : Fin m, v[iz (n := n) (p := p) t] * v[iz (n := n) (p := p) t] :=
        lt_of_lt_of_le (mul_self_pos.mpr hi) (Finset.single_le_sum (f := fun t : Fin m => v[iz (n := n) (p := p) t] * v[iz (n := n) (p := p) t])
          (fun t _ => mul_self_nonneg _) (Finset.mem_univ t))
      linarith
  · intro v hv hne
    rw [quad_assemble]
    have hxv : ∀ a : Fin n, v[ix (p := p) (m := m) a] = 0 := fun a => hv _ (kktSign_x be a)
    have hyv : be.keepY = false → ∀ t : Fin p, v[iy (n := n) (m := m) t] = 0 := fun hk t => hv _ (by rw [kktSign_y, hk]; rfl)
    have hzv : be.keepZ = false → ∀ t : Fin m, v[iz (n := n) (p := p) t] = 0 := fun hk t => hv _ (by rw [kktSign_z, hk]; rfl)
    simp only [hxv, zero_mul, mul_zero, Finset.sum_const_zero, zero_add]
    have ty : ∀ t : Fin p, v[iy (n := n) (m := m) t] * ((if be.keepY then kb.yy[t] else 1) * v[iy (n := n) (m := m) t]) ≤ 0 := by
      intro t
      cases hk : be.keepY
      · simp [hyv hk t]
      · simp only [if_true]
        have := hy hk t
        nlinarith [mul_self_nonneg (v[iy (n := n) (m := m) t])]
    have tz : ∀ t : Fin m, v[iz (n := n) (p := p) t] * ((if be.keepZ then kb.zz[t] else 1) * v[iz (n := n) (p := p) t]) ≤ 0 := by
      intro t
      cases hk : be.keepZ
      · simp [hzv hk t]
      · simp only [if_true]
        have := hz hk t
        nlinarith [mul_self_nonneg (v[iz (n := n) (p := p) t])]
    have sy : (∑ t : Fin p, v[iy (n := n) (m := m) t] * ((if be.keepY then kb.yy[t] else 1) * v[iy (n := n) (m := m) t])) ≤ 0 :=
      Finset.sum_nonpos fun t _ => ty t
    have sz : (∑ t : Fin m, v[iz (n := n) (p := p) t] * ((if be.keepZ then kb.zz[t] else 1) * v[iz (n := n) (p := p) t])) ≤ 0 :=
      Finset.sum_nonpos fun t _ => tz t
    obtain ⟨i, hi⟩ := hne
    rcases blocks_cases i with ⟨a, rfl⟩ | ⟨t, rfl⟩ | ⟨t, rfl⟩
    · exact absurd (hxv a) hi
    · have hk : be.keepY = true := by
        cases hk : be.keepY
        · exact absurd (hyv hk t) hi
        · rfl
      have hneg : v[iy (n := n) (m := m) t] * ((if be.keepY then kb.yy[t] else 1) * v[iy (n := n) (m := m) t]) < 0 := by
        simp only [hk, if_true]
        have := hy hk t
        nlinarith [mul_self_pos.mpr hi]
      have := sum_neg_of_nonpos_of_neg _ ty t hneg
      linarith
    · have hk : be.keepZ = true := by
        cases hk : be.keepZ
        · exact absurd (hzv hk t) hi
        · rfl
      have hneg : v[iz (n := n) (p := p) t] * ((if be.keepZ then kb.zz[t] else 1) * v[iz (n := n) (p := p) t]) < 0 := by
        simp only [hk, if_true]
        have := hz hk t
        nlinarith [mul_self_pos.mpr hi]
      have := sum_neg_of_nonpos_of_neg _ tz t hneg
      linarith

/-- **the sparse inner factorisation never fails on a convex problem's reduced KKT matrix** (exact arithmetic): whenever the
    `(1,1)` block is symmetric positive definite and the kept multiplier diagonals are negative — which positive `ρ, δ`, a
    positive semidefinite `P` and an interior iterate give for every one of the four sparse formulations — `innerLDLT`
    succeeds, for **every** fill-reducing permutation. -/
theorem innerLDLT_succeeds (be : Backend) (perm : Vector (Fin (n + p + m)) (n + p + m)) (hperm : IsPerm perm)
    (kb : KBlocks K n p m) (hsym : ∀ a b : Fin n, kb.xx[a][b] = kb.xx[b][a])
    (hpd : ∀ x : Vec K n, (∃ a : Fin n, x[a] ≠ 0) → 0 < quad kb.xx x)
    (hy : be.keepY = true → ∀ t : Fin p, kb.yy[t] < 0) (hz : be.keepZ = true → ∀ t : Fin m, kb.zz[t] < 0) :
    (innerLDLT be perm kb).isSome = true := by
  have hq := qdef_perm _ _ perm hperm (assemble_qdef be kb hsym hpd hy hz)
  obtain ⟨LD, hld⟩ := qdef_ldlt_ok _ _ _ hq
  unfold innerLDLT
  simp only [hld]
  rfl

/-- `Σ_i x_i Σ_j (Σ_t w_t B[i][t] B[j][t]) x_j = Σ_t w_t (Σ_i B[i][t] x_i)²` -/
theorem gram_quad {q : Nat} (B : Mat K n q) (w : Fin q → K) (x : Vec K n) :
    (∑ i : Fin n, x[i] * ∑ j : Fin n, (∑ t : Fin q, w t * (B[i][t] * B[j][t])) * x[j]) =
      ∑ t : Fin q, w t * ((∑ i : Fin n, B[i][t] * x[i]) * (∑ i : Fin n, B[i][t] * x[i])) := by
  have h1 : ∀ i : Fin n, x[i] * (∑ j : Fin n, (∑ t : Fin q, w t * (B[i][t] * B[j][t])) * x[j]) =
      ∑ t : Fin q, w t * ((B[i][t] * x[i]) * ∑ j : Fin n, B[j][t] * x[j]) := by
    intro i
    simp only [Finset.sum_mul, Finset.mul_sum]
    rw [Finset.sum_comm]
    exact Finset.sum_congr rfl fun t _ => Finset.sum_congr rfl fun j _ => by ring
  simp only [h1]
  rw [Finset.sum_comm]
  refine Finset.sum_congr rfl fun t _ => ?_
  rw [← Finset.mul_sum, ← Finset.sum_mul]

/-- **the `(1,1)` block of a coherent reduced KKT matrix is positive definite** for a convex problem at an interior iterate:
    `P ⪰ 0`, `ρ > 0`, `δ > 0`, positive scalings on the inequality and (active) box blocks -/
theorem coherent_xx_pd (be : Backend) (d : Data K n p m) (k : KKT K n p m) (hc : C13.Coherent be d k)
    (hP : ∀ x : Vec K n, 0 ≤ quad d.Psym x) (hρ : 0 < k.rho) (hδ : 0 < k.delta)
    (hw : ∀ t : Fin m, 0 < k.s[t] * k.zinv[t] + k.delta)
    (hbox : ∀ j : Fin n, 0 ≤ C13.boxTerm d k j) :
    ∀ x : Vec K n, (∃ a : Fin n, x[a] ≠ 0) → 0 < quad k.k.xx x := by
  intro x hne
  have hsplit : quad k.k.xx x =
      quad d.Psym x + k.rho * (∑ i : Fin n, x[i] * x[i])
      + (if be.keepY then 0 else ∑ t : Fin p, (1 / k.delta) * ((∑ i : Fin n, d.AT[i][t] * x[i]) * (∑ i : Fin n, d.AT[i][t] * x[i])))
      + (if be.keepZ then 0 else ∑ t : Fin m, (1 / (k.s[t] * k.zinv[t] + k.delta)) * ((∑ i : Fin n, d.GT[i][t] * x[i]) * (∑ i : Fin n, d.GT[i][t] * x[i])))
      + ∑ i : Fin n, C13.boxTerm d k i * (x[i] * x[i]) := by
    unfold quad
    simp only [hc.xx, add_mul, Finset.sum_add_distrib, mul_add]
    have e2 : (∑ i : Fin n, x[i] * ∑ j : Fin n, (if i = j then k.rho else 0) * x[j]) = k.rho * ∑ i : Fin n, x[i] * x[i] := by
      rw [Finset.mul_sum]
      refine Finset.sum_congr rfl fun i _ => ?_
      simp only [ite_mul, zero_mul, Finset.sum_ite_eq, Finset.mem_univ, if_true]
      ring
    have e5 : (∑ i : Fin n, x[i] * ∑ j : Fin n, (if i = j then C13.boxTerm d k i else 0) * x[j]) = ∑ i : Fin n, C13.boxTerm d k i * (x[i] * x[i]) := by
      refine Finset.sum_congr rfl fun i _ => ?_
      simp only [ite_mul, zero_mul, Finset.sum_ite_eq, Finset.mem_univ, if_true]
      ring
    have e3 : (∑ i : Fin n, x[i] * ∑ j : Fin n, (if be.keepY = true then 0 else 1 / k.delta * ∑ t : Fin p, d.AT[i][t] * d.AT[j][t]) * x[j]) =
        (if be.keepY = true then 0 else ∑ t : Fin p, 1 / k.delta * ((∑ i : Fin n, d.AT[i][t] * x[i]) * ∑ i : Fin n, d.AT[i][t] * x[i])) := by
      cases hk : be.keepY
      · simp only [Bool.false_eq_true, if_false]
        rw [← gram_quad d.AT (fun _ => 1 / k.delta) x]
        refine Finset.sum_congr rfl fun i _ => ?_
        congr 1
        refine Finset.sum_congr rfl fun j _ => ?_
        rw [Finset.mul_sum]
      · simp
    have e4 : (∑ i : Fin n, x[i] * ∑ j : Fin n, (if be.keepZ = true then 0 else ∑ t : Fin m, d.GT[i][t] * d.GT[j][t] / (k.s[t] * k.zinv[t] + k.delta)) * x[j]) =
        (if be.keepZ = true then 0 else ∑ t : Fin m, 1 / (k.s[t] * k.zinv[t] + k.delta) * ((∑ i : Fin n, d.GT[i][t] * x[i]) * ∑ i : Fin n, d.GT[i][t] * x[i])) := by
      cases hk : be.keepZ
      · simp only [Bool.false_eq_true, if_false]
        rw [← gram_quad d.GT (fun t => 1 / (k.s[t] * k.zinv[t] + k.delta)) x]
        refine Finset.sum_congr rfl fun i _ => ?_
        congr 1
        refine Finset.sum_congr rfl fun j _ => ?_
        congr 1
        refine Finset.sum_congr rfl fun t _ => ?_
        ring
      · simp
    rw [e2, e3, e4, e5]
  rw [hsplit]
  have h2 : 0 < k.rho * (∑ i : Fin n, x[i] * x[i]) := by
    apply mul_pos hρ
    obtain ⟨a, ha⟩ := hne
    exact lt_of_lt_of_le (mul_self_pos.mpr ha) (Finset.single_le_sum (f := fun i : Fin n => x[i] * x[i]) (fun i _ => mul_self_nonneg _) (Finset.mem_univ a))
  have h3 : 0 ≤ (if be.keepY then (0 : K) else ∑ t : Fin p, (1 / k.delta) * ((∑ i : Fin n, d.AT[i][t] * x[i]) * (∑ i : Fin n, d.AT[i][t] * x[i]))) := by
    split
    · exact le_refl _
    · exact Finset.sum_nonneg fun t _ => mul_nonneg (le_of_lt (one_div_pos.mpr hδ)) (mul_self_nonneg _)
  have h4 : 0 ≤ (if be.keepZ then (0 : K) else ∑ t : Fin m, (1 / (k.s[t] * k.zinv[t] + k.delta)) * ((∑ i : Fin n, d.GT[i][t] * x[i]) * (∑ i : Fin n, d.GT[i][t] * x[i]))) := by
    split
    · exact le_refl _
    · exact Finset.sum_nonneg fun t _ => mul_nonneg (le_of_lt (one_div_pos.mpr (hw t))) (mul_self_nonneg _)
  have h5 : 0 ≤ ∑ i : Fin n, C13.boxTerm d k i * (x[i] * x[i]) := Finset.sum_nonneg fun i _ => mul_nonneg (hbox i) (mul_self_nonneg _)
  have h1 := hP x
  linarith

theorem boxTerm_nonneg (d : Data K n p m) (k : KKT K n p m)
    (hl : ∀ a : Fin n, d.lb.act a → 0 < k.zinv_lb[a] * k.s_lb[a] + k.delta)
    (hu : ∀ a : Fin n, d.ub.act a → 0 < k.zinv_ub[a] * k.s_ub[a] + k.delta) (j : Fin n) : 0 ≤ C13.boxTerm d k j := by
  unfold C13.boxTerm
  apply add_nonneg
  · apply Finset.sum_nonneg; intro a _
    split
    · rename_i h; exact div_nonneg (mul_self_nonneg _) (le_of_lt (hl a h.1))
    · exact le_refl _
  · apply Finset.sum_nonneg; intro a _
    split
    · rename_i h; exact div_nonneg (mul_self_nonneg _) (le_of_lt (hu a h.1))
    · exact le_refl _

/-- **C02 / C12, mechanism: on a convex problem the sparse factorisation never fails** (exact arithmetic, no static
    regularisation). If the reduced matrix is coherent with the data (C13: `init`, `update_scalings`, `update_data` keep it
    so), `P ⪰ 0`, `ρ, δ > 0` and the scalings of the inequality and active box blocks are positive — every interior iterate —
    then `regularize_and_factorize` succeeds for all four sparse formulations and **every** fill-reducing permutation. Hence,
    in exact arithmetic, the retry logic is never entered and NUMERICS is never returned on such a problem. -/
theorem sparse_factorisation_never_fails (be : Backend) (st : KKTSettings K) (d : Data K n p m) (k : KKT K n p m)
    (perm : Vector (Fin (n + p + m)) (n + p + m)) (hperm : IsPerm perm) (hc : C13.Coherent be d k)
    (hP : ∀ x : Vec K n, 0 ≤ quad d.Psym x) (hρ : 0 < k.rho) (hδ : 0 < k.delta)
    (hw : ∀ t : Fin m, 0 < k.s[t] * k.zinv[t] + k.delta)
    (hl : ∀ a : Fin n, d.lb.act a → 0 < k.zinv_lb[a] * k.s_lb[a] + k.delta)
    (hu : ∀ a : Fin n, d.ub.act a → 0 < k.zinv_ub[a] * k.s_ub[a] + k.delta) :
    (KKT.regFactor be st d k false (innerLDLT be perm)).factOk = true := by
  unfold KKT.regFactor KKT.factOk
  simp only [Bool.false_eq_true, if_false]
  apply innerLDLT_succeeds be perm hperm k.k (coherent_xx_symm be d k hc)
    (coherent_xx_pd be d k hc hP hρ hδ hw (boxTerm_nonneg d k hl hu))
  · intro hk t; rw [hc.yy hk t]; linarith
  · intro hk t; rw [hc.zz hk t]; have := hw t; linarith

/-- the same for the dense back end (Cholesky of the fully reduced block), given an exact square root -/
theorem dense_factorisation_never_fails (sqrtF : K → K) (hsq : ExactSqrt sqrtF) (st : KKTSettings K) (d : Data K n p m) (k : KKT K n p m)
    (hc : C13.Coherent .dense d k)
    (hP : ∀ x : Vec K n, 0 ≤ quad d.Psym x) (hρ : 0 < k.rho) (hδ : 0 < k.delta)
    (hw : ∀ t : Fin m, 0 < k.s[t] * k.zinv[t] + k.delta)
    (hl : ∀ a : Fin n, d.lb.act a → 0 < k.zinv_lb[a] * k.s_lb[a] + k.delta)
    (hu : ∀ a : Fin n, d.ub.act a → 0 < k.zinv_ub[a] * k.s_ub[a] + k.delta) :
    (KKT.regFactor .dense st d k false (innerLLT sqrtF)).factOk = true := by
  have hpd := coherent_xx_pd .dense d k hc hP hρ hδ hw (boxTerm_nonneg d k hl hu)
  have hq : QDef (fun _ : Fin n => true) k.k.xx :=
    ⟨coherent_xx_symm .dense d k hc, fun x _ hne => hpd x hne, fun x hx hne => by
      obtain ⟨i, hi⟩ := hne
      exact absurd (hx i rfl) hi⟩
  obtain ⟨L, hL⟩ := pd_llt_ok sqrtF hsq n k.k.xx hq
  unfold KKT.regFactor KKT.factOk innerLLT
  simp only [Bool.false_eq_true, if_false, hL]
  rfl
end assembled
end qd
end Piqp.C14

namespace Piqp.C14
open Finset
section qdreg
variable {K : Type} [Field K] [LinearOrder K] [IsStrictOrderedRing K]
variable {n p m : Nat}

theorem vmax_zero_nonneg (x : K) : 0 ≤ vmax 0 x := by
  unfold vmax; split
  · rename_i h; exact le_of_lt h
  · exact le_refl _

theorem quad_addDiag (A : Mat K n n) (r : K) (x : Vec K n) :
    quad (addDiag A (Vec.const n r)) x = quad A x + r * ∑ i : Fin n, x[i] * x[i] := by
  unfold quad
  rw [Finset.mul_sum, ← Finset.sum_add_distrib]
  refine Finset.sum_congr rfl fun i _ => ?_
  have : ∀ j : Fin n, (addDiag A (Vec.const n r))[i][j] = A[i][j] + (if i = j then r else 0) := by
    intro j
    simp only [addDiag, matOfFn_get']
    split
    · simp [Vec.const]
    · simp
  simp only [this, add_mul, Finset.sum_add_distrib, ite_mul, zero_mul, Finset.sum_ite_eq, Finset.mem_univ, if_true]
  ring

/-- with static regularisation (iterative refinement on) the factorised matrix is still quasi-definite: the sparse
    factorisation never fails then either -/
theorem sparse_factorisation_never_fails_refine (be : Backend) (hbe : be.isDense = false) (st : KKTSettings K) (d : Data K n p m) (k : KKT K n p m)
    (perm : Vector (Fin (n + p + m)) (n + p + m)) (hperm : IsPerm perm) (hc : C13.Coherent be d k)
    (hP : ∀ x : Vec K n, 0 ≤ quad d.Psym x) (hρ : 0 < k.rho) (hδ : 0 < k.delta)
    (hw : ∀ t : Fin m, 0 < k.s[t] * k.zinv[t] + k.delta)
    (hl : ∀ a : Fin n, d.lb.act a → 0 < k.zinv_lb[a] * k.s_lb[a] + k.delta)
    (hu : ∀ a : Fin n, d.ub.act a → 0 < k.zinv_ub[a] * k.s_ub[a] + k.delta) :
    (KKT.regFactor be st d k true (innerLDLT be perm)).factOk = true := by
  have hpd := coherent_xx_pd be d k hc hP hρ hδ hw (boxTerm_nonneg d k hl hu)
  unfold KKT.regFactor KKT.factOk
  simp only [if_true, hbe, Bool.false_eq_true, if_false]
  apply innerLDLT_succeeds be perm hperm
  · intro a b
    simp only [addDiag, matOfFn_get']
    by_cases hab : a = b
    · subst hab; rfl
    · have hba : ¬ b = a := fun e => hab e.symm
      simp only [hab, hba, if_false]
      exact coherent_xx_symm be d k hc a b
  · intro x hne
    simp only
    rw [quad_addDiag]
    have h1 := hpd x hne
    have h2 : 0 ≤ ∑ i : Fin n, x[i] * x[i] := Finset.sum_nonneg fun i _ => mul_self_nonneg _
    have h3 := vmax_zero_nonneg (st.regEps + st.regRel * maxFinHead (maxFinHead (maxFin (maxFin 0 n fun j => d.P[j][j]) m fun i => k.zinv[i] * k.s[i]) d.lb.cnt n fun i => k.zinv_lb[i] * k.s_lb[i]) d.ub.cnt n (fun i => k.zinv_ub[i] * k.s_ub[i]) - k.rho)
    nlinarith [mul_nonneg h3 h2]
  · intro hk t
    simp only [ofFn_get']
    rw [hc.yy hk t]
    have h3 := vmax_zero_nonneg (st.regEps + st.regRel * maxFinHead (maxFinHead (maxFin (maxFin 0 n fun j => d.P[j][j]) m fun i => k.zinv[i] * k.s[i]) d.lb.cnt n fun i => k.zinv_lb[i] * k.s_lb[i]) d.ub.cnt n (fun i => k.zinv_ub[i] * k.s_ub[i]) - k.delta)
    linarith
  · intro hk t
    simp only [ofFn_get']
    rw [hc.zz hk t]
    have h3 := vmax_zero_nonneg (st.regEps + st.regRel * maxFinHead (maxFinHead (maxFin (maxFin 0 n fun j => d.P[j][j]) m fun i => k.zinv[i] * k.s[i]) d.lb.cnt n fun i => k.zinv_lb[i] * k.s_lb[i]) d.ub.cnt n (fun i => k.zinv_ub[i] * k.s_ub[i]) - k.delta)
    have := hw t
    linarith
end qdreg
set_option linter.unusedSimpArgs false in
/-- non-vacuity of `QDef`: `[[2, 1], [1, -3]]` with sign pattern `(+, −)` over ℚ -/
example : QDef (K := ℚ) (fun i : Fin 2 => decide (i = 0)) (Mat.ofFn fun i j => if i = 0 ∧ j = 0 then 2 else if i = 1 ∧ j = 1 then -3 else 1) := by
  refine ⟨?_, ?_, ?_⟩
  · intro i j
    fin_cases i <;> fin_cases j <;> simp [Mat.ofFn]
  · intro x hx hne
    have h1 : x[(1 : Fin 2)] = 0 := hx 1 (by decide)
    have h0 : x[(0 : Fin 2)] ≠ 0 := by
      obtain ⟨i, hi⟩ := hne
      fin_cases i
      · exact hi
      · exact absurd h1 hi
    unfold quad
    simp only [Fin.sum_univ_two, matOfFn_get', h1]
    have hp := mul_self_pos.mpr h0
    simp only [Fin.isValue, true_and, and_self, if_true, mul_zero, add_zero, zero_mul]
    linarith
  · intro x hx hne
    have h0 : x[(0 : Fin 2)] = 0 := hx 0 (by decide)
    have h1 : x[(1 : Fin 2)] ≠ 0 := by
      obtain ⟨i, hi⟩ := hne
      fin_cases i
      · exact absurd h0 hi
      · exact hi
    unfold quad
    simp only [Fin.sum_univ_two, matOfFn_get', h0]
    have hp := mul_self_pos.mpr h1
    have h10 : ¬ ((1 : Fin 2) = 0) := by decide
    simp only [Fin.isValue, and_self, and_true, if_true, h10, if_false, mul_zero, add_zero, zero_mul, zero_add, false_and]
    linarith
end Piqp.C14

/-! ## Uniqueness: every loop order computes the factors of the recursion -/

namespace Piqp.C14
open Finset
variable {K : Type} [Field K] [DecidableEq K]

theorem minorM_get {n : Nat} (L : Mat K (n+1) (n+1)) (i j : Fin n) : (minorM L)[i][j] = L[i.succ][j.succ] := by
  simp [minorM, Mat.ofFn]
theorem tailV_get {n : Nat} (v : Vec K (n+1)) (i : Fin n) : (tailV v)[i] = v[i.succ] := by
  simp [tailV]

/-- **the pivot-free LDLᵀ factorisation is unique**: whatever algorithm (up-looking with an elimination tree, left-looking,
    blocked) produced a unit lower triangular `L` and a diagonal `D` without zeros with `L D Lᵀ = A`, the recursion of the model
    succeeds on `A` and returns that `D` and that `L`. This is what entitles the model to denote every loop order of the code by one
    recursion. -/
theorem ldlt_unique : ∀ (n : Nat) (A L : Mat K n n) (D : Vec K n),
    (∀ i : Fin n, L[i][i] = 1) → (∀ i j : Fin n, i < j → L[i][j] = 0) → (∀ i : Fin n, D[i] ≠ 0) →
    (∀ i j : Fin n, ∑ k : Fin n, L[i][k] * D[k] * L[j][k] = A[i][j]) →
    ∃ L' D', ldlt n A = .ok (L', D') ∧ (∀ i : Fin n, D'[i] = D[i]) ∧ ∀ i j : Fin n, L'[i][j] = L[i][j]
  | 0, _, _, _, _, _, _, _ => ⟨_, _, rfl, fun i => i.elim0, fun i => i.elim0⟩
  | n+1, A, L, D, hdiag, hup, hD, hprod => by
    have hL0 : ∀ k : Fin n, L[(0 : Fin (n+1))][k.succ] = 0 := fun k => hup 0 k.succ (Fin.succ_pos k)
    have h00 : A[(0 : Fin (n+1))][(0 : Fin (n+1))] = D[(0 : Fin (n+1))] := by
      rw [← hprod 0 0, Fin.sum_univ_succ]
      simp only [hL0, zero_mul, mul_zero, Finset.sum_const_zero, add_zero, hdiag 0, one_mul, mul_one]
    have hcol : ∀ i : Fin n, A[i.succ][(0 : Fin (n+1))] = L[i.succ][(0 : Fin (n+1))] * D[(0 : Fin (n+1))] := by
      intro i
      rw [← hprod i.succ 0, Fin.sum_univ_succ]
      simp only [hL0, mul_zero, Finset.sum_const_zero, add_zero, hdiag 0, mul_one]
    have hd0 : A[(0 : Fin (n+1))][(0 : Fin (n+1))] ≠ 0 := by rw [h00]; exact hD 0
    have hl : ∀ i : Fin n, (colDiv A A[(0 : Fin (n+1))][(0 : Fin (n+1))])[i] = L[i.succ][(0 : Fin (n+1))] := by
      intro i
      rw [colDiv_get, hcol i, h00]
      exact mul_div_cancel_right₀ _ (hD 0)
    have hS : ∀ i j : Fin n, ∑ k : Fin n, (minorM L)[i][k] * (tailV D)[k] * (minorM L)[j][k] =
        (schur A (colDiv A A[(0 : Fin (n+1))][(0 : Fin (n+1))]) A[(0 : Fin (n+1))][(0 : Fin (n+1))])[i][j] := by
      intro i j
      rw [schur_get, hl i, hl j, h00, ← hprod i.succ j.succ, Fin.sum_univ_succ]
      simp only [minorM_get, tailV_get]
      ring
    obtain ⟨L', D', hrec, hD', hL'⟩ := ldlt_unique n _ (minorM L) (tailV D)
      (fun i => by rw [minorM_get]; exact hdiag i.succ)
      (fun i j hij => by rw [minorM_get]; exact hup i.succ j.succ (Fin.succ_lt_succ_iff.mpr hij))
      (fun i => by rw [tailV_get]; exact hD i.succ) hS
    refine ⟨consL 1 (colDiv A A[(0 : Fin (n+1))][(0 : Fin (n+1))]) L', consV A[(0 : Fin (n+1))][(0 : Fin (n+1))] D', ?_, ?_, ?_⟩
    · unfold ldlt
      simp only
      have : (A[(0 : Fin (n+1))][(0 : Fin (n+1))] == 0) = false := by simpa using hd0
      rw [this]
      simp only [Bool.false_eq_true, if_false, hrec]
    · intro i
      refine Fin.cases ?_ (fun s => ?_) i
      · rw [consV_zero, h00]
      · rw [consV_succ, hD' s, tailV_get]
    · intro i j
      refine Fin.cases ?_ (fun s => ?_) i <;> refine Fin.cases ?_ (fun t => ?_) j
      · rw [consL_00, hdiag 0]
      · rw [consL_0s, hL0 t]
      · rw [consL_s0, hl s]
      · rw [consL_ss, hL' s t, minorM_get]
end Piqp.C14

/-! ## Storage level: the CSC loops of `pre_mult_diagonal` / `post_mult_diagonal` compute `D·A` / `A·D`

`transpose_no_allocation` (`Csc.transposeInto`) follows below. -/

namespace Piqp.Csc
variable {K : Type}

/-- a fold of in-place updates `v[k] ← f k v[k]` over a contiguous range touches exactly that range, once -/
theorem foldl_modify_range (f : Nat → K → K) : ∀ (len lo : Nat) (v : Array K) (t : Nat),
    ((List.range' lo len).foldl (fun v k => v.modify k (f k)) v)[t]? =
      if lo ≤ t ∧ t < lo + len then (v[t]?).map (f t) else v[t]?
  | 0, lo, v, t => by simp
  | len+1, lo, v, t => by
    rw [List.range'_succ, List.foldl_cons, foldl_modify_range f len (lo+1) _ t, Array.getElem?_modify]
    by_cases h1 : lo = t
    · subst h1
      simp
    · by_cases h2 : lo + 1 ≤ t ∧ t < lo + 1 + len
      · have : lo ≤ t ∧ t < lo + (len + 1) := ⟨by omega, by omega⟩
        simp [h1, h2, this]
      · have : ¬ (lo ≤ t ∧ t < lo + (len + 1)) := by omega
        simp [h1, h2, this]

/-- the common shape of the two diagonal scalings: column by column, entry by entry, `v[k] ← g j k v[k]` -/
def mapCols (A : Csc K) (g : Nat → Nat → K → K) : Array K :=
  (List.range A.cols).foldl (fun v j => (A.colRange j).foldl (fun v k => v.modify k (g j k)) v) A.vals

/-- the column starts are non-decreasing -/
def Mono (A : Csc K) : Prop := ∀ j, j < A.cols → A.outer.getD j 0 ≤ A.outer.getD (j + 1) 0

theorem Mono.le {A : Csc K} (h : Mono A) : ∀ (b a : Nat), a ≤ b → b ≤ A.cols → A.outer.getD a 0 ≤ A.outer.getD b 0
  | 0, a, hab, _ => by have : a = 0 := by omega
                       subst this; exact Nat.le_refl _
  | b+1, a, hab, hb => by
    by_cases he : a = b + 1
    · subst he; exact Nat.le_refl _
    · exact Nat.le_trans (h.le b a (by omega) (by omega)) (h b (by omega))

theorem col_pass (A : Csc K) (g : Nat → Nat → K → K) (j : Nat) (v : Array K) (t : Nat) :
    ((A.colRange j).foldl (fun v k => v.modify k (g j k)) v)[t]? =
      if A.outer.getD j 0 ≤ t ∧ t < A.outer.getD (j + 1) 0 then (v[t]?).map (g j t) else v[t]? := by
  unfold colRange
  rw [foldl_modify_range (g j)]
  by_cases h : A.outer.getD j 0 ≤ t ∧ t < A.outer.getD (j + 1) 0
  · have : A.outer.getD j 0 ≤ t ∧ t < A.outer.getD j 0 + (A.outer.getD (j + 1) 0 - A.outer.getD j 0) := ⟨h.1, by omega⟩
    rw [if_pos h, if_pos this]
  · have : ¬ (A.outer.getD j 0 ≤ t ∧ t < A.outer.getD j 0 + (A.outer.getD (j + 1) 0 - A.outer.getD j 0)) := by omega
    rw [if_neg h, if_neg this]

/-- columns whose ranges do not contain `t` leave position `t` alone -/
theorem cols_skip (A : Csc K) (g : Nat → Nat → K → K) (t : Nat) : ∀ (js : List Nat) (v : Array K),
    (∀ j ∈ js, ¬ (A.outer.getD j 0 ≤ t ∧ t < A.outer.getD (j + 1) 0)) →
    (js.foldl (fun v j => (A.colRange j).foldl (fun v k => v.modify k (g j k)) v) v)[t]? = v[t]?
  | [], v, _ => rfl
  | j :: js, v, h => by
    rw [List.foldl_cons, cols_skip A g t js _ (fun j' hj' => h j' (List.mem_cons_of_mem _ hj')), col_pass,
      if_neg (h j (List.mem_cons_self))]

/-- every stored entry is updated exactly once, by the pass over its own column -/
theorem mapCols_get (A : Csc K) (hm : Mono A) (g : Nat → Nat → K → K) (j0 t : Nat) (hj : j0 < A.cols)
    (ht : A.outer.getD j0 0 ≤ t ∧ t < A.outer.getD (j0 + 1) 0) :
    (mapCols A g)[t]? = (A.vals[t]?).map (g j0 t) := by
  unfold mapCols
  have hsplit : List.range A.cols = List.range' 0 j0 ++ j0 :: List.range' (j0 + 1) (A.cols - j0 - 1) := by
    rw [List.range_eq_range']
    have h1 : A.cols = j0 + (1 + (A.cols - j0 - 1)) := by omega
    conv_lhs => rw [h1]
    rw [← List.range'_append_1, ← List.range'_append_1]
    simp [List.range']
  rw [hsplit, List.foldl_append, List.foldl_cons]
  rw [cols_skip A g t _ _ (fun j hj' => ?_), col_pass, if_pos ht, cols_skip A g t _ _ (fun j hj' => ?_)]
  · -- earlier columns end at or before outer j0
    have hj2 : j < j0 := by simpa [List.mem_range'] using hj'
    have := hm.le j0 (j + 1) (by omega) (by omega)
    omega
  · have hj2 : j0 + 1 ≤ j ∧ j < A.cols := by
      have := List.mem_range'.mp hj'
      obtain ⟨i, hi, rfl⟩ := this
      omega
    have := hm.le j (j0 + 1) hj2.1 (by omega)
    omega
end Piqp.Csc

namespace Piqp.Csc
variable {K : Type} [CommSemiring K]

theorem getD_of_map (v : Array K) (t : Nat) (f : K → K) (hf : f 0 = 0) : ((v[t]?).map f).getD 0 = f (v.getD t 0) := by
  rw [Array.getD_eq_getD_getElem?]
  cases v[t]? <;> simp [hf]

theorem foldl_scale (c : Nat → Prop) [DecidablePred c] (a : Nat → K) (s : K) : ∀ (l : List Nat) (acc : K),
    l.foldl (fun acc k => if c k then acc + a k * s else acc) (acc * s) = (l.foldl (fun acc k => if c k then acc + a k else acc) acc) * s
  | [], acc => rfl
  | k :: l, acc => by
    rw [List.foldl_cons, List.foldl_cons]
    by_cases h : c k
    · rw [if_pos h, if_pos h, ← add_mul]; exact foldl_scale c a s l _
    · rw [if_neg h, if_neg h]; exact foldl_scale c a s l _

theorem foldl_congr_mem {β : Type} (f g : β → Nat → β) : ∀ (l : List Nat) (acc : β), (∀ k ∈ l, ∀ b, f b k = g b k) → l.foldl f acc = l.foldl g acc
  | [], _, _ => rfl
  | k :: l, acc, h => by
    rw [List.foldl_cons, List.foldl_cons, h k List.mem_cons_self]
    exact foldl_congr_mem f g l _ (fun k' hk' => h k' (List.mem_cons_of_mem _ hk'))

theorem mem_colRange (A : Csc K) (j k : Nat) : k ∈ A.colRange j ↔ A.outer.getD j 0 ≤ k ∧ k < A.outer.getD (j + 1) 0 := by
  unfold colRange
  rw [List.mem_range'_1]
  omega

/-- **`pre_mult_diagonal` at storage level**: the loops over the three arrays compute `D·A` — for every column start array that is
    non-decreasing, the dense denotation of the result is `diag(i) · A(i,j)`, and the pattern arrays are untouched -/
theorem get_preMultDiag (A : Csc K) (hm : Mono A) (d : Array K) (i j : Nat) (hj : j < A.cols) :
    (A.preMultDiag d).get i j = A.get i j * d.getD i 0 ∧ (A.preMultDiag d).outer = A.outer ∧ (A.preMultDiag d).inner = A.inner := by
  refine ⟨?_, rfl, rfl⟩
  show ((A.colRange j).foldl (fun acc k => if A.inner.getD k 0 = i then acc + (mapCols A (fun j k x => x * d.getD (A.inner.getD k 0) 0)).getD k 0 else acc) 0) = _
  unfold get
  rw [← foldl_scale (fun k => A.inner.getD k 0 = i) (fun k => A.vals.getD k 0) (d.getD i 0) (A.colRange j) 0, zero_mul]
  apply foldl_congr_mem
  intro k hk b
  by_cases h : A.inner.getD k 0 = i
  · rw [if_pos h, if_pos h]
    congr 1
    rw [Array.getD_eq_getD_getElem?, mapCols_get A hm _ j k hj ((mem_colRange A j k).mp hk), getD_of_map A.vals k (fun x => x * d.getD (A.inner.getD k 0) 0) (zero_mul _), h]
  · rw [if_neg h, if_neg h]

/-- **`post_mult_diagonal` at storage level**: `A·D` -/
theorem get_postMultDiag (A : Csc K) (hm : Mono A) (d : Array K) (i j : Nat) (hj : j < A.cols) :
    (A.postMultDiag d).get i j = A.get i j * d.getD j 0 ∧ (A.postMultDiag d).outer = A.outer ∧ (A.postMultDiag d).inner = A.inner := by
  refine ⟨?_, rfl, rfl⟩
  show ((A.colRange j).foldl (fun acc k => if A.inner.getD k 0 = i then acc + (mapCols A (fun j k x => x * d.getD j 0)).getD k 0 else acc) 0) = _
  unfold get
  rw [← foldl_scale (fun k => A.inner.getD k 0 = i) (fun k => A.vals.getD k 0) (d.getD j 0) (A.colRange j) 0, zero_mul]
  apply foldl_congr_mem
  intro k hk b
  by_cases h : A.inner.getD k 0 = i
  · rw [if_pos h, if_pos h]
    congr 1
    rw [Array.getD_eq_getD_getElem?, mapCols_get A hm _ j k hj ((mem_colRange A j k).mp hk), getD_of_map A.vals k (fun x => x * d.getD j 0) (zero_mul _)]
  · rw [if_neg h, if_neg h]
end Piqp.Csc

/-! ## Storage level: `transpose_no_allocation` (bucket filling through the abused column-start array) -/

namespace Piqp.Csc
variable {K : Type}

/-- one stored entry of `A` as the transpose loop sees it: (row, column, value) -/
abbrev Ent (K : Type) := Nat × Nat × K

/-- the body of `transpose_no_allocation` for one entry: write at the cursor of the entry's row, advance that cursor -/
def bstep (st : Array Nat × Array Nat × Array K) (e : Ent K) : Array Nat × Array Nat × Array K :=
  (st.1.modify e.1 (· + 1), st.2.1.setIfInBounds (st.1.getD e.1 0) e.2.1, st.2.2.setIfInBounds (st.1.getD e.1 0) e.2.2)

/-- entries of `L` in row `i`, in order -/
def rowOf (L : List (Ent K)) (i : Nat) : List (Ent K) := L.filter (fun e => e.1 == i)

theorem rowOf_cons_eq (e : Ent K) (L : List (Ent K)) : rowOf (e :: L) e.1 = e :: rowOf L e.1 := by
  simp [rowOf]
theorem rowOf_cons_ne (e : Ent K) (L : List (Ent K)) (i : Nat) (h : e.1 ≠ i) : rowOf (e :: L) i = rowOf L i := by
  simp [rowOf, h]

theorem bstep_cur (st : Array Nat × Array Nat × Array K) (e : Ent K) (he : e.1 < st.1.size) (i : Nat) :
    (bstep st e).1.getD i 0 = st.1.getD i 0 + (if e.1 = i then 1 else 0) ∧ (bstep st e).1.size = st.1.size := by
  unfold bstep
  refine ⟨?_, by simp⟩
  simp only [Array.getD_eq_getD_getElem?, Array.getElem?_modify]
  by_cases h : e.1 = i
  · subst h
    simp [he]
  · simp [h]

/-- cursors advance by the number of entries of their row -/
theorem fold_cur : ∀ (L : List (Ent K)) (st : Array Nat × Array Nat × Array K), (∀ e ∈ L, e.1 < st.1.size) → ∀ i,
    (L.foldl bstep st).1.getD i 0 = st.1.getD i 0 + (rowOf L i).length ∧ (L.foldl bstep st).1.size = st.1.size
  | [], st, _, i => by simp [rowOf]
  | e :: L, st, h, i => by
    have he := h e List.mem_cons_self
    obtain ⟨c1, c2⟩ := bstep_cur st e he i
    have ih := fold_cur L (bstep st e) (fun e' he' => by rw [(bstep_cur st e he 0).2]; exact h e' (List.mem_cons_of_mem _ he')) i
    rw [List.foldl_cons]
    refine ⟨?_, by rw [ih.2, c2]⟩
    rw [ih.1, c1]
    by_cases hi : e.1 = i
    · subst hi; rw [rowOf_cons_eq]; simp; omega
    · rw [rowOf_cons_ne e L i hi]; simp [hi]

/-- position `q` lies in the part of row `i`'s bucket that the remaining entries `L` will fill -/
def inBucket (st : Array Nat × Array Nat × Array K) (L : List (Ent K)) (i q : Nat) : Prop :=
  st.1.getD i 0 ≤ q ∧ q < st.1.getD i 0 + (rowOf L i).length

theorem inBucket_step (st : Array Nat × Array Nat × Array K) (e : Ent K) (L : List (Ent K)) (he : e.1 < st.1.size) (i q : Nat)
    (h : inBucket (bstep st e) L i q) : inBucket st (e :: L) i q ∧ ¬ (i = e.1 ∧ q = st.1.getD e.1 0) := by
  unfold inBucket at *
  rw [(bstep_cur st e he i).1] at h
  by_cases hi : e.1 = i
  · subst hi
    rw [rowOf_cons_eq]
    simp only [if_true, List.length_cons] at h ⊢
    exact ⟨⟨by omega, by omega⟩, fun hh => by omega⟩
  · rw [rowOf_cons_ne e L i hi]
    simp only [hi, if_false, Nat.add_zero] at h
    exact ⟨h, fun hh => hi hh.1.symm⟩

/-- positions outside every bucket are never written -/
theorem fold_outside : ∀ (L : List (Ent K)) (st : Array Nat × Array Nat × Array K), (∀ e ∈ L, e.1 < st.1.size) → ∀ q,
    (∀ i, ¬ inBucket st L i q) →
    (L.foldl bstep st).2.1[q]? = st.2.1[q]? ∧ (L.foldl bstep st).2.2[q]? = st.2.2[q]?
  | [], st, _, q, _ => ⟨rfl, rfl⟩
  | e :: L, st, h, q, hout => by
    have he := h e List.mem_cons_self
    have ih := fold_outside L (bstep st e) (fun e' he' => by rw [(bstep_cur st e he 0).2]; exact h e' (List.mem_cons_of_mem _ he')) q
      (fun i hb => hout i (inBucket_step st e L he i q hb).1)
    rw [List.foldl_cons, ih.1, ih.2]
    have hq : st.1.getD e.1 0 ≠ q := by
      intro heq
      apply hout e.1
      unfold inBucket
      rw [rowOf_cons_eq]
      simp only [List.length_cons]
      omega
    have hq' : st.1[e.1]?.getD 0 ≠ q := by rw [← Array.getD_eq_getD_getElem?]; exact hq
    unfold bstep
    simp only [Array.getElem?_setIfInBounds, Array.getD_eq_getD_getElem?]
    simp [hq']

/-- buckets of different rows do not overlap -/
def Disj (st : Array Nat × Array Nat × Array K) (L : List (Ent K)) : Prop :=
  ∀ i i' q, i ≠ i' → ¬ (inBucket st L i q ∧ inBucket st L i' q)
/-- buckets lie inside the two target arrays -/
def Fits (st : Array Nat × Array Nat × Array K) (L : List (Ent K)) : Prop :=
  ∀ i q, inBucket st L i q → q < st.2.1.size ∧ q < st.2.2.size

theorem bstep_sizes (st : Array Nat × Array Nat × Array K) (e : Ent K) :
    (bstep st e).2.1.size = st.2.1.size ∧ (bstep st e).2.2.size = st.2.2.size := by
  unfold bstep; simp

/-- after the loop, the bucket of row `i` holds the entries of row `i` in the order the loop met them -/
theorem fold_bucket : ∀ (L : List (Ent K)) (st : Array Nat × Array Nat × Array K), (∀ e ∈ L, e.1 < st.1.size) →
    Disj st L → Fits st L → ∀ (i r : Nat) (hr : r < (rowOf L i).length),
    (L.foldl bstep st).2.1[st.1.getD i 0 + r]? = some ((rowOf L i)[r]).2.1 ∧
    (L.foldl bstep st).2.2[st.1.getD i 0 + r]? = some ((rowOf L i)[r]).2.2
  | [], st, _, _, _, i, r, hr => by simp [rowOf] at hr
  | e :: L, st, h, hd, hf, i, r, hr => by
    have he := h e List.mem_cons_self
    have hrows : ∀ e' ∈ L, e'.1 < (bstep st e).1.size := fun e' he' => by
      rw [(bstep_cur st e he 0).2]; exact h e' (List.mem_cons_of_mem _ he')
    have hd' : Disj (bstep st e) L := fun a b q hab hh =>
      hd a b q hab ⟨(inBucket_step st e L he a q hh.1).1, (inBucket_step st e L he b q hh.2).1⟩
    have hf' : Fits (bstep st e) L := fun a q hh => by
      rw [(bstep_sizes st e).1, (bstep_sizes st e).2]; exact hf a q (inBucket_step st e L he a q hh).1
    rw [List.foldl_cons]
    by_cases hi : e.1 = i
    · subst hi
      have hrow : rowOf (e :: L) e.1 = e :: rowOf L e.1 := rowOf_cons_eq e L
      have hin0 : inBucket st (e :: L) e.1 (st.1.getD e.1 0) := by
        unfold inBucket; rw [hrow]; simp only [List.length_cons]; omega
      cases r with
      | zero =>
        have hout : ∀ i', ¬ inBucket (bstep st e) L i' (st.1.getD e.1 0) := by
          intro i' hb
          obtain ⟨h1, h2⟩ := inBucket_step st e L he i' _ hb
          by_cases hie : i' = e.1
          · exact h2 ⟨hie, rfl⟩
          · exact hd i' e.1 _ hie ⟨h1, hin0⟩
        obtain ⟨o1, o2⟩ := fold_outside L (bstep st e) hrows _ hout
        obtain ⟨s1, s2⟩ := hf e.1 _ hin0
        simp only [Nat.add_zero, hrow, List.getElem_cons_zero]
        rw [o1, o2]
        unfold bstep
        simp only [Array.getElem?_setIfInBounds]
        rw [Array.getD_eq_getD_getElem?] at s1 s2
        simp only [Array.getD_eq_getD_getElem?]
        simp [s1, s2]
      | succ r' =>
        have hr' : r' < (rowOf L e.1).length := by rw [hrow] at hr; simpa using hr
        have ih := fold_bucket L (bstep st e) hrows hd' hf' e.1 r' hr'
        rw [(bstep_cur st e he e.1).1] at ih
        simp only [if_true] at ih
        have hpos : st.1.getD e.1 0 + (r' + 1) = st.1.getD e.1 0 + 1 + r' := by omega
        rw [hpos]
        simp only [hrow, List.getElem_cons_succ]
        exact ih
    · have hrow : rowOf (e :: L) i = rowOf L i := rowOf_cons_ne e L i hi
      have hr' : r < (rowOf L i).length := by rw [hrow] at hr; exact hr
      have ih := fold_bucket L (bstep st e) hrows hd' hf' i r hr'
      rw [(bstep_cur st e he i).1] at ih
      simp only [hi, if_false, Nat.add_zero] at ih
      simp only [hrow]
      exact ih

/-- the stored entries of `A` in the order `transpose_no_allocation` visits them -/
def entries [Zero K] (A : Csc K) : List (Ent K) :=
  (List.range A.cols).flatMap fun j => (A.colRange j).map fun k => (A.inner.getD k 0, j, A.vals.getD k 0)

/-- the two nested loops of `transposeInto` are one pass of `bstep` over `entries A` -/
theorem transposeInto_fold [Zero K] (A C : Csc K) :
    (List.range A.cols).foldl (fun st j => (A.colRange j).foldl (fun st k =>
        ((st.1.modify (A.inner.getD k 0) (· + 1), st.2.1.setIfInBounds (st.1.getD (A.inner.getD k 0) 0) j,
          st.2.2.setIfInBounds (st.1.getD (A.inner.getD k 0) 0) (A.vals.getD k 0)) : Array Nat × Array Nat × Array K)) st) (C.outer, C.inner, C.vals) =
      (entries A).foldl bstep (C.outer, C.inner, C.vals) := by
  unfold entries
  rw [List.foldl_flatMap]
  congr 1
  funext st j
  rw [List.foldl_map]
  rfl

theorem foldl_filter' {α β : Type} (p : α → Bool) (g : β → α → β) : ∀ (l : List α) (acc : β),
    (l.filter p).foldl g acc = l.foldl (fun acc e => if p e then g acc e else acc) acc
  | [], _ => rfl
  | e :: l, acc => by
    by_cases h : p e
    · simp only [List.filter_cons, h, if_true, List.foldl_cons]; exact foldl_filter' p g l _
    · simp only [List.filter_cons, h, List.foldl_cons]; exact foldl_filter' p g l _

/-- a fold over consecutive positions that hold the elements of a list is the fold over the list -/
theorem foldl_positions {α β : Type} (g : β → α → β) (a : Nat → α) : ∀ (l : List α) (s : Nat) (acc : β),
    (∀ r (hr : r < l.length), a (s + r) = l[r]) →
    (List.range' s l.length).foldl (fun acc q => g acc (a q)) acc = l.foldl g acc
  | [], _, _, _ => rfl
  | e :: l, s, acc, h => by
    rw [List.length_cons, List.range'_succ, List.foldl_cons, List.foldl_cons]
    have h0 := h 0 (by simp)
    simp only [Nat.add_zero, List.getElem_cons_zero] at h0
    rw [h0]
    exact foldl_positions g a l (s + 1) _ (fun r hr => by
      have := h (r + 1) (by simp; omega)
      simp only [List.getElem_cons_succ] at this
      rw [← this]; congr 1; omega)


theorem shift_size (m : Nat) (o : Array Nat) : ∀ n : Nat,
    ((List.range n).foldl (fun o t => o.setIfInBounds (m - 1 - t) (o.getD (m - 1 - t - 1) 0)) o).size = o.size
  | 0 => rfl
  | n+1 => by
    rw [List.range_succ, List.foldl_append, List.foldl_cons, List.foldl_nil, Array.size_setIfInBounds]
    exact shift_size m o n

/-- the downward shift `for j = m-1 … 1: o[j] = o[j-1]` after `n` steps -/
theorem shift_steps (m : Nat) (o : Array Nat) (hs : m ≤ o.size) : ∀ (n : Nat), n ≤ m - 1 → ∀ q,
    ((List.range n).foldl (fun o t => o.setIfInBounds (m - 1 - t) (o.getD (m - 1 - t - 1) 0)) o)[q]? =
      if m - n ≤ q ∧ q ≤ m - 1 ∧ 1 ≤ q then o[q - 1]? else o[q]?
  | 0, _, q => by
    have : ¬ (m - 0 ≤ q ∧ q ≤ m - 1 ∧ 1 ≤ q) := by omega
    rw [if_neg this]; rfl
  | n+1, hn, q => by
    rw [List.range_succ, List.foldl_append, List.foldl_cons, List.foldl_nil]
    have ih := shift_steps m o hs n (by omega)
    have hsz : ((List.range n).foldl (fun o t => o.setIfInBounds (m - 1 - t) (o.getD (m - 1 - t - 1) 0)) o).size = o.size :=
      shift_size m o n
    rw [Array.getElem?_setIfInBounds]
    by_cases hq : m - 1 - n = q
    · subst hq
      have h1 : m - 1 - n < ((List.range n).foldl (fun o t => o.setIfInBounds (m - 1 - t) (o.getD (m - 1 - t - 1) 0)) o).size := by
        rw [hsz]; omega
      have h2 : m - (n + 1) ≤ m - 1 - n ∧ m - 1 - n ≤ m - 1 ∧ 1 ≤ m - 1 - n := by omega
      rw [if_pos rfl, if_pos h1, if_pos h2, Array.getD_eq_getD_getElem?, ih]
      have h3 : ¬ (m - n ≤ m - 1 - n - 1 ∧ m - 1 - n - 1 ≤ m - 1 ∧ 1 ≤ m - 1 - n - 1) := by omega
      rw [if_neg h3]
      have h4 : m - 1 - n - 1 < o.size := by omega
      simp [h4]
    · rw [if_neg hq, ih]
      by_cases h5 : m - n ≤ q ∧ q ≤ m - 1 ∧ 1 ≤ q
      · have : m - (n + 1) ≤ q ∧ q ≤ m - 1 ∧ 1 ≤ q := by omega
        rw [if_pos h5, if_pos this]
      · have : ¬ (m - (n + 1) ≤ q ∧ q ≤ m - 1 ∧ 1 ≤ q) := by omega
        rw [if_neg h5, if_neg this]

/-- what `transpose_no_allocation(A, C)` assumes of `C`: it is laid out as `Aᵀ` — one column per row of `A`, each exactly as long as
    that row has stored entries, inside the arrays; and the row indices of `A` are in range -/
structure TransposeReady [Zero K] (A C : Csc K) : Prop where
  outer_size : C.outer.size = A.rows + 1
  rows_ok : ∀ e ∈ entries A, e.1 < A.rows
  counts : ∀ i, i < A.rows → C.outer.getD (i + 1) 0 = C.outer.getD i 0 + (rowOf (entries A) i).length
  first : C.outer.getD 0 0 = 0
  fits : C.outer.getD A.rows 0 ≤ C.inner.size ∧ C.outer.getD A.rows 0 ≤ C.vals.size

section ready
variable [Zero K] {A C : Csc K} (h : TransposeReady A C)
include h

theorem TransposeReady.cnt_zero (i : Nat) (hi : A.rows ≤ i) : rowOf (entries A) i = [] := by
  unfold rowOf
  rw [List.filter_eq_nil_iff]
  intro e he
  have := h.rows_ok e he
  simp; omega

theorem TransposeReady.start_le (b a : Nat) (hab : a ≤ b) (hb : b ≤ A.rows) : C.outer.getD a 0 ≤ C.outer.getD b 0 := by
  induction b with
  | zero => have : a = 0 := by omega
            subst this; exact Nat.le_refl _
  | succ b ih =>
    by_cases he : a = b + 1
    · subst he; exact Nat.le_refl _
    · have := ih (by omega) (by omega)
      have := h.counts b (by omega)
      omega

theorem TransposeReady.disj : Disj (C.outer, C.inner, C.vals) (entries A) := by
  intro i i' q hne hh
  obtain ⟨⟨a1, a2⟩, ⟨b1, b2⟩⟩ := hh
  simp only at a1 a2 b1 b2
  by_cases hi : A.rows ≤ i
  · rw [h.cnt_zero i hi] at a2; simp only [List.length_nil, Nat.add_zero] at a2; omega
  by_cases hi' : A.rows ≤ i'
  · rw [h.cnt_zero i' hi'] at b2; simp only [List.length_nil, Nat.add_zero] at b2; omega
  have c1 := h.counts i (by omega)
  have c2 := h.counts i' (by omega)
  rcases Nat.lt_or_gt_of_ne hne with hlt | hlt
  · have := h.start_le i' (i + 1) (by omega) (by omega); omega
  · have := h.start_le i (i' + 1) (by omega) (by omega); omega

theorem TransposeReady.fitsB : Fits (C.outer, C.inner, C.vals) (entries A) := by
  intro i q hh
  obtain ⟨a1, a2⟩ := hh
  simp only at a1 a2 ⊢
  by_cases hi : A.rows ≤ i
  · rw [h.cnt_zero i hi] at a2; simp only [List.length_nil, Nat.add_zero] at a2; omega
  have c1 := h.counts i (by omega)
  have := h.start_le A.rows (i + 1) (by omega) (Nat.le_refl _)
  have := h.fits
  omega

theorem TransposeReady.rows_lt : ∀ e ∈ entries A, e.1 < (C.outer, C.inner, C.vals).1.size := by
  intro e he
  have := h.rows_ok e he
  show e.1 < C.outer.size
  rw [h.outer_size]; omega
end ready

theorem getElem?_of_getD (o : Array Nat) (q : Nat) (hq : q < o.size) : o[q]? = some (o.getD q 0) := by
  rw [Array.getD_eq_getD_getElem?]
  simp [hq]

/-- **`transpose_no_allocation` restores the column starts of `C`** (the array it abused as write cursors) -/
theorem transposeInto_outer [Zero K] (A C : Csc K) (h : TransposeReady A C) : (A.transposeInto C).outer = C.outer := by
  unfold transposeInto
  simp only
  rw [transposeInto_fold]
  have fc := fold_cur (entries A) (C.outer, C.inner, C.vals) h.rows_lt
  generalize (entries A).foldl bstep (C.outer, C.inner, C.vals) = stf at fc
  have hsz : stf.1.size = A.rows + 1 := by rw [(fc 0).2]; exact h.outer_size
  apply Array.ext_getElem?
  intro q
  rw [Array.getElem?_setIfInBounds]
  have hss := shift_size A.rows stf.1 (A.rows - 1)
  by_cases hq0 : 0 = q
  · subst hq0
    rw [if_pos rfl, hss, if_pos (by omega), getElem?_of_getD C.outer 0 (by rw [h.outer_size]; omega), h.first]
  · rw [if_neg hq0, shift_steps A.rows stf.1 (by omega) (A.rows - 1) (Nat.le_refl _) q]
    by_cases hq : q ≤ A.rows
    · rw [getElem?_of_getD C.outer q (by rw [h.outer_size]; omega)]
      by_cases hq1 : q ≤ A.rows - 1
      · have hc : A.rows - (A.rows - 1) ≤ q ∧ q ≤ A.rows - 1 ∧ 1 ≤ q := by omega
        rw [if_pos hc, getElem?_of_getD stf.1 (q - 1) (by omega), (fc (q - 1)).1]
        have := h.counts (q - 1) (by omega)
        have e : q - 1 + 1 = q := by omega
        rw [e] at this
        show some (C.outer.getD (q - 1) 0 + (rowOf (entries A) (q - 1)).length) = some (C.outer.getD q 0)
        rw [this]
      · have hc : ¬ (A.rows - (A.rows - 1) ≤ q ∧ q ≤ A.rows - 1 ∧ 1 ≤ q) := by omega
        have hqe : q = A.rows := by omega
        rw [if_neg hc, getElem?_of_getD stf.1 q (by omega), (fc q).1, h.cnt_zero q (by omega)]
        rfl
    · have hc : ¬ (A.rows - (A.rows - 1) ≤ q ∧ q ≤ A.rows - 1 ∧ 1 ≤ q) := by omega
      rw [if_neg hc]
      have e1 : stf.1[q]? = none := by simp; omega
      have e2 : C.outer[q]? = none := by simp; have := h.outer_size; omega
      rw [e1, e2]

theorem foldl_congr_mem' {β : Type} (f g : β → Nat → β) : ∀ (l : List Nat) (acc : β), (∀ k ∈ l, ∀ b, f b k = g b k) → l.foldl f acc = l.foldl g acc
  | [], _, _ => rfl
  | k :: l, acc, h => by
    rw [List.foldl_cons, List.foldl_cons, h k List.mem_cons_self]
    exact foldl_congr_mem' f g l _ (fun k' hk' => h k' (List.mem_cons_of_mem _ hk'))

/-- columns other than `j` contribute nothing to a sum that selects column `j` -/
theorem blocks_skip {β : Type} (blk : Nat → List (Ent K)) (g : β → Ent K → β) (j : Nat)
    (hg : ∀ acc e, e.2.1 ≠ j → g acc e = acc) (hb : ∀ j' e, e ∈ blk j' → e.2.1 = j') :
    ∀ (js : List Nat) (acc : β), j ∉ js → js.foldl (fun acc j' => (blk j').foldl g acc) acc = acc
  | [], _, _ => rfl
  | j' :: js, acc, hn => by
    rw [List.foldl_cons]
    have hne : j' ≠ j := fun hh => hn (hh ▸ List.mem_cons_self)
    have : (blk j').foldl g acc = acc := by
      have : ∀ (l : List (Ent K)) (acc : β), (∀ e ∈ l, e.2.1 = j') → l.foldl g acc = acc := by
        intro l
        induction l with
        | nil => intro _ _; rfl
        | cons e l ih =>
          intro acc hl
          rw [List.foldl_cons, hg acc e (by rw [hl e List.mem_cons_self]; exact hne)]
          exact ih acc (fun e' he' => hl e' (List.mem_cons_of_mem _ he'))
      exact this _ acc (fun e he => hb j' e he)
    rw [this]
    exact blocks_skip blk g j hg hb js acc (fun hh => hn (List.mem_cons_of_mem _ hh))

/-- **`transpose_no_allocation` at storage level**: if `C` is laid out as `Aᵀ` (`TransposeReady`), the loops over the arrays leave in `C`
    the transpose of `A` — entry `(j, i)` of the result is entry `(i, j)` of `A` — whatever values and row indices `C` held before -/
theorem transposeInto_get [Zero K] [Add K] (A C : Csc K) (h : TransposeReady A C) (i j : Nat) (hi : i < A.rows) (hj : j < A.cols) :
    (A.transposeInto C).get j i = A.get i j := by
  have hout := transposeInto_outer A C h
  unfold get colRange
  rw [hout, h.counts i hi, Nat.add_sub_cancel_left]
  unfold transposeInto
  simp only
  rw [transposeInto_fold]
  have fb := fold_bucket (entries A) (C.outer, C.inner, C.vals) h.rows_lt h.disj h.fitsB i
  generalize (entries A).foldl bstep (C.outer, C.inner, C.vals) = stf at fb
  -- positions of the bucket hold the entries of row i
  have hpos := foldl_positions (fun (acc : K) (e : Nat × K) => if e.1 = j then acc + e.2 else acc)
    (fun q => (stf.2.1.getD q 0, stf.2.2.getD q 0)) ((rowOf (entries A) i).map (·.2)) (C.outer.getD i 0) 0
    (fun r hr => by
      have hr' : r < (rowOf (entries A) i).length := by simpa using hr
      obtain ⟨b1, b2⟩ := fb r hr'
      simp only at b1 b2
      rw [List.getElem_map]
      show (stf.2.1.getD (C.outer.getD i 0 + r) 0, stf.2.2.getD (C.outer.getD i 0 + r) 0) = _
      rw [Array.getD_eq_getD_getElem? (xs := stf.2.1), Array.getD_eq_getD_getElem? (xs := stf.2.2), b1, b2]
      rfl)
  rw [List.length_map] at hpos
  rw [hpos, List.foldl_map]
  unfold rowOf
  rw [foldl_filter']
  unfold entries
  rw [List.foldl_flatMap]
  have hsplit : List.range A.cols = List.range' 0 j ++ j :: List.range' (j + 1) (A.cols - j - 1) := by
    rw [List.range_eq_range']
    have h1 : A.cols = j + (1 + (A.cols - j - 1)) := by omega
    conv_lhs => rw [h1]
    rw [← List.range'_append_1, ← List.range'_append_1]
    simp [List.range']
  rw [hsplit, List.foldl_append, List.foldl_cons]
  have hskip := blocks_skip (K := K) (fun j' => (List.range' (A.outer.getD j' 0) (A.outer.getD (j' + 1) 0 - A.outer.getD j' 0)).map
      fun k => (A.inner.getD k 0, j', A.vals.getD k 0))
    (fun (acc : K) (e : Ent K) => if (e.1 == i) = true then (if e.2.1 = j then acc + e.2.2 else acc) else acc) j
    (fun acc e hne => by simp [hne])
    (fun j' e he => by
      obtain ⟨k, _, rfl⟩ := List.mem_map.mp he
      rfl)
  unfold colRange
  rw [hskip _ _ (by simp only [List.mem_range'_1]; omega), hskip _ _ (by simp only [List.mem_range'_1]; omega), List.foldl_map]
  apply foldl_congr_mem'
  intro k _ b
  by_cases hk : A.inner.getD k 0 = i
  · simp [hk]
  · simp [hk]

/-! non-vacuity: a 2×2 matrix with three stored entries and a `C` with the transposed layout but garbage row indices and stale values -/
def exA : Csc Int := { rows := 2, cols := 2, outer := #[0, 1, 3], inner := #[0, 0, 1], vals := #[1, 2, 3] }
def exC : Csc Int := { rows := 2, cols := 2, outer := #[0, 2, 3], inner := #[9, 9, 9], vals := #[7, 7, 7] }
example : TransposeReady exA exC := ⟨by decide, by decide, by decide, by decide, by decide⟩
example : (exA.transposeInto exC).inner = #[0, 1, 1] ∧ (exA.transposeInto exC).vals = #[1, 2, 3] ∧ (exA.transposeInto exC).outer = #[0, 2, 3] := by decide
end Piqp.Csc

/-! ## Storage level: the arrays built from a raw matrix (`Csc.ofOpt`) denote it -/

namespace Piqp.Csc
variable {K : Type}

/-- the stored entries of column `j` of the raw matrix, rows increasing -/
def colList (r c : Nat) (ent : Array (Option K)) (j : Nat) : List (Nat × K) :=
  (List.range r).filterMap fun i => (ent.getD (i * c + j) none).map fun v => (i, v)

/-- all entries of columns `< J`, column by column -/
def preList (r c : Nat) (ent : Array (Option K)) (J : Nat) : List (Nat × K) := (List.range J).flatMap (colList r c ent)

theorem preList_succ (r c : Nat) (ent : Array (Option K)) (J : Nat) : preList r c ent (J + 1) = preList r c ent J ++ colList r c ent J := by
  unfold preList; rw [List.range_succ, List.flatMap_append]; simp

theorem col_fold (g : Nat → Option K) : ∀ (l : List Nat) (a : Array Nat × Array K),
    (l.foldl (fun (a : Array Nat × Array K) i =>
      match g i with
      | some v => (a.1.push i, a.2.push v)
      | none => a) a).1.toList = a.1.toList ++ (l.filterMap fun i => (g i).map fun v => (i, v)).map (·.1) ∧
    (l.foldl (fun (a : Array Nat × Array K) i =>
      match g i with
      | some v => (a.1.push i, a.2.push v)
      | none => a) a).2.toList = a.2.toList ++ (l.filterMap fun i => (g i).map fun v => (i, v)).map (·.2)
  | [], a => by simp
  | i :: l, a => by
    rw [List.foldl_cons]
    have ih := col_fold g l
    cases h : g i with
    | none =>
      simp only [h, List.filterMap_cons, Option.map_none]
      exact ih a
    | some v =>
      simp only [h, List.filterMap_cons, Option.map_some, List.map_cons]
      have := ih (a.1.push i, a.2.push v)
      simp only [Array.toList_push, List.append_assoc, List.singleton_append] at this
      exact this

/-- the three arrays after the first `J` columns of `ofOpt` -/
theorem ofOpt_state (r c : Nat) (ent : Array (Option K)) : ∀ J : Nat,
    let res := (List.range J).foldl (fun (acc : Array Nat × Array Nat × Array K) j =>
      let col := (List.range r).foldl (fun (a : Array Nat × Array K) i =>
        match ent.getD (i * c + j) none with
        | some v => (a.1.push i, a.2.push v)
        | none => a) (acc.2.1, acc.2.2)
      (acc.1.push col.1.size, col.1, col.2)) (#[0], #[], #[])
    res.1.toList = (List.range (J + 1)).map (fun t => (preList r c ent t).length) ∧
    res.2.1.toList = (preList r c ent J).map (·.1) ∧ res.2.2.toList = (preList r c ent J).map (·.2)
  | 0 => by simp [preList]
  | J+1 => by
    intro res
    have ih := ofOpt_state r c ent J
    simp only at ih
    simp only [res]
    rw [List.range_succ, List.foldl_append, List.foldl_cons, List.foldl_nil]
    generalize (List.range J).foldl _ (#[0], #[], #[]) = acc at ih ⊢
    obtain ⟨i1, i2, i3⟩ := ih
    obtain ⟨c1, c2⟩ := col_fold (fun i => ent.getD (i * c + J) none) (List.range r) (acc.2.1, acc.2.2)
    simp only at c1 c2 ⊢
    have e1 : ∀ (x : Array Nat × Array K), x.1.size = x.1.toList.length := fun x => by simp
    refine ⟨?_, ?_, ?_⟩
    · rw [Array.toList_push, i1, e1, c1, i2, List.range_succ (n := J + 1), List.map_append]
      simp [preList_succ, colList]
    · rw [c1, i2, preList_succ]; simp [colList]
    · rw [c2, i3, preList_succ]; simp [colList]

theorem preList_prefix (r c : Nat) (ent : Array (Option K)) (a : Nat) : ∀ d : Nat, preList r c ent a <+: preList r c ent (a + d)
  | 0 => List.prefix_refl _
  | d+1 => by
    rw [← Nat.add_assoc, preList_succ]
    exact (preList_prefix r c ent a d).trans (List.prefix_append _ _)

theorem getD_of_toList {α : Type} (a : Array α) (l : List α) (h : a.toList = l) (q : Nat) (d : α) : a.getD q d = l.getD q d := by
  subst h
  rw [Array.getD_eq_getD_getElem?, List.getD_eq_getElem?_getD, Array.getElem?_toList]

theorem ofOpt_outer (r c : Nat) (ent : Array (Option K)) (j : Nat) (hj : j ≤ c) :
    (ofOpt r c ent).outer.getD j 0 = (preList r c ent j).length := by
  have h : (ofOpt r c ent).outer.toList = (List.range (c + 1)).map (fun t => (preList r c ent t).length) := (ofOpt_state r c ent c).1
  rw [getD_of_toList _ _ h, List.getD_eq_getElem?_getD, List.getElem?_map, List.getElem?_range (by omega)]
  rfl

theorem ofOpt_mono (r c : Nat) (ent : Array (Option K)) : Mono (ofOpt r c ent) := by
  intro j hj
  have hc : (ofOpt r c ent).cols = c := rfl
  rw [hc] at hj
  rw [ofOpt_outer r c ent j (by omega), ofOpt_outer r c ent (j + 1) (by omega), preList_succ, List.length_append]
  omega

theorem ofOpt_colRange (r c : Nat) (ent : Array (Option K)) (j : Nat) (hj : j < c) :
    (ofOpt r c ent).colRange j = List.range' (preList r c ent j).length (colList r c ent j).length := by
  unfold colRange
  rw [ofOpt_outer r c ent j (by omega), ofOpt_outer r c ent (j + 1) (by omega), preList_succ, List.length_append, Nat.add_sub_cancel_left]

theorem ofOpt_entry (r c : Nat) (ent : Array (Option K)) [Zero K] (j : Nat) (hj : j < c) (t : Nat) (ht : t < (colList r c ent j).length) :
    ((ofOpt r c ent).inner.getD ((preList r c ent j).length + t) 0, (ofOpt r c ent).vals.getD ((preList r c ent j).length + t) 0) =
      (colList r c ent j)[t] := by
  have h2 : (ofOpt r c ent).inner.toList = (preList r c ent c).map (·.1) := (ofOpt_state r c ent c).2.1
  have h3 : (ofOpt r c ent).vals.toList = (preList r c ent c).map (·.2) := (ofOpt_state r c ent c).2.2
  have hp : preList r c ent (j + 1) <+: preList r c ent c := by
    have := preList_prefix r c ent (j + 1) (c - (j + 1))
    rwa [show j + 1 + (c - (j + 1)) = c by omega] at this
  obtain ⟨rest, hrest⟩ := hp
  have hidx : (preList r c ent c)[(preList r c ent j).length + t]? = some (colList r c ent j)[t] := by
    rw [← hrest, preList_succ, List.append_assoc, List.getElem?_append_right (by omega), Nat.add_sub_cancel_left,
      List.getElem?_append_left ht, List.getElem?_eq_getElem ht]
  rw [getD_of_toList _ _ h2, getD_of_toList _ _ h3, List.getD_eq_getElem?_getD, List.getD_eq_getElem?_getD,
    List.getElem?_map, List.getElem?_map, hidx]
  rfl

theorem foldl_positions'' {α β : Type} (g : β → α → β) (a : Nat → α) : ∀ (l : List α) (s : Nat) (acc : β),
    (∀ r (hr : r < l.length), a (s + r) = l[r]) →
    (List.range' s l.length).foldl (fun acc q => g acc (a q)) acc = l.foldl g acc
  | [], _, _, _ => rfl
  | e :: l, s, acc, h => by
    rw [List.length_cons, List.range'_succ, List.foldl_cons, List.foldl_cons]
    have h0 := h 0 (by simp)
    simp only [Nat.add_zero, List.getElem_cons_zero] at h0
    rw [h0]
    exact foldl_positions'' g a l (s + 1) _ (fun r hr => by
      have := h (r + 1) (by simp; omega)
      simp only [List.getElem_cons_succ] at this
      rw [← this]; congr 1; omega)

theorem foldl_filterMap' {α β γ : Type} (f : α → Option β) (g : γ → β → γ) : ∀ (l : List α) (acc : γ),
    (l.filterMap f).foldl g acc = l.foldl (fun acc x => match f x with | some y => g acc y | none => acc) acc
  | [], _ => rfl
  | x :: l, acc => by
    rw [List.filterMap_cons, List.foldl_cons]
    cases h : f x with
    | none => exact foldl_filterMap' f g l acc
    | some y => rw [List.foldl_cons]; exact foldl_filterMap' f g l _


theorem foldl_ext' {α β : Type} (f g : β → α → β) : ∀ (l : List α) (acc : β), (∀ acc x, f acc x = g acc x) → l.foldl f acc = l.foldl g acc
  | [], _, _ => rfl
  | x :: l, acc, h => by rw [List.foldl_cons, List.foldl_cons, h]; exact foldl_ext' f g l _ h

/-- a fold in which only index `i` acts -/
theorem foldl_single {β : Type} (F : β → β) (i : Nat) : ∀ (n s : Nat) (acc : β),
    (List.range' s n).foldl (fun acc i' => if i' = i then F acc else acc) acc = if s ≤ i ∧ i < s + n then F acc else acc
  | 0, s, acc => by
    have : ¬ (s ≤ i ∧ i < s + 0) := by omega
    rw [if_neg this]; rfl
  | n+1, s, acc => by
    rw [List.range'_succ, List.foldl_cons, foldl_single F i n (s + 1)]
    by_cases h : s = i
    · subst h
      have h1 : ¬ (s + 1 ≤ s ∧ s < s + 1 + n) := by omega
      have h2 : s ≤ s ∧ s < s + (n + 1) := by omega
      rw [if_pos rfl, if_neg h1, if_pos h2]
    · rw [if_neg h]
      by_cases h3 : s + 1 ≤ i ∧ i < s + 1 + n
      · have : s ≤ i ∧ i < s + (n + 1) := by omega
        rw [if_pos h3, if_pos this]
      · have : ¬ (s ≤ i ∧ i < s + (n + 1)) := by omega
        rw [if_neg h3, if_neg this]

/-- **the compressed arrays built from a raw matrix denote that matrix** (and their column starts are non-decreasing, `ofOpt_mono`):
    with the storage-level theorems of the kernels this closes the chain raw input → arrays → kernel → dense meaning -/
theorem get_ofOpt [AddZeroClass K] (r c : Nat) (ent : Array (Option K)) (i j : Nat) (hj : j < c) :
    (ofOpt r c ent).get i j = if i < r then (ent.getD (i * c + j) none).getD 0 else 0 := by
  unfold get
  rw [ofOpt_colRange r c ent j hj]
  have := foldl_positions'' (fun (acc : K) (e : Nat × K) => if e.1 = i then acc + e.2 else acc)
    (fun q => ((ofOpt r c ent).inner.getD q 0, (ofOpt r c ent).vals.getD q 0)) (colList r c ent j) (preList r c ent j).length 0
    (fun t ht => ofOpt_entry r c ent j hj t ht)
  simp only at this
  rw [this]
  unfold colList
  rw [foldl_filterMap', List.range_eq_range']
  refine (foldl_ext' _ (fun (acc : K) (x : Nat) => if x = i then acc + (ent.getD (i * c + j) none).getD 0 else acc) _ 0
    (fun acc x => ?_)).trans ?_
  · by_cases hx : x = i
    · subst hx
      cases ent.getD (x * c + j) none <;> simp
    · cases ent.getD (x * c + j) none <;> simp [hx]
  rw [foldl_single (fun acc => acc + (ent.getD (i * c + j) none).getD 0) i r 0 0]
  by_cases hi : i < r
  · have : 0 ≤ i ∧ i < 0 + r := by omega
    rw [if_pos this, if_pos hi, zero_add]
  · have : ¬ (0 ≤ i ∧ i < 0 + r) := by omega
    rw [if_neg this, if_neg hi]

/-- the chain closed for one kernel: raw matrix → compressed arrays → `pre_mult_diagonal` loops → dense meaning -/
theorem get_preMultDiag_ofOpt [CommSemiring K] (r c : Nat) (ent : Array (Option K)) (d : Array K) (i j : Nat) (hi : i < r) (hj : j < c) :
    ((ofOpt r c ent).preMultDiag d).get i j = (ent.getD (i * c + j) none).getD 0 * d.getD i 0 := by
  rw [(get_preMultDiag (ofOpt r c ent) (ofOpt_mono r c ent) d i j hj).1, get_ofOpt r c ent i j hj, if_pos hi]
end Piqp.Csc

/-! ## Storage level: the guard of sparse `update()` (`is_transpose_pattern`, binary search included) implies the precondition of the in-place transpose -/

namespace Piqp.Csc
variable {K : Type}

theorem sum_le (a b : Nat → Nat) : ∀ n : Nat, (∀ i, i < n → a i ≤ b i) → ((List.range n).map a).sum ≤ ((List.range n).map b).sum
  | 0, _ => by simp
  | n+1, hle => by
    rw [List.range_succ, List.map_append, List.map_append, List.sum_append, List.sum_append]
    simp only [List.map_cons, List.map_nil, List.sum_cons, List.sum_nil, Nat.add_zero]
    have := sum_le a b n (fun i hi => hle i (by omega))
    have := hle n (by omega)
    omega

/-- termwise `≤` and equal sums force termwise equality -/
theorem sum_le_eq (a b : Nat → Nat) : ∀ n : Nat, (∀ i, i < n → a i ≤ b i) →
    ((List.range n).map a).sum = ((List.range n).map b).sum → ∀ i, i < n → a i = b i
  | 0, _, _, i, hi => by omega
  | n+1, hle, hs, i, hi => by
    rw [List.range_succ, List.map_append, List.map_append, List.sum_append, List.sum_append] at hs
    simp only [List.map_cons, List.map_nil, List.sum_cons, List.sum_nil, Nat.add_zero] at hs
    have hle' : ((List.range n).map a).sum ≤ ((List.range n).map b).sum := sum_le a b n (fun i hi => hle i (by omega))
    have hn := hle n (by omega)
    by_cases hin : i = n
    · subst hin; omega
    · exact sum_le_eq a b n (fun i hi => hle i (by omega)) (by omega) i (by omega)

/-- a list whose rows are all below `m` splits into its rows -/
theorem length_eq_sum_rows : ∀ (L : List (Ent K)) (m : Nat), (∀ e ∈ L, e.1 < m) →
    L.length = ((List.range m).map fun i => (rowOf L i).length).sum
  | [], m, _ => by simp [rowOf]
  | e :: L, m, h => by
    have ih := length_eq_sum_rows L m (fun e' he' => h e' (List.mem_cons_of_mem _ he'))
    have he := h e List.mem_cons_self
    rw [List.length_cons, ih]
    -- only row e.1 gains one
    have key : ∀ (n : Nat), ((List.range n).map fun i => (rowOf (e :: L) i).length).sum =
        ((List.range n).map fun i => (rowOf L i).length).sum + (if e.1 < n then 1 else 0) := by
      intro n
      induction n with
      | zero => simp
      | succ k ihk =>
        rw [List.range_succ, List.map_append, List.map_append, List.sum_append, List.sum_append, ihk]
        simp only [List.map_cons, List.map_nil, List.sum_cons, List.sum_nil, Nat.add_zero]
        by_cases hk : e.1 = k
        · subst hk
          rw [rowOf_cons_eq]
          simp
          omega
        · rw [rowOf_cons_ne e L k hk]
          by_cases h1 : e.1 < k
          · have : e.1 < k + 1 := by omega
            simp [h1, this]; omega
          · have : ¬ e.1 < k + 1 := by omega
            simp [h1, this]
    rw [key m, if_pos he]

theorem telescope (o : Nat → Nat) : ∀ n : Nat, (∀ j, j < n → o j ≤ o (j + 1)) →
    ((List.range n).map fun j => o (j + 1) - o j).sum = o n - o 0 ∧ o 0 ≤ o n
  | 0, _ => by simp
  | n+1, h => by
    obtain ⟨ih1, ih2⟩ := telescope o n (fun j hj => h j (by omega))
    rw [List.range_succ, List.map_append, List.sum_append, ih1]
    simp only [List.map_cons, List.map_nil, List.sum_cons, List.sum_nil, Nat.add_zero]
    have := h n (by omega)
    omega

theorem entries_length [Zero K] (A : Csc K) (hm : Mono A) : (entries A).length = A.outer.getD A.cols 0 - A.outer.getD 0 0 := by
  unfold entries
  rw [List.length_flatMap]
  have : (List.map (fun j => ((A.colRange j).map fun k => (A.inner.getD k 0, j, A.vals.getD k 0)).length) (List.range A.cols)) =
      (List.range A.cols).map fun j => A.outer.getD (j + 1) 0 - A.outer.getD j 0 := by
    apply List.map_congr_left
    intro j _
    simp [colRange]
  rw [this]
  exact (telescope (fun j => A.outer.getD j 0) A.cols hm).1

theorem bsearch_range (inner : Array Nat) (j lo hi : Nat) (h : lo ≤ hi) :
    lo ≤ bsearch inner j lo hi ∧ bsearch inner j lo hi ≤ hi := by
  fun_induction bsearch inner j lo hi
  case case1 lo hi hlt mid hmid ih =>
    have := ih (by omega)
    omega
  case case2 lo hi hlt mid hmid ih =>
    have := ih (by omega)
    omega
  case case3 lo hi hlt => omega

/-- what a successful `is_transpose_pattern(A, C)` has checked -/
theorem guard_facts (A C : Csc K) (h : isTransposePattern A C = true) :
    A.cols = C.rows ∧ A.rows = C.cols ∧ A.outer.getD A.cols 0 = C.outer.getD C.cols 0 ∧
    ∀ j, j < A.cols → ∀ k ∈ A.colRange j,
      (A.outer.getD j 0 < k → A.inner.getD (k - 1) 0 < A.inner.getD k 0) ∧
      bsearch C.inner j (C.outer.getD (A.inner.getD k 0) 0) (C.outer.getD (A.inner.getD k 0 + 1) 0) ≠ C.outer.getD (A.inner.getD k 0 + 1) 0 ∧
      C.inner.getD (bsearch C.inner j (C.outer.getD (A.inner.getD k 0) 0) (C.outer.getD (A.inner.getD k 0 + 1) 0)) 0 = j := by
  unfold isTransposePattern at h
  by_cases hd : (A.cols ≠ C.rows || A.rows ≠ C.cols || A.outer.getD A.cols 0 ≠ C.outer.getD C.cols 0) = true
  · rw [if_pos hd] at h; cases h
  · rw [if_neg hd] at h
    simp only [ne_eq, Bool.or_eq_true, decide_eq_true_eq, not_or, not_not] at hd
    refine ⟨hd.1.1, hd.1.2, hd.2, ?_⟩
    intro j hj k hk
    rw [List.all_eq_true] at h
    have h1 := h j (List.mem_range.mpr hj)
    rw [List.all_eq_true] at h1
    have h2 := h1 k hk
    simp only [Bool.and_eq_true, Bool.not_eq_true', Bool.and_eq_false_iff, decide_eq_false_iff_not, Bool.or_eq_false_iff,
      beq_eq_false_iff_ne, bne_eq_false_iff_eq, Nat.not_le] at h2
    refine ⟨fun hlt => ?_, h2.2.1, h2.2.2⟩
    rcases h2.1 with h3 | h3
    · exact absurd hlt (by simpa using h3)
    · simpa using h3

/-- consecutive strict increase on `[s, s+n)` is strict increase -/
theorem strict_of_steps (f : Nat → Nat) (s n : Nat) (h : ∀ k, s < k → k < s + n → f (k - 1) < f k) :
    ∀ d k1, s ≤ k1 → k1 + d + 1 < s + n → f k1 < f (k1 + d + 1)
  | 0, k1, h1, h2 => by have := h (k1 + 1) (by omega) (by omega); simpa using this
  | d+1, k1, h1, h2 => by
    have a := strict_of_steps f s n h d k1 h1 (by omega)
    have b := h (k1 + (d + 1) + 1) (by omega) (by omega)
    have e : k1 + (d + 1) + 1 - 1 = k1 + d + 1 := by omega
    rw [e] at b
    omega

/-- a strictly increasing sequence takes each value at most once -/
theorem filter_eq_le_one (f : Nat → Nat) (i : Nat) : ∀ (n s : Nat), (∀ k, s < k → k < s + n → f (k - 1) < f k) →
    ((List.range' s n).filter fun k => f k == i).length ≤ 1
  | 0, s, _ => by simp
  | n+1, s, h => by
    rw [List.range'_succ, List.filter_cons]
    have ih := filter_eq_le_one f i n (s + 1) (fun k h1 h2 => h k (by omega) (by omega))
    by_cases hs : f s = i
    · have hnone : (List.range' (s + 1) n).filter (fun k => f k == i) = [] := by
        rw [List.filter_eq_nil_iff]
        intro k hk
        rw [List.mem_range'_1] at hk
        have := strict_of_steps f s (n + 1) h (k - s - 1) s (Nat.le_refl _) (by omega)
        have e : s + (k - s - 1) + 1 = k := by omega
        rw [e] at this
        simp; omega
      simp [hs, hnone]
    · simp [hs]; exact ih

/-- well-formed compressed storage -/
structure WF (A : Csc K) : Prop where
  outer_size : A.outer.size = A.cols + 1
  first : A.outer.getD 0 0 = 0
  mono : Mono A
  fits : A.outer.getD A.cols 0 ≤ A.inner.size ∧ A.outer.getD A.cols 0 ≤ A.vals.size
  rows_lt : ∀ j, j < A.cols → ∀ k ∈ A.colRange j, A.inner.getD k 0 < A.rows

/-- the columns in which row `i` of `A` has a stored entry, in the order of `entries` -/
def colsOfRow [Zero K] (A : Csc K) (i : Nat) : List Nat := (rowOf (entries A) i).map (·.2.1)

theorem colsOfRow_eq [Zero K] (A : Csc K) (i : Nat) :
    colsOfRow A i = (List.range A.cols).flatMap fun j => ((A.colRange j).filter fun k => A.inner.getD k 0 == i).map fun _ => j := by
  unfold colsOfRow rowOf entries
  rw [List.filter_flatMap, List.map_flatMap]
  congr 1
  funext j
  rw [List.filter_map, List.map_map]
  rfl

theorem mem_colsOfRow [Zero K] (A : Csc K) (i j : Nat) (h : j ∈ colsOfRow A i) :
    j < A.cols ∧ ∃ k ∈ A.colRange j, A.inner.getD k 0 = i := by
  rw [colsOfRow_eq, List.mem_flatMap] at h
  obtain ⟨j', hj', hm⟩ := h
  rw [List.mem_map] at hm
  obtain ⟨k, hk, rfl⟩ := hm
  rw [List.mem_filter] at hk
  exact ⟨List.mem_range.mp hj', k, hk.1, by simpa using hk.2⟩

theorem colsOfRow_nodup [Zero K] (A : Csc K) (i : Nat)
    (hinc : ∀ j, j < A.cols → ∀ k ∈ A.colRange j, A.outer.getD j 0 < k → A.inner.getD (k - 1) 0 < A.inner.getD k 0) :
    (colsOfRow A i).Nodup := by
  rw [colsOfRow_eq, List.nodup_flatMap]
  constructor
  · intro j hj
    have hj' := List.mem_range.mp hj
    have hle : ((A.colRange j).filter fun k => A.inner.getD k 0 == i).length ≤ 1 := by
      unfold colRange
      apply filter_eq_le_one (fun k => A.inner.getD k 0) i
      intro k h1 h2
      exact hinc j hj' k (by unfold colRange; rw [List.mem_range'_1]; omega) h1
    generalize ((A.colRange j).filter fun k => A.inner.getD k 0 == i) = l at hle
    match l, hle with
    | [], _ => simp
    | [x], _ => simp
    | x :: y :: l', h => simp at h
  · have := List.nodup_range (n := A.cols)
    refine List.Pairwise.imp ?_ this
    intro a b hab x hx hy
    rw [List.mem_map] at hx hy
    obtain ⟨_, _, rfl⟩ := hx
    obtain ⟨_, _, h⟩ := hy
    exact hab h.symm

/-- **the guard of sparse `update()` implies the precondition of the in-place transpose**: when `is_transpose_pattern(A, C)` answers
    `true` for well-formed `A` and `C`, `C` is laid out as `Aᵀ` (`TransposeReady`), so `transpose_no_allocation(A, C)` leaves `Aᵀ` in `C`
    (`transposeInto_get`) and never writes outside a column of `C` -/
theorem guard_ready [Zero K] (A C : Csc K) (hA : WF A) (hC : WF C) (h : isTransposePattern A C = true) : TransposeReady A C := by
  obtain ⟨g1, g2, g3, g4⟩ := guard_facts A C h
  have hrows : ∀ e ∈ entries A, e.1 < A.rows := by
    intro e he
    unfold entries at he
    rw [List.mem_flatMap] at he
    obtain ⟨j, hj, hm⟩ := he
    rw [List.mem_map] at hm
    obtain ⟨k, hk, rfl⟩ := hm
    exact hA.rows_lt j (List.mem_range.mp hj) k hk
  -- per row: its entries fit in the column of C
  have hle : ∀ i, i < A.rows → (rowOf (entries A) i).length ≤ C.outer.getD (i + 1) 0 - C.outer.getD i 0 := by
    intro i hi
    have hnd := colsOfRow_nodup A i (fun j hj k hk hlt => (g4 j hj k hk).1 hlt)
    have hsub : colsOfRow A i ⊆ (List.range' (C.outer.getD i 0) (C.outer.getD (i + 1) 0 - C.outer.getD i 0)).map fun q => C.inner.getD q 0 := by
      intro j hj
      obtain ⟨hjc, k, hk, hik⟩ := mem_colsOfRow A i j hj
      obtain ⟨_, f2, f3⟩ := g4 j hjc k hk
      rw [hik] at f2 f3
      have hmono := hC.mono i (by omega)
      obtain ⟨r1, r2⟩ := bsearch_range C.inner j (C.outer.getD i 0) (C.outer.getD (i + 1) 0) hmono
      rw [List.mem_map]
      exact ⟨_, by rw [List.mem_range'_1]; omega, f3⟩
    have := (hnd.subperm hsub).length_le
    simpa [colsOfRow] using this
  -- totals agree
  have hsumA : ((List.range A.rows).map fun i => (rowOf (entries A) i).length).sum = A.outer.getD A.cols 0 := by
    rw [← length_eq_sum_rows (entries A) A.rows hrows, entries_length A hA.mono, hA.first, Nat.sub_zero]
  have hsumC : ((List.range A.rows).map fun i => C.outer.getD (i + 1) 0 - C.outer.getD i 0).sum = C.outer.getD C.cols 0 := by
    have := (telescope (fun j => C.outer.getD j 0) A.rows (fun j hj => hC.mono j (by omega))).1
    rw [this, hC.first, Nat.sub_zero, g2]
  have heq := sum_le_eq (fun i => (rowOf (entries A) i).length) (fun i => C.outer.getD (i + 1) 0 - C.outer.getD i 0) A.rows hle
    (by rw [hsumA, hsumC, g3])
  refine ⟨by rw [hC.outer_size, g2], hrows, ?_, hC.first, by rw [g2]; exact hC.fits⟩
  intro i hi
  have := heq i hi
  have := hC.mono i (by omega)
  omega

/-- the update path in one statement: a sparse `A` accepted by the guard is transposed correctly into the stored `AT` -/
theorem guarded_transpose [Zero K] [Add K] (A C : Csc K) (hA : WF A) (hC : WF C) (h : isTransposePattern A C = true)
    (i j : Nat) (hi : i < A.rows) (hj : j < A.cols) :
    (A.transposeInto C).get j i = A.get i j ∧ (A.transposeInto C).outer = C.outer :=
  ⟨transposeInto_get A C (guard_ready A C hA hC h) i j hi hj, transposeInto_outer A C (guard_ready A C hA hC h)⟩

theorem mem_colList (r c : Nat) (ent : Array (Option K)) (j : Nat) (e : Nat × K) (he : e ∈ colList r c ent j) : e.1 < r := by
  unfold colList at he
  rw [List.mem_filterMap] at he
  obtain ⟨i, hi, hm⟩ := he
  cases hg : ent.getD (i * c + j) none with
  | none => rw [hg] at hm; cases hm
  | some v => rw [hg] at hm; simp at hm; subst hm; exact List.mem_range.mp hi

/-- the arrays built from a raw matrix are well-formed -/
theorem ofOpt_wf [Zero K] (r c : Nat) (ent : Array (Option K)) : WF (ofOpt r c ent) where
  outer_size := by
    have h : (ofOpt r c ent).outer.toList = (List.range (c + 1)).map (fun t => (preList r c ent t).length) := (ofOpt_state r c ent c).1
    have : (ofOpt r c ent).outer.size = (ofOpt r c ent).outer.toList.length := by simp
    rw [this, h]; simp; rfl
  first := by rw [ofOpt_outer r c ent 0 (by omega)]; simp [preList]
  mono := ofOpt_mono r c ent
  fits := by
    have h2 : (ofOpt r c ent).inner.toList = (preList r c ent c).map (·.1) := (ofOpt_state r c ent c).2.1
    have h3 : (ofOpt r c ent).vals.toList = (preList r c ent c).map (·.2) := (ofOpt_state r c ent c).2.2
    have e2 : (ofOpt r c ent).inner.size = (ofOpt r c ent).inner.toList.length := by simp
    have e3 : (ofOpt r c ent).vals.size = (ofOpt r c ent).vals.toList.length := by simp
    have hc : (ofOpt r c ent).cols = c := rfl
    rw [hc, ofOpt_outer r c ent c (Nat.le_refl _), e2, e3, h2, h3]
    simp
  rows_lt := by
    intro j hj k hk
    have hc : (ofOpt r c ent).cols = c := rfl
    rw [hc] at hj
    rw [ofOpt_colRange r c ent j hj, List.mem_range'_1] at hk
    have := ofOpt_entry r c ent j hj (k - (preList r c ent j).length) (by omega)
    rw [show (preList r c ent j).length + (k - (preList r c ent j).length) = k by omega] at this
    have h1 : (ofOpt r c ent).inner.getD k 0 = ((colList r c ent j)[k - (preList r c ent j).length]'(by omega)).1 := by
      rw [← this]
    rw [h1]
    exact mem_colList r c ent j _ (List.getElem_mem _)
end Piqp.Csc

/-! ## Storage level: the guard is complete as well (binary search finds what is there) -/

namespace Piqp.Csc
variable {K : Type}

/-- the binary search of `is_transpose_pattern` finds a value that is present in a strictly increasing segment -/
theorem bsearch_finds (inner : Array Nat) (j q L H : Nat)
    (hmono : ∀ a b, L ≤ a → a < b → b < H → inner.getD a 0 < inner.getD b 0) (hqH : q < H) (hj : inner.getD q 0 = j)
    (lo hi : Nat) (hL : L ≤ lo) (hH : hi ≤ H) (h1 : lo ≤ q) (h2 : q ≤ hi) : bsearch inner j lo hi = q := by
  fun_induction bsearch inner j lo hi
  case case1 lo hi hlt mid hmid ih =>
    -- inner[mid] < j = inner[q]  ⇒  mid < q
    have hmq : mid < q := by
      rcases Nat.lt_or_ge mid q with h | h
      · exact h
      · exfalso
        rcases Nat.lt_or_eq_of_le h with h' | h'
        · have := hmono q mid (by omega) h' (by omega)
          omega
        · subst h'; omega
    exact ih (by omega) hH (by omega) h2
  case case2 lo hi hlt mid hmid ih =>
    have hqm : q ≤ mid := by
      rcases Nat.lt_or_ge mid q with h | h
      · exfalso
        have := hmono mid q (by omega) h hqH
        omega
      · exact h
    exact ih hL (by omega) h1 hqm
  case case3 lo hi hlt => omega

/-- **the guard accepts every matching pair** (completeness; `guard_ready` is the soundness half): matching dimensions and entry
    counts, strictly increasing rows in every column of `A` and of `C`, and every stored entry `(i, j)` of `A` present as row `j` in
    column `i` of `C` make `is_transpose_pattern(A, C)` answer `true` — a valid sparse `update()` is never rejected -/
theorem guard_complete (A C : Csc K) (hd1 : A.cols = C.rows) (hd2 : A.rows = C.cols)
    (hnnz : A.outer.getD A.cols 0 = C.outer.getD C.cols 0)
    (hAinc : ∀ j, j < A.cols → ∀ k ∈ A.colRange j, A.outer.getD j 0 < k → A.inner.getD (k - 1) 0 < A.inner.getD k 0)
    (hCinc : ∀ i, i < C.cols → ∀ a b, C.outer.getD i 0 ≤ a → a < b → b < C.outer.getD (i + 1) 0 → C.inner.getD a 0 < C.inner.getD b 0)
    (hrows : ∀ j, j < A.cols → ∀ k ∈ A.colRange j, A.inner.getD k 0 < A.rows)
    (hfound : ∀ j, j < A.cols → ∀ k ∈ A.colRange j, ∃ q, C.outer.getD (A.inner.getD k 0) 0 ≤ q ∧ q < C.outer.getD (A.inner.getD k 0 + 1) 0 ∧
      C.inner.getD q 0 = j) :
    isTransposePattern A C = true := by
  unfold isTransposePattern
  have hd : ¬ ((A.cols ≠ C.rows || A.rows ≠ C.cols || A.outer.getD A.cols 0 ≠ C.outer.getD C.cols 0) = true) := by
    simp only [ne_eq, Bool.or_eq_true, decide_eq_true_eq, not_or, not_not]
    exact ⟨⟨hd1, hd2⟩, hnnz⟩
  rw [if_neg hd, List.all_eq_true]
  intro j hj
  have hj' := List.mem_range.mp hj
  rw [List.all_eq_true]
  intro k hk
  obtain ⟨q, q1, q2, q3⟩ := hfound j hj' k hk
  have hi := hrows j hj' k hk
  have hb := bsearch_finds C.inner j q (C.outer.getD (A.inner.getD k 0) 0) (C.outer.getD (A.inner.getD k 0 + 1) 0)
    (hCinc (A.inner.getD k 0) (by omega)) q2 q3 _ _ (Nat.le_refl _) (Nat.le_refl _) q1 (by omega)
  simp only [hb, Bool.and_eq_true, Bool.not_eq_true', Bool.and_eq_false_iff, decide_eq_false_iff_not, Bool.or_eq_false_iff,
    beq_eq_false_iff_ne, bne_eq_false_iff_eq, Nat.not_le]
  refine ⟨?_, by omega, q3⟩
  by_cases hlt : A.outer.getD j 0 < k
  · right; exact hAinc j hj' k hk hlt
  · left; exact hlt
end Piqp.Csc

/-! ## Storage level: the symmetric permutation's structure and slot map depend on the pattern only -/

namespace Piqp.Csc
variable {K : Type}

theorem foldl_proj {σ τ α : Type} (f : σ → α → σ) (g : τ → α → τ) (π : σ → τ) (h : ∀ s a, π (f s a) = g (π s) a) :
    ∀ (l : List α) (s : σ), π (l.foldl f s) = l.foldl g (π s)
  | [], _ => rfl
  | a :: l, s => by rw [List.foldl_cons, List.foldl_cons, foldl_proj f g π h l, h]

/-- the first bucket pass of `permuteSym` without its value array -/
def pass1Pattern (A : Csc K) (pinv : Array Nat) (n tot : Nat) (w : Array Nat) : Array Nat × Array Nat × Array Nat :=
  (List.range n).foldl (fun (st : Array Nat × Array Nat × Array Nat) j =>
    let j2 := pinv.getD j 0
    ((A.colRange j).filter fun k => A.inner.getD k 0 ≤ j).foldl (fun st k =>
      let i2 := pinv.getD (A.inner.getD k 0) 0
      let col := if i2 < j2 then i2 else j2
      let q := st.1.getD col 0
      (st.1.modify col (· + 1), st.2.1.setIfInBounds q (if i2 > j2 then i2 else j2), st.2.2.setIfInBounds q k)) st)
    (w, Array.replicate tot 0, Array.replicate tot 0)

theorem pass1_proj [Zero K] (A : Csc K) (pinv : Array Nat) (n tot : Nat) (w : Array Nat) :
    (fun (st : Array Nat × Array Nat × Array K × Array Nat) => (st.1, st.2.1, st.2.2.2))
      ((List.range n).foldl (fun (st : Array Nat × Array Nat × Array K × Array Nat) j =>
        let j2 := pinv.getD j 0
        ((A.colRange j).filter fun k => A.inner.getD k 0 ≤ j).foldl (fun st k =>
          let (w, inn, vl, back) := st
          let i2 := pinv.getD (A.inner.getD k 0) 0
          let col := if i2 < j2 then i2 else j2
          let q := w.getD col 0
          (w.modify col (· + 1), inn.setIfInBounds q (if i2 > j2 then i2 else j2), vl.setIfInBounds q (A.vals.getD k 0), back.setIfInBounds q k)) st)
        (w, Array.replicate tot 0, Array.replicate tot 0, Array.replicate tot 0)) = pass1Pattern A pinv n tot w := by
  unfold pass1Pattern
  refine foldl_proj _ _ (fun (st : Array Nat × Array Nat × Array K × Array Nat) => (st.1, st.2.1, st.2.2.2)) (fun st j => ?_) _ _
  exact foldl_proj _ _ (fun (st : Array Nat × Array Nat × Array K × Array Nat) => (st.1, st.2.1, st.2.2.2)) (fun st k => rfl) _ _

/-- the first counting pass (pattern only) -/
def permCount (A : Csc K) (pinv : Array Nat) : Array Nat :=
  (List.range A.rows).foldl (fun (w : Array Nat) j =>
    let j2 := pinv.getD j 0
    ((A.colRange j).filter fun k => A.inner.getD k 0 ≤ j).foldl (fun w k => let i2 := pinv.getD (A.inner.getD k 0) 0; w.modify (if i2 < j2 then i2 else j2) (· + 1)) w) (Array.replicate A.rows 0)

def permCtOuter (A : Csc K) (pinv : Array Nat) : Array Nat :=
  (List.range A.rows).foldl (fun (o : Array Nat) i => o.push (o.getD i 0 + (permCount A pinv).getD i 0)) #[0]

/-- the second bucket pass without its value array -/
def pass2Pattern (n tot : Nat) (ctOuter ctInner ctBack w2 : Array Nat) (nnzA : Nat) : Array Nat × Array Nat × Array Nat :=
  (List.range n).foldl (fun (st : Array Nat × Array Nat × Array Nat) j =>
    (List.range' (ctOuter.getD j 0) (ctOuter.getD (j + 1) 0 - ctOuter.getD j 0)).foldl (fun st k =>
      let i := ctInner.getD k 0
      let q := st.1.getD i 0
      (st.1.modify i (· + 1), st.2.1.setIfInBounds q j, st.2.2.setIfInBounds (ctBack.getD k 0) q)) st)
    (w2, Array.replicate tot 0, Array.replicate nnzA 0)

theorem pass2_proj [Zero K] (n tot : Nat) (ctOuter ctInner ctBack w2 : Array Nat) (ctVals : Array K) (nnzA : Nat) :
    (fun (st : Array Nat × Array Nat × Array K × Array Nat) => (st.1, st.2.1, st.2.2.2))
      ((List.range n).foldl (fun (st : Array Nat × Array Nat × Array K × Array Nat) j =>
        (List.range' (ctOuter.getD j 0) (ctOuter.getD (j + 1) 0 - ctOuter.getD j 0)).foldl (fun st k =>
          let (w, inn, vl, map) := st
          let i := ctInner.getD k 0
          let q := w.getD i 0
          (w.modify i (· + 1), inn.setIfInBounds q j, vl.setIfInBounds q (ctVals.getD k 0), map.setIfInBounds (ctBack.getD k 0) q)) st)
        (w2, Array.replicate tot 0, Array.replicate tot 0, Array.replicate nnzA 0)) =
      pass2Pattern n tot ctOuter ctInner ctBack w2 nnzA := by
  unfold pass2Pattern
  refine foldl_proj _ _ (fun (st : Array Nat × Array Nat × Array K × Array Nat) => (st.1, st.2.1, st.2.2.2)) (fun st j => ?_) _ _
  exact foldl_proj _ _ (fun (st : Array Nat × Array Nat × Array K × Array Nat) => (st.1, st.2.1, st.2.2.2)) (fun st k => rfl) _ _

/-- column starts, row indices and slot map of `permute_sparse_symmetric_matrix`, computed from the pattern of `A` alone -/
def permPattern (A : Csc K) (pinv : Array Nat) : Array Nat × Array Nat × Array Nat :=
  let n := A.rows
  let ctOuter := permCtOuter A pinv
  let tot := ctOuter.getD n 0
  let p1 := pass1Pattern A pinv n tot (ctOuter.extract 0 n)
  let cnt := (List.range tot).foldl (fun (c : Array Nat) k => c.modify (p1.2.1.getD k 0) (· + 1)) (Array.replicate n 0)
  let cOuter := (List.range n).foldl (fun (o : Array Nat) j => o.push (o.getD j 0 + cnt.getD j 0)) #[0]
  let p2 := pass2Pattern n tot ctOuter p1.2.1 p1.2.2 (cOuter.extract 0 n) (A.outer.getD A.cols 0)
  (cOuter, p2.2.1, p2.2.2)

def pass1Full [Zero K] (A : Csc K) (pinv : Array Nat) (n tot : Nat) (w : Array Nat) : Array Nat × Array Nat × Array K × Array Nat :=
  (List.range n).foldl (fun (st : Array Nat × Array Nat × Array K × Array Nat) j =>
    let j2 := pinv.getD j 0
    ((A.colRange j).filter fun k => A.inner.getD k 0 ≤ j).foldl (fun st k =>
      let (w, inn, vl, back) := st
      let i2 := pinv.getD (A.inner.getD k 0) 0
      let col := if i2 < j2 then i2 else j2
      let q := w.getD col 0
      (w.modify col (· + 1), inn.setIfInBounds q (if i2 > j2 then i2 else j2), vl.setIfInBounds q (A.vals.getD k 0), back.setIfInBounds q k)) st)
    (w, Array.replicate tot 0, Array.replicate tot 0, Array.replicate tot 0)

def pass2Full [Zero K] (n tot : Nat) (ctOuter ctInner ctBack w2 : Array Nat) (ctVals : Array K) (nnzA : Nat) : Array Nat × Array Nat × Array K × Array Nat :=
  (List.range n).foldl (fun (st : Array Nat × Array Nat × Array K × Array Nat) j =>
    (List.range' (ctOuter.getD j 0) (ctOuter.getD (j + 1) 0 - ctOuter.getD j 0)).foldl (fun st k =>
      let (w, inn, vl, map) := st
      let i := ctInner.getD k 0
      let q := w.getD i 0
      (w.modify i (· + 1), inn.setIfInBounds q j, vl.setIfInBounds q (ctVals.getD k 0), map.setIfInBounds (ctBack.getD k 0) q)) st)
    (w2, Array.replicate tot 0, Array.replicate tot 0, Array.replicate nnzA 0)

/-- `permuteSym` with its two bucket passes named -/
def permuteSymStaged [Zero K] (A : Csc K) (pinv : Array Nat) : Csc K × Array Nat :=
  let n := A.rows
  let ctOuter := permCtOuter A pinv
  let tot := ctOuter.getD n 0
  let st := pass1Full A pinv n tot (ctOuter.extract 0 n)
  let cnt := (List.range tot).foldl (fun (c : Array Nat) k => c.modify (st.2.1.getD k 0) (· + 1)) (Array.replicate n 0)
  let cOuter := (List.range n).foldl (fun (o : Array Nat) j => o.push (o.getD j 0 + cnt.getD j 0)) #[0]
  let st2 := pass2Full n tot ctOuter st.2.1 st.2.2.2 (cOuter.extract 0 n) st.2.2.1 (A.outer.getD A.cols 0)
  ({ rows := n, cols := n, outer := cOuter, inner := st2.2.1, vals := st2.2.2.1 }, st2.2.2.2)

theorem permuteSym_staged [Zero K] (A : Csc K) (pinv : Array Nat) : permuteSym A pinv = permuteSymStaged A pinv := rfl

/-- **the structure of `C = A(p,p)` and the slot map depend on the pattern of `A` only**: `permute_sparse_symmetric_matrix` may be run
    once at `setup()` and its map reused for every later value update with the same pattern -/
theorem permuteSym_pattern [Zero K] (A : Csc K) (pinv : Array Nat) :
    ((permuteSym A pinv).1.outer, (permuteSym A pinv).1.inner, (permuteSym A pinv).2) = permPattern A pinv := by
  rw [permuteSym_staged]
  unfold permuteSymStaged permPattern
  simp only
  have h1 : (fun (st : Array Nat × Array Nat × Array K × Array Nat) => (st.1, st.2.1, st.2.2.2))
      (pass1Full A pinv A.rows ((permCtOuter A pinv).getD A.rows 0) ((permCtOuter A pinv).extract 0 A.rows)) =
      pass1Pattern A pinv A.rows ((permCtOuter A pinv).getD A.rows 0) ((permCtOuter A pinv).extract 0 A.rows) := pass1_proj A pinv _ _ _
  simp only at h1
  generalize pass1Full A pinv A.rows ((permCtOuter A pinv).getD A.rows 0) ((permCtOuter A pinv).extract 0 A.rows) = st at h1 ⊢
  generalize pass1Pattern A pinv A.rows ((permCtOuter A pinv).getD A.rows 0) ((permCtOuter A pinv).extract 0 A.rows) = p1 at h1 ⊢
  have e1 : st.2.1 = p1.2.1 := by rw [← h1]
  have e2 : st.2.2.2 = p1.2.2 := by rw [← h1]
  rw [e1, e2]
  generalize ((List.range A.rows).foldl (fun (o : Array Nat) j => o.push (o.getD j 0 +
      ((List.range ((permCtOuter A pinv).getD A.rows 0)).foldl (fun (c : Array Nat) k => c.modify (p1.2.1.getD k 0) (· + 1)) (Array.replicate A.rows 0)).getD j 0)) #[0]) = cOuter
  have h2 : (fun (st : Array Nat × Array Nat × Array K × Array Nat) => (st.1, st.2.1, st.2.2.2))
      (pass2Full A.rows ((permCtOuter A pinv).getD A.rows 0) (permCtOuter A pinv) p1.2.1 p1.2.2 (cOuter.extract 0 A.rows) st.2.2.1 (A.outer.getD A.cols 0)) =
      pass2Pattern A.rows ((permCtOuter A pinv).getD A.rows 0) (permCtOuter A pinv) p1.2.1 p1.2.2 (cOuter.extract 0 A.rows) (A.outer.getD A.cols 0) :=
    pass2_proj _ _ _ _ _ _ _ _
  simp only at h2
  rw [← h2]

/-- in particular a matrix with the same pattern and other values gets the same structure and the same slot map -/
theorem permuteSym_values_irrelevant [Zero K] (A : Csc K) (pinv : Array Nat) (v' : Array K) :
    (permuteSym { A with vals := v' } pinv).1.outer = (permuteSym A pinv).1.outer ∧
    (permuteSym { A with vals := v' } pinv).1.inner = (permuteSym A pinv).1.inner ∧
    (permuteSym { A with vals := v' } pinv).2 = (permuteSym A pinv).2 := by
  have a := permuteSym_pattern A pinv
  have b := permuteSym_pattern { A with vals := v' } pinv
  have e : permPattern { A with vals := v' } pinv = permPattern A pinv := rfl
  rw [e, ← a] at b
  exact ⟨congrArg (·.1) b, congrArg (·.2.1) b, congrArg (·.2.2) b⟩
end Piqp.Csc

namespace Piqp.Csc
variable {K : Type} [CommSemiring K]

/-- the sparse Ruiz preconditioner's two-sided scaling of `Aᵀ`, `Gᵀ` (`pre_mult_diagonal` then `post_mult_diagonal`) at storage
    level: entry `(i, j)` becomes `dl(i) · a(i,j) · dr(j)`, which is the dense `scaleMat` of the model (C15) -/
theorem get_scale_both (A : Csc K) (hm : Mono A) (dl dr : Array K) (i j : Nat) (hj : j < A.cols) :
    ((A.preMultDiag dl).postMultDiag dr).get i j = A.get i j * dl.getD i 0 * dr.getD j 0 := by
  have hm' : Mono (A.preMultDiag dl) := hm
  rw [(get_postMultDiag (A.preMultDiag dl) hm' dr i j hj).1, (get_preMultDiag A hm dl i j hj).1]
end Piqp.Csc
