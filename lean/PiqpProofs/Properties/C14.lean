import PiqpProofs.Basic
import PiqpModel.LinAlg
import Mathlib.Tactic.Ring
import Mathlib.Tactic.FieldSimp
import Mathlib.Algebra.BigOperators.Fin
import Mathlib.Algebra.BigOperators.Ring.Finset

/-!
# C14 — factorisation and sparse kernels are exact on every pattern (spec level)

`ldlt` / `ldltSolve` are the dense Schur-complement recursions the model uses for every pivot-free LDLᵀ in the code
(sparse up-looking LDLt, dense LDLTNoPivot blocked/unblocked): in exact arithmetic the factors of a pivot-free LDLᵀ do not
depend on the loop order, and the exhaustive correspondence (check C14) compares the implementation's `L`, `D` and solves
with these definitions on every pattern for n ≤ 5.
-/

set_option linter.unusedSectionVars false
set_option linter.unusedSimpArgs false

namespace Piqp.C14
open Finset
variable {K : Type} [Field K] [DecidableEq K]

@[simp] theorem consV_zero {n : Nat} (a : K) (v : Vec K n) : (consV a v)[(0 : Fin (n+1))] = a := by
  simp [consV]

@[simp] theorem consV_succ {n : Nat} (a : K) (v : Vec K n) (i : Fin n) : (consV a v)[i.succ] = v[i] := by
  simp [consV]

@[simp] theorem colDiv_get {n : Nat} (A : Mat K (n+1) (n+1)) (d : K) (i : Fin n) :
    (colDiv A d)[i] = A[i.succ][(0 : Fin (n+1))] / d := by
  simp [colDiv]

@[simp] theorem schur_get {n : Nat} (A : Mat K (n+1) (n+1)) (l : Vec K n) (w : K) (i j : Fin n) :
    (schur A l w)[i][j] = A[i.succ][j.succ] - l[i] * w * l[j] := by
  simp [schur, Mat.ofFn]

theorem ldltSolve_correct : ∀ (n : Nat) (A : Mat K n n) (b x : Vec K n),
    (∀ i j : Fin n, A[i][j] = A[j][i]) → ldltSolve n A b = .ok x →
    ∀ i : Fin n, ∑ j : Fin n, A[i][j] * x[j] = b[i]
  | 0, _, _, _, _, _ => fun i => i.elim0
  | n+1, A, b, x, hsym, h => by
    unfold ldltSolve at h
    simp only at h
    split at h
    · simp at h
    · rename_i hd
      have hd0 : A[(0 : Fin (n+1))][(0 : Fin (n+1))] ≠ 0 := by simpa using hd
      split at h
      · simp at h
      · rename_i x' hx'
        simp only [Except.ok.injEq] at h
        subst h
        have hsymS : ∀ i j : Fin n, (schur A (colDiv A (A[(0 : Fin (n+1))][(0 : Fin (n+1))])) (A[(0 : Fin (n+1))][(0 : Fin (n+1))]))[i][j] =
            (schur A (colDiv A (A[(0 : Fin (n+1))][(0 : Fin (n+1))])) (A[(0 : Fin (n+1))][(0 : Fin (n+1))]))[j][i] := by
          intro i j
          simp only [schur_get, colDiv_get]
          rw [hsym i.succ j.succ]
          ring
        have ih := ldltSolve_correct n _ _ x' hsymS hx'
        intro i
        set d0 := A[(0 : Fin (n+1))][(0 : Fin (n+1))] with hd0def
        set l := colDiv A d0 with hl
        have hl' : ∀ k : Fin n, A[k.succ][(0 : Fin (n+1))] = l[k] * d0 := by
          intro k; rw [hl, colDiv_get]; field_simp
        have hT : sumFin n (fun k => l[k] * x'[k]) = ∑ k : Fin n, l[k] * x'[k] := sumFin_eq_sum n _
        rw [Fin.sum_univ_succ]
        simp only [consV_zero, consV_succ]
        rw [hT]
        refine Fin.cases ?_ (fun s => ?_) i
        · -- row 0
          have : ∀ k : Fin n, A[(0 : Fin (n+1))][k.succ] * x'[k] = d0 * (l[k] * x'[k]) := by
            intro k; rw [hsym 0 k.succ, hl' k]; ring
          simp only [this, ← Finset.mul_sum]
          field_simp
          ring
        · -- row s+1
          have ihs := ih s
          simp only [schur_get, Vector.getElem_ofFn] at ihs
          have e1 : ∑ k : Fin n, A[s.succ][k.succ] * x'[k] =
              (b[s.succ] - l[s] * b[(0 : Fin (n+1))]) + l[s] * d0 * ∑ k : Fin n, l[k] * x'[k] := by
            have : ∀ k : Fin n, A[s.succ][k.succ] * x'[k] = (A[s.succ][k.succ] - l[s] * d0 * l[k]) * x'[k] + l[s] * d0 * (l[k] * x'[k]) := by
              intro k; ring
            simp only [this, Finset.sum_add_distrib, ← Finset.mul_sum]
            rw [ihs]
            simp [Fin.getElem_fin, Vector.getElem_ofFn]
          rw [e1, hl' s]
          field_simp
          ring

theorem consL_00 {n : Nat} (d : K) (l : Vec K n) (L' : Mat K n n) : (consL d l L')[(0 : Fin (n+1))][(0 : Fin (n+1))] = d := by
  simp [consL, Mat.ofFn]
theorem consL_0s {n : Nat} (d : K) (l : Vec K n) (L' : Mat K n n) (j : Fin n) : (consL d l L')[(0 : Fin (n+1))][j.succ] = 0 := by
  simp [consL, Mat.ofFn]
theorem consL_s0 {n : Nat} (d : K) (l : Vec K n) (L' : Mat K n n) (i : Fin n) : (consL d l L')[i.succ][(0 : Fin (n+1))] = l[i] := by
  simp [consL, Mat.ofFn]
theorem consL_ss {n : Nat} (d : K) (l : Vec K n) (L' : Mat K n n) (i j : Fin n) : (consL d l L')[i.succ][j.succ] = L'[i][j] := by
  simp [consL, Mat.ofFn]

/-- `A = L D Lᵀ` for the factors returned by the pivot-free LDLᵀ recursion -/
theorem ldlt_correct : ∀ (n : Nat) (A L : Mat K n n) (D : Vec K n),
    (∀ i j : Fin n, A[i][j] = A[j][i]) → ldlt n A = .ok (L, D) →
    ∀ i j : Fin n, ∑ k : Fin n, L[i][k] * D[k] * L[j][k] = A[i][j]
  | 0, _, _, _, _, _ => fun i => i.elim0
  | n+1, A, L, D, hsym, h => by
    unfold ldlt at h
    simp only at h
    split at h
    · simp at h
    · rename_i hd
      have hd0 : A[(0 : Fin (n+1))][(0 : Fin (n+1))] ≠ 0 := by simpa using hd
      split at h
      · simp at h
      · rename_i L' D' hx'
        simp only [Except.ok.injEq, Prod.mk.injEq] at h
        obtain ⟨hL, hD⟩ := h
        subst hL hD
        set d0 := A[(0 : Fin (n+1))][(0 : Fin (n+1))] with hd0def
        set l := colDiv A d0 with hl
        have hl' : ∀ k : Fin n, A[k.succ][(0 : Fin (n+1))] = l[k] * d0 := by
          intro k; rw [hl, colDiv_get]; field_simp
        have hsymS : ∀ i j : Fin n, (schur A l d0)[i][j] = (schur A l d0)[j][i] := by
          intro i j
          simp only [schur_get]
          rw [hsym i.succ j.succ]
          ring
        have ih := ldlt_correct n _ L' D' hsymS hx'
        intro i j
        rw [Fin.sum_univ_succ]
        refine Fin.cases ?_ (fun s => ?_) i <;> refine Fin.cases ?_ (fun t => ?_) j
        · simp only [consL_00, consL_0s, consV_zero, consV_succ, zero_mul, mul_zero, Finset.sum_const_zero, add_zero, one_mul, mul_one]
          rfl
        · simp only [consL_00, consL_0s, consL_s0, consV_zero, consV_succ, zero_mul, Finset.sum_const_zero, add_zero]
          rw [hsym 0 t.succ, hl' t]; ring
        · simp only [consL_00, consL_0s, consL_s0, consV_zero, consV_succ, mul_zero, Finset.sum_const_zero, add_zero]
          rw [hl' s]; ring
        · simp only [consL_s0, consL_ss, consV_zero, consV_succ]
          rw [ih s t, schur_get]
          ring

/-- `perm` followed by `permt` with the inverse table is the identity whenever the table inverts the permutation -/
theorem permt_perm_id {n : Nat} (p : Vector (Fin n) n) (b : Vec K n)
    (hinv : ∀ i : Fin n, p[(permInv p)[i]] = i) : permtVec p (permVec p b) = b := by
  unfold permtVec permVec
  apply Vector.ext
  intro i hi
  simp only [Vector.getElem_ofFn, Fin.getElem_fin]
  have := hinv ⟨i, hi⟩
  simp only [Fin.getElem_fin] at this
  simp [this]

/-- non-vacuity: a 2×2 quasi-definite matrix factorises and the theorem's hypotheses hold -/
example : ldlt 2 (#v[#v[(2 : ℚ), 1], #v[1, -3]] : Mat ℚ 2 2) =
    .ok (#v[#v[1, 0], #v[1/2, 1]], #v[2, -7/2]) := by
  decide +kernel

end Piqp.C14
