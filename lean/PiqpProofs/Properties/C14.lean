import PiqpProofs.Basic
import PiqpModel.LinAlg
import PiqpModel.Exec
import PiqpProofs.Properties.C13
import Mathlib.Data.Fintype.EquivFin
import Mathlib.Algebra.BigOperators.Group.Finset.Basic
import Mathlib.Tactic.Ring
import Mathlib.Tactic.FieldSimp
import Mathlib.Algebra.BigOperators.Fin
import Mathlib.Algebra.BigOperators.Ring.Finset

/-!
# C14 — factorisation and sparse kernels are exact on every pattern (spec level)

`ldlt` / `ldltSolve` are the dense Schur-complement recursions the model uses for every pivot-free LDLᵀ in the code
(sparse up-looking LDLt, dense LDLTNoPivot blocked/unblocked): in exact arithmetic the factors of a pivot-free LDLᵀ do not
depend on the loop order, and the exhaustive correspondence (check C14) compares the implementation's `L`, `D` and solves
with these definitions on every pattern for n ≤ 5.
-/

set_option linter.unusedSectionVars false
set_option linter.unusedSimpArgs false
set_option linter.unusedVariables false
set_option linter.unusedTactic false

namespace Piqp.C14
open Finset
variable {K : Type} [Field K] [DecidableEq K]

@[simp] theorem consV_zero {n : Nat} (a : K) (v : Vec K n) : (consV a v)[(0 : Fin (n+1))] = a := by
  simp [consV]

@[simp] theorem consV_succ {n : Nat} (a : K) (v : Vec K n) (i : Fin n) : (consV a v)[i.succ] = v[i] := by
  simp [consV]

@[simp] theorem colDiv_get {n : Nat} (A : Mat K (n+1) (n+1)) (d : K) (i : Fin n) :
    (colDiv A d)[i] = A[i.succ][(0 : Fin (n+1))] / d := by
  simp [colDiv]

@[simp] theorem schur_get {n : Nat} (A : Mat K (n+1) (n+1)) (l : Vec K n) (w : K) (i j : Fin n) :
    (schur A l w)[i][j] = A[i.succ][j.succ] - l[i] * w * l[j] := by
  simp [schur, Mat.ofFn]

theorem ldltSolve_correct : ∀ (n : Nat) (A : Mat K n n) (b x : Vec K n),
    (∀ i j : Fin n, A[i][j] = A[j][i]) → ldltSolve n A b = .ok x →
    ∀ i : Fin n, ∑ j : Fin n, A[i][j] * x[j] = b[i]
  | 0, _, _, _, _, _ => fun i => i.elim0
  | n+1, A, b, x, hsym, h => by
    unfold ldltSolve at h
    simp only at h
    split at h
    · simp at h
    · rename_i hd
      have hd0 : A[(0 : Fin (n+1))][(0 : Fin (n+1))] ≠ 0 := by simpa using hd
      split at h
      · simp at h
      · rename_i x' hx'
        simp only [Except.ok.injEq] at h
        subst h
        have hsymS : ∀ i j : Fin n, (schur A (colDiv A (A[(0 : Fin (n+1))][(0 : Fin (n+1))])) (A[(0 : Fin (n+1))][(0 : Fin (n+1))]))[i][j] =
            (schur A (colDiv A (A[(0 : Fin (n+1))][(0 : Fin (n+1))])) (A[(0 : Fin (n+1))][(0 : Fin (n+1))]))[j][i] := by
          intro i j
          simp only [schur_get, colDiv_get]
          rw [hsym i.succ j.succ]
          ring
        have ih := ldltSolve_correct n _ _ x' hsymS hx'
        intro i
        set d0 := A[(0 : Fin (n+1))][(0 : Fin (n+1))] with hd0def
        set l := colDiv A d0 with hl
        have hl' : ∀ k : Fin n, A[k.succ][(0 : Fin (n+1))] = l[k] * d0 := by
          intro k; rw [hl, colDiv_get]; field_simp
        have hT : sumFin n (fun k => l[k] * x'[k]) = ∑ k : Fin n, l[k] * x'[k] := sumFin_eq_sum n _
        rw [Fin.sum_univ_succ]
        simp only [consV_zero, consV_succ]
        rw [hT]
        refine Fin.cases ?_ (fun s => ?_) i
        · -- row 0
          have : ∀ k : Fin n, A[(0 : Fin (n+1))][k.succ] * x'[k] = d0 * (l[k] * x'[k]) := by
            intro k; rw [hsym 0 k.succ, hl' k]; ring
          simp only [this, ← Finset.mul_sum]
          field_simp
          ring
        · -- row s+1
          have ihs := ih s
          simp only [schur_get, Vector.getElem_ofFn] at ihs
          have e1 : ∑ k : Fin n, A[s.succ][k.succ] * x'[k] =
              (b[s.succ] - l[s] * b[(0 : Fin (n+1))]) + l[s] * d0 * ∑ k : Fin n, l[k] * x'[k] := by
            have : ∀ k : Fin n, A[s.succ][k.succ] * x'[k] = (A[s.succ][k.succ] - l[s] * d0 * l[k]) * x'[k] + l[s] * d0 * (l[k] * x'[k]) := by
              intro k; ring
            simp only [this, Finset.sum_add_distrib, ← Finset.mul_sum]
            rw [ihs]
            simp [Fin.getElem_fin, Vector.getElem_ofFn]
          rw [e1, hl' s]
          field_simp
          ring

theorem consL_00 {n : Nat} (d : K) (l : Vec K n) (L' : Mat K n n) : (consL d l L')[(0 : Fin (n+1))][(0 : Fin (n+1))] = d := by
  simp [consL, Mat.ofFn]
theorem consL_0s {n : Nat} (d : K) (l : Vec K n) (L' : Mat K n n) (j : Fin n) : (consL d l L')[(0 : Fin (n+1))][j.succ] = 0 := by
  simp [consL, Mat.ofFn]
theorem consL_s0 {n : Nat} (d : K) (l : Vec K n) (L' : Mat K n n) (i : Fin n) : (consL d l L')[i.succ][(0 : Fin (n+1))] = l[i] := by
  simp [consL, Mat.ofFn]
theorem consL_ss {n : Nat} (d : K) (l : Vec K n) (L' : Mat K n n) (i j : Fin n) : (consL d l L')[i.succ][j.succ] = L'[i][j] := by
  simp [consL, Mat.ofFn]

/-- `A = L D Lᵀ` for the factors returned by the pivot-free LDLᵀ recursion -/
theorem ldlt_correct : ∀ (n : Nat) (A L : Mat K n n) (D : Vec K n),
    (∀ i j : Fin n, A[i][j] = A[j][i]) → ldlt n A = .ok (L, D) →
    ∀ i j : Fin n, ∑ k : Fin n, L[i][k] * D[k] * L[j][k] = A[i][j]
  | 0, _, _, _, _, _ => fun i => i.elim0
  | n+1, A, L, D, hsym, h => by
    unfold ldlt at h
    simp only at h
    split at h
    · simp at h
    · rename_i hd
      have hd0 : A[(0 : Fin (n+1))][(0 : Fin (n+1))] ≠ 0 := by simpa using hd
      split at h
      · simp at h
      · rename_i L' D' hx'
        simp only [Except.ok.injEq, Prod.mk.injEq] at h
        obtain ⟨hL, hD⟩ := h
        subst hL hD
        set d0 := A[(0 : Fin (n+1))][(0 : Fin (n+1))] with hd0def
        set l := colDiv A d0 with hl
        have hl' : ∀ k : Fin n, A[k.succ][(0 : Fin (n+1))] = l[k] * d0 := by
          intro k; rw [hl, colDiv_get]; field_simp
        have hsymS : ∀ i j : Fin n, (schur A l d0)[i][j] = (schur A l d0)[j][i] := by
          intro i j
          simp only [schur_get]
          rw [hsym i.succ j.succ]
          ring
        have ih := ldlt_correct n _ L' D' hsymS hx'
        intro i j
        rw [Fin.sum_univ_succ]
        refine Fin.cases ?_ (fun s => ?_) i <;> refine Fin.cases ?_ (fun t => ?_) j
        · simp only [consL_00, consL_0s, consV_zero, consV_succ, zero_mul, mul_zero, Finset.sum_const_zero, add_zero, one_mul, mul_one]
          rfl
        · simp only [consL_00, consL_0s, consL_s0, consV_zero, consV_succ, zero_mul, Finset.sum_const_zero, add_zero]
          rw [hsym 0 t.succ, hl' t]; ring
        · simp only [consL_00, consL_0s, consL_s0, consV_zero, consV_succ, mul_zero, Finset.sum_const_zero, add_zero]
          rw [hl' s]; ring
        · simp only [consL_s0, consL_ss, consV_zero, consV_succ]
          rw [ih s t, schur_get]
          ring

/-- `perm` followed by `permt` with the inverse table is the identity whenever the table inverts the permutation -/
theorem permt_perm_id {n : Nat} (p : Vector (Fin n) n) (b : Vec K n)
    (hinv : ∀ i : Fin n, p[(permInv p)[i]] = i) : permtVec p (permVec p b) = b := by
  unfold permtVec permVec
  apply Vector.ext
  intro i hi
  simp only [Vector.getElem_ofFn, Fin.getElem_fin]
  have := hinv ⟨i, hi⟩
  simp only [Fin.getElem_fin] at this
  simp [this]

/-- non-vacuity: a 2×2 quasi-definite matrix factorises and the theorem's hypotheses hold -/
example : ldlt 2 (#v[#v[(2 : ℚ), 1], #v[1, -3]] : Mat ℚ 2 2) =
    .ok (#v[#v[1, 0], #v[1/2, 1]], #v[2, -7/2]) := by
  decide +kernel


/-! ## The staged solve on stored factors, permutations and block assembly: the model's sparse inner solver is exact -/

theorem minorM_consL {n : Nat} (d : K) (l : Vec K n) (L' : Mat K n n) : minorM (consL d l L') = L' := by
  apply Vector.ext; intro i hi
  apply Vector.ext; intro j hj
  have := consL_ss d l L' ⟨i, hi⟩ ⟨j, hj⟩
  simp only [minorM, Mat.ofFn, Vector.getElem_ofFn]
  simpa using this

theorem tailV_consV {n : Nat} (a : K) (v : Vec K n) : tailV (consV a v) = v := by
  apply Vector.ext; intro i hi
  have := consV_succ a v ⟨i, hi⟩
  simp only [tailV, Vector.getElem_ofFn]
  simpa using this

theorem col0_consL {n : Nat} (d : K) (l : Vec K n) (L' : Mat K n n) :
    (Vector.ofFn fun i : Fin n => (consL d l L')[i.succ][(0 : Fin (n+1))]) = l := by
  apply Vector.ext; intro i hi
  have := consL_s0 d l L' ⟨i, hi⟩
  simp only [Vector.getElem_ofFn]
  simpa using this

/-- the staged solve (`solveLD` on the stored factors) is the elimination recursion `ldltSolve` -/
theorem solveLD_eq : ∀ (n : Nat) (A L : Mat K n n) (D b : Vec K n),
    ldlt n A = .ok (L, D) → ldltSolve n A b = .ok (solveLD n L D b)
  | 0, _, _, _, _, _ => by simp [ldltSolve, solveLD]
  | n+1, A, L, D, b, h => by
    simp only [ldlt] at h
    simp only [ldltSolve]
    split at h
    · cases h
    · rename_i hd
      simp only [hd, Bool.false_eq_true, if_false]
      cases hrec : ldlt n (schur A (colDiv A A[(0 : Fin (n+1))][(0 : Fin (n+1))]) A[(0 : Fin (n+1))][(0 : Fin (n+1))]) with
      | error k => rw [hrec] at h; cases h
      | ok LD =>
        obtain ⟨L', D'⟩ := LD
        rw [hrec] at h
        simp only [Except.ok.injEq, Prod.mk.injEq] at h
        obtain ⟨hL, hD⟩ := h
        subst hL; subst hD
        rw [solveLD_eq n _ L' D' _ hrec]
        simp only [solveLD, col0_consL, minorM_consL, tailV_consV, consV_zero]

/-- the index table is a permutation and `permInv` inverts it -/
def IsPerm {N : Nat} (p : Vector (Fin N) N) : Prop := ∀ i : Fin N, p[(permInv p)[i]] = i

theorem IsPerm.bij {N : Nat} {p : Vector (Fin N) N} (h : IsPerm p) : Function.Bijective (fun i : Fin N => p[i]) := by
  have hs : Function.Surjective (fun i : Fin N => p[i]) := by
    intro i
    exact ⟨(permInv p)[i], h i⟩
  exact ⟨(Finite.injective_iff_surjective (α := Fin N) (f := fun i : Fin N => p[i])).mpr hs, hs⟩

theorem IsPerm.left {N : Nat} {p : Vector (Fin N) N} (h : IsPerm p) (j : Fin N) : (permInv p)[p[j]] = j :=
  h.bij.1 (h (p[j]))

theorem permSym_get {N : Nat} (M : Mat K N N) (p : Vector (Fin N) N) (i j : Fin N) : (permSym M p)[i][j] = M[p[i]][p[j]] := by
  simp [permSym, Mat.ofFn]
theorem permVec_get {N : Nat} (p : Vector (Fin N) N) (b : Vec K N) (j : Fin N) : (permVec p b)[j] = b[p[j]] := by
  simp [permVec]
theorem permtVec_get {N : Nat} (p : Vector (Fin N) N) (b : Vec K N) (i : Fin N) : (permtVec p b)[i] = b[(permInv p)[i]] := by
  simp [permtVec]

/-- a solution of the symmetrically permuted system, permuted back, solves the original system -/
theorem perm_solve {N : Nat} (M : Mat K N N) (p : Vector (Fin N) N) (hp : IsPerm p) (rhs v : Vec K N)
    (h : ∀ i : Fin N, ∑ j : Fin N, (permSym M p)[i][j] * v[j] = (permVec p rhs)[i]) :
    ∀ r : Fin N, ∑ k : Fin N, M[r][k] * (permtVec p v)[k] = rhs[r] := by
  intro r
  obtain ⟨i, hr⟩ := hp.bij.2 r
  beta_reduce at hr
  subst hr
  have hi := h i
  simp only [permSym_get, permVec_get] at hi
  have hre := hp.bij.sum_comp (fun k : Fin N => M[p[i]][k] * (permtVec p v)[k])
  rw [← hre, ← hi]
  refine Finset.sum_congr rfl fun j _ => ?_
  beta_reduce
  rw [permtVec_get]
  congr 2
  exact hp.left j

section blocks
variable {n p m : Nat}

def ix (a : Fin n) : Fin (n + p + m) := ⟨a.val, by omega⟩
def iy (t : Fin p) : Fin (n + p + m) := ⟨n + t.val, by omega⟩
def iz (t : Fin m) : Fin (n + p + m) := ⟨n + p + t.val, by omega⟩

theorem decode_ix (a : Fin n) : Blk.decode (ix (p := p) (m := m) a) = Blk.x a := by
  simp [Blk.decode, ix, a.isLt]
theorem decode_iy (t : Fin p) : Blk.decode (iy (n := n) (m := m) t) = Blk.y t := by
  have h1 : ¬ (n + t.val < n) := by omega
  have h2 : n + t.val < n + p := by omega
  simp [Blk.decode, iy, h1, h2]
theorem decode_iz (t : Fin m) : Blk.decode (iz (n := n) (p := p) t) = Blk.z t := by
  have h1 : ¬ (n + p + t.val < n) := by omega
  have h2 : ¬ (n + p + t.val < n + p) := by omega
  unfold Blk.decode
  split
  · rename_i h; exact absurd h h1
  · split
    · rename_i h; exact absurd h h2
    · congr 1
      apply Fin.ext
      simp only [iz]; omega

/-- a sum over the assembled index range splits into the three blocks -/
theorem sum_blocks (f : Fin (n + p + m) → K) :
    ∑ k, f k = (∑ a : Fin n, f (ix a)) + (∑ t : Fin p, f (iy t)) + ∑ t : Fin m, f (iz t) := by
  rw [Fin.sum_univ_add, Fin.sum_univ_add]
  rfl


theorem matOfFn_get' {r c : Nat} (f : Fin r → Fin c → K) (i : Fin r) (j : Fin c) : (Mat.ofFn f)[i][j] = f i j := by
  simp [Mat.ofFn]
theorem ofFn_get' {α : Type} {q : Nat} (f : Fin q → α) (i : Fin q) : (Vector.ofFn f)[i] = f i := by simp

theorem assemble_get (be : Backend) (kb : KBlocks K n p m) (i j : Fin (n + p + m)) :
    (assemble be kb)[i][j] =
      match Blk.decode i, Blk.decode j with
      | .x a, .x b => kb.xx[a][b]
      | .x a, .y b => if be.keepY then kb.xy[a][b] else 0
      | .y a, .x b => if be.keepY then kb.xy[b][a] else 0
      | .x a, .z b => if be.keepZ then kb.xz[a][b] else 0
      | .z a, .x b => if be.keepZ then kb.xz[b][a] else 0
      | .y a, .y b => if a = b then (if be.keepY then kb.yy[a] else 1) else 0
      | .z a, .z b => if a = b then (if be.keepZ then kb.zz[a] else 1) else 0
      | .y _, .z _ => 0
      | .z _, .y _ => 0 := by
  unfold assemble
  rw [matOfFn_get']
  rfl

theorem assembleRhs_get (be : Backend) (rx : Vec K n) (ry : Vec K p) (rz : Vec K m) (i : Fin (n + p + m)) :
    (assembleRhs be rx ry rz)[i] =
      match Blk.decode (n := n) (p := p) (m := m) i with
      | .x a => rx[a]
      | .y a => if be.keepY then ry[a] else 0
      | .z a => if be.keepZ then rz[a] else 0 := by
  unfold assembleRhs
  rw [ofFn_get']
  rfl

theorem assemble_symm (be : Backend) (kb : KBlocks K n p m) (hxx : ∀ a b : Fin n, kb.xx[a][b] = kb.xx[b][a])
    (i j : Fin (n + p + m)) : (assemble be kb)[i][j] = (assemble be kb)[j][i] := by
  rw [assemble_get, assemble_get]
  cases Blk.decode i <;> cases Blk.decode j <;> simp only
  · exact hxx _ _
  · rename_i a b; by_cases h : a = b
    · subst h; simp
    · have : ¬ b = a := fun e => h e.symm
      simp [h, this]
  · rename_i a b; by_cases h : a = b
    · subst h; simp
    · have : ¬ b = a := fun e => h e.symm
      simp [h, this]


theorem M_xx (be : Backend) (kb : KBlocks K n p m) (a c : Fin n) : (assemble be kb)[ix (p := p) (m := m) a][ix (p := p) (m := m) c] = kb.xx[a][c] := by
  rw [assemble_get, decode_ix, decode_ix]
theorem M_xy (be : Backend) (kb : KBlocks K n p m) (a : Fin n) (t : Fin p) :
    (assemble be kb)[ix (p := p) (m := m) a][iy (n := n) (m := m) t] = if be.keepY then kb.xy[a][t] else 0 := by
  rw [assemble_get, decode_ix, decode_iy]
theorem M_xz (be : Backend) (kb : KBlocks K n p m) (a : Fin n) (t : Fin m) :
    (assemble be kb)[ix (p := p) (m := m) a][iz (n := n) (p := p) t] = if be.keepZ then kb.xz[a][t] else 0 := by
  rw [assemble_get, decode_ix, decode_iz]
theorem M_yx (be : Backend) (kb : KBlocks K n p m) (t : Fin p) (c : Fin n) :
    (assemble be kb)[iy (n := n) (m := m) t][ix (p := p) (m := m) c] = if be.keepY then kb.xy[c][t] else 0 := by
  rw [assemble_get, decode_iy, decode_ix]
theorem M_yy (be : Backend) (kb : KBlocks K n p m) (t u : Fin p) :
    (assemble be kb)[iy (n := n) (m := m) t][iy (n := n) (m := m) u] = if t = u then (if be.keepY then kb.yy[t] else 1) else 0 := by
  rw [assemble_get, decode_iy, decode_iy]
theorem M_yz (be : Backend) (kb : KBlocks K n p m) (t : Fin p) (u : Fin m) :
    (assemble be kb)[iy (n := n) (m := m) t][iz (n := n) (p := p) u] = 0 := by
  rw [assemble_get, decode_iy, decode_iz]
theorem M_zx (be : Backend) (kb : KBlocks K n p m) (t : Fin m) (c : Fin n) :
    (assemble be kb)[iz (n := n) (p := p) t][ix (p := p) (m := m) c] = if be.keepZ then kb.xz[c][t] else 0 := by
  rw [assemble_get, decode_iz, decode_ix]
theorem M_zy (be : Backend) (kb : KBlocks K n p m) (t : Fin m) (u : Fin p) :
    (assemble be kb)[iz (n := n) (p := p) t][iy (n := n) (m := m) u] = 0 := by
  rw [assemble_get, decode_iz, decode_iy]
theorem M_zz (be : Backend) (kb : KBlocks K n p m) (t u : Fin m) :
    (assemble be kb)[iz (n := n) (p := p) t][iz (n := n) (p := p) u] = if t = u then (if be.keepZ then kb.zz[t] else 1) else 0 := by
  rw [assemble_get, decode_iz, decode_iz]

theorem split_x (w : Vec K (n + p + m)) (c : Fin n) : (splitSol w).1[c] = w[ix (p := p) (m := m) c] := by
  simp only [splitSol, ofFn_get']; rfl
theorem split_y (w : Vec K (n + p + m)) (t : Fin p) : (splitSol w).2.1[t] = w[iy (n := n) (m := m) t] := by
  simp only [splitSol, ofFn_get']; rfl
theorem split_z (w : Vec K (n + p + m)) (t : Fin m) : (splitSol w).2.2[t] = w[iz (n := n) (p := p) t] := by
  simp only [splitSol, ofFn_get']; rfl


/-- **C14 → C13: the model's sparse inner solver is exact.** Whenever `innerLDLT` (assemble the kept blocks, permute
    symmetrically with the fill-reducing permutation, pivot-free LDLᵀ, solve, permute back, split) succeeds, the solve map it
    returns satisfies the hypothesis `InnerExact` of C13's elimination theorem — for every back end, every permutation, every
    symmetric (1,1) block. Together with `C13.factor_then_solve_exact` this makes the statement "the step solves the full
    Newton system" unconditional for the model's sparse back ends. -/
theorem innerLDLT_exact (be : Backend) (perm : Vector (Fin (n + p + m)) (n + p + m)) (hp : IsPerm perm)
    (kb : KBlocks K n p m) (hxx : ∀ a b : Fin n, kb.xx[a][b] = kb.xx[b][a]) (slv : SolveFn K n p m)
    (h : innerLDLT be perm kb = some slv) : C13.InnerExact be kb slv := by
  unfold innerLDLT at h
  cases hl : ldlt (n + p + m) (permSym (assemble be kb) perm) with
  | error k => rw [hl] at h; cases h
  | ok LD =>
    obtain ⟨L, D⟩ := LD
    rw [hl] at h
    simp only [Option.some.injEq] at h
    subst h
    intro rx ry rz
    have hs := solveLD_eq (n + p + m) _ L D (permVec perm (assembleRhs be rx ry rz)) hl
    have hsym : ∀ i j : Fin (n + p + m), (permSym (assemble be kb) perm)[i][j] = (permSym (assemble be kb) perm)[j][i] := by
      intro i j; rw [permSym_get, permSym_get]; exact assemble_symm be kb hxx _ _
    have hc := ldltSolve_correct (n + p + m) _ _ _ hsym hs
    have hw := perm_solve (assemble be kb) perm hp (assembleRhs be rx ry rz) _ hc
    set w := permtVec perm (solveLD (n + p + m) L D (permVec perm (assembleRhs be rx ry rz))) with hwdef
    refine ⟨fun j => ?_, fun hY t => ?_, fun hZ t => ?_⟩
    · have := hw (ix j)
      rw [sum_blocks, assembleRhs_get, decode_ix] at this
      simp only [M_xx, M_xy, M_xz] at this
      simp only [split_x, split_y, split_z]
      rcases Bool.eq_false_or_eq_true be.keepY with hY | hY <;> rcases Bool.eq_false_or_eq_true be.keepZ with hZ | hZ <;>
        simp only [hY, hZ, if_true, if_false, Bool.false_eq_true, zero_mul, Finset.sum_const_zero, add_zero] at this ⊢ <;>
        exact this
    · have := hw (iy t)
      rw [sum_blocks, assembleRhs_get, decode_iy] at this
      simp only [M_yx, M_yy, M_yz, hY, if_true, zero_mul, Finset.sum_const_zero, add_zero, ite_mul, Finset.sum_ite_eq, Finset.mem_univ] at this
      simp only [split_x, split_y]
      exact this
    · have := hw (iz t)
      rw [sum_blocks, assembleRhs_get, decode_iz] at this
      simp only [M_zx, M_zy, M_zz, hZ, if_true, zero_mul, Finset.sum_const_zero, add_zero, ite_mul, Finset.sum_ite_eq, Finset.mem_univ] at this
      simp only [split_x, split_z]
      exact this


section composite
variable {K : Type} [Field K] [LinearOrder K]

theorem coherent_xx_symm (be : Backend) (d : Data K n p m) (k : KKT K n p m) (hc : C13.Coherent be d k) (a b : Fin n) :
    k.k.xx[a][b] = k.k.xx[b][a] := by
  rw [hc.xx a b, hc.xx b a]
  have hP : d.Psym[a][b] = d.Psym[b][a] := by
    simp only [Data.Psym, C13.matOfFn_get]
    by_cases h1 : a.val ≤ b.val <;> by_cases h2 : b.val ≤ a.val
    · have : a = b := Fin.ext (Nat.le_antisymm h1 h2); subst this; rfl
    · simp [h1, h2]
    · simp [h1, h2]
    · omega
  have hA : (∑ t : Fin p, d.AT[a][t] * d.AT[b][t]) = ∑ t : Fin p, d.AT[b][t] * d.AT[a][t] :=
    Finset.sum_congr rfl fun t _ => mul_comm _ _
  have hG : (∑ t : Fin m, d.GT[a][t] * d.GT[b][t] / (k.s[t] * k.zinv[t] + k.delta)) =
      ∑ t : Fin m, d.GT[b][t] * d.GT[a][t] / (k.s[t] * k.zinv[t] + k.delta) :=
    Finset.sum_congr rfl fun t _ => by rw [mul_comm]
  rw [hP, hA, hG]
  by_cases hab : a = b
  · subst hab; rfl
  · have hba : ¬ b = a := fun e => hab e.symm
    simp only [hab, hba, if_false]

/-- **C13 + C14, unconditional for the model's sparse back ends**: factorise the coherent reduced matrix with the model's own
    inner solver (pivot-free LDLᵀ of the symmetrically permuted assembled matrix) and solve: the step solves the full
    regularised Newton system, for every permutation, whenever the factorisation meets no zero pivot. -/
theorem sparse_factor_then_solve_exact (be : Backend) (st : KKTSettings K) (d : Data K n p m) (k : KKT K n p m)
    (perm : Vector (Fin (n + p + m)) (n + p + m)) (hp : IsPerm perm)
    (r old out : Step K n p m) (hcoh : C13.Coherent be d k) (hin : C13.Interior d k)
    (h : KKT.solve be st d (KKT.regFactor be st d k false (innerLDLT be perm)) r old false = some out) :
    let back := KKT.multiply d k out old
    (∀ j : Fin n, back.x[j] = r.x[j]) ∧ (∀ t : Fin p, back.y[t] = r.y[t]) ∧ (∀ t : Fin m, back.z[t] = r.z[t]) ∧
    (∀ t : Fin m, back.s[t] = r.s[t]) := by
  cases hs : innerLDLT be perm k.k with
  | none =>
    have : (KKT.regFactor be st d k false (innerLDLT be perm)).fsol = none := by simp [KKT.regFactor, hs]
    unfold KKT.solve at h
    simp [this] at h
  | some slv =>
    have hf : (KKT.regFactor be st d k false (innerLDLT be perm)).fsol = some slv := by simp [KKT.regFactor, hs]
    have hcoh' : C13.Coherent be d (KKT.regFactor be st d k false (innerLDLT be perm)) := ⟨hcoh.xx, hcoh.xy, hcoh.yy, hcoh.xz, hcoh.zz⟩
    have hin' : C13.Interior d (KKT.regFactor be st d k false (innerLDLT be perm)) :=
      ⟨hin.delta, hin.zinv, hin.s, hin.w, hin.zinv_lb, hin.s_lb, hin.w_lb, hin.zinv_ub, hin.s_ub, hin.w_ub⟩
    have hex := innerLDLT_exact be perm hp k.k (coherent_xx_symm be d k hcoh) slv hs
    have res := C13.solve_solves_full_system be st d (KKT.regFactor be st d k false (innerLDLT be perm)) r old out slv hf hcoh' hex hin' h
    exact ⟨res.1, res.2.1, res.2.2.1, res.2.2.2.1⟩
end composite
end blocks

section llt
variable {K : Type} [Field K] [LinearOrder K]

/-- the square root the dense back end's Cholesky needs to be exact: `sqrt(x)² = x` for positive `x` -/
def ExactSqrt (sqrtF : K → K) : Prop := ∀ x : K, 0 < x → sqrtF x * sqrtF x = x

theorem lltSolve_correct (sqrtF : K → K) (hsq : ExactSqrt sqrtF) : ∀ (n : Nat) (A : Mat K n n) (b x : Vec K n),
    (∀ i j : Fin n, A[i][j] = A[j][i]) → lltSolve sqrtF n A b = .ok x →
    ∀ i : Fin n, ∑ j : Fin n, A[i][j] * x[j] = b[i]
  | 0, _, _, _, _, _ => fun i => i.elim0
  | n+1, A, b, x, hsym, h => by
    unfold lltSolve at h
    simp only at h
    split at h
    · simp at h
    · rename_i hpos
      have hpos' : 0 < A[(0 : Fin (n+1))][(0 : Fin (n+1))] := not_le.mp hpos
      split at h
      · simp at h
      · rename_i x' hx'
        simp only [Except.ok.injEq] at h
        subst h
        set l00 := sqrtF A[(0 : Fin (n+1))][(0 : Fin (n+1))] with hl00
        have hsq0 : l00 * l00 = A[(0 : Fin (n+1))][(0 : Fin (n+1))] := hsq _ hpos'
        have hne : l00 ≠ 0 := by
          intro h0; rw [h0, mul_zero] at hsq0; exact absurd hsq0.symm (ne_of_gt hpos')
        set l := colDiv A l00 with hl
        have hsymS : ∀ i j : Fin n, (schur A l 1)[i][j] = (schur A l 1)[j][i] := by
          intro i j
          simp only [schur_get]
          rw [hsym i.succ j.succ]; ring
        have ih := lltSolve_correct sqrtF hsq n _ _ x' hsymS hx'
        have hl' : ∀ k : Fin n, A[k.succ][(0 : Fin (n+1))] = l[k] * l00 := by
          intro k; rw [hl, colDiv_get]; field_simp
        have hT : sumFin n (fun k => l[k] * x'[k]) = ∑ k : Fin n, l[k] * x'[k] := sumFin_eq_sum n _
        intro i
        rw [Fin.sum_univ_succ]
        simp only [consV_zero, consV_succ]
        rw [hT]
        refine Fin.cases ?_ (fun s => ?_) i
        · have : ∀ k : Fin n, A[(0 : Fin (n+1))][k.succ] * x'[k] = l00 * (l[k] * x'[k]) := by
            intro k; rw [hsym 0 k.succ, hl' k]; ring
          simp only [this, ← Finset.mul_sum]
          rw [← hsq0]
          field_simp
          ring
        · have ihs := ih s
          simp only [schur_get, Vector.getElem_ofFn] at ihs
          have e1 : ∑ k : Fin n, A[s.succ][k.succ] * x'[k] =
              (b[s.succ] - l[s] * (b[(0 : Fin (n+1))] / l00)) + l[s] * ∑ k : Fin n, l[k] * x'[k] := by
            have : ∀ k : Fin n, A[s.succ][k.succ] * x'[k] = (A[s.succ][k.succ] - l[s] * 1 * l[k]) * x'[k] + l[s] * (l[k] * x'[k]) := by
              intro k; ring
            simp only [this, Finset.sum_add_distrib, ← Finset.mul_sum]
            rw [ihs]
            simp [Fin.getElem_fin, Vector.getElem_ofFn]
          rw [e1, hl' s]
          field_simp
          ring


/-- the staged Cholesky solve is the recursion `lltSolve` -/
theorem solveLL_eq (sqrtF : K → K) : ∀ (n : Nat) (A L : Mat K n n) (b : Vec K n),
    llt sqrtF n A = .ok L → lltSolve sqrtF n A b = .ok (solveLL n L b)
  | 0, _, _, _, _ => by simp [lltSolve, solveLL]
  | n+1, A, L, b, h => by
    simp only [llt] at h
    simp only [lltSolve]
    split at h
    · cases h
    · rename_i hd
      simp only [hd, if_false]
      cases hrec : llt sqrtF n (schur A (colDiv A (sqrtF A[(0 : Fin (n+1))][(0 : Fin (n+1))])) 1) with
      | error k => rw [hrec] at h; cases h
      | ok L' =>
        rw [hrec] at h
        simp only [Except.ok.injEq] at h
        subst h
        rw [solveLL_eq sqrtF n _ L' _ hrec]
        simp only [solveLL, col0_consL, minorM_consL, consL_00]

/-- **the dense back end's inner solver is exact when `sqrt` is**: whenever `innerLLT` succeeds on a symmetric `(1,1)` block,
    its solve map satisfies C13's `InnerExact` for the dense formulation -/
theorem innerLLT_exact {n p m : Nat} (sqrtF : K → K) (hsq : ExactSqrt sqrtF) (kb : KBlocks K n p m)
    (hxx : ∀ a b : Fin n, kb.xx[a][b] = kb.xx[b][a]) (slv : SolveFn K n p m)
    (h : innerLLT sqrtF kb = some slv) : C13.InnerExact .dense kb slv := by
  unfold innerLLT at h
  cases hl : llt sqrtF n kb.xx with
  | error k => rw [hl] at h; cases h
  | ok L =>
    rw [hl] at h
    simp only [Option.some.injEq] at h
    subst h
    intro rx ry rz
    have hs := solveLL_eq sqrtF n kb.xx L rx hl
    have hc := lltSolve_correct sqrtF hsq n kb.xx rx _ hxx hs
    refine ⟨fun j => ?_, fun hY => by simp [Backend.keepY] at hY, fun hZ => by simp [Backend.keepZ] at hZ⟩
    simp only [Backend.keepY, Backend.keepZ, Bool.false_eq_true, if_false, add_zero]
    exact hc j

/-- **C13 + C14, dense back end**: factorise the coherent reduced `(1,1)` block with the model's own Cholesky and solve:
    the step solves the full regularised Newton system whenever the factorisation succeeds, given only that `sqrt` is exact
    (`sqrt(x)² = x` for `x > 0`; rounding of `sqrt`, like all rounding, is outside the model). -/
theorem dense_factor_then_solve_exact {n p m : Nat} (sqrtF : K → K) (hsq : ExactSqrt sqrtF) (st : KKTSettings K)
    (d : Data K n p m) (k : KKT K n p m)
    (r old out : Step K n p m) (hcoh : C13.Coherent .dense d k) (hin : C13.Interior d k)
    (h : KKT.solve .dense st d (KKT.regFactor .dense st d k false (innerLLT sqrtF)) r old false = some out) :
    let back := KKT.multiply d k out old
    (∀ j : Fin n, back.x[j] = r.x[j]) ∧ (∀ t : Fin p, back.y[t] = r.y[t]) ∧ (∀ t : Fin m, back.z[t] = r.z[t]) ∧
    (∀ t : Fin m, back.s[t] = r.s[t]) := by
  cases hs : innerLLT sqrtF k.k with
  | none =>
    have : (KKT.regFactor .dense st d k false (innerLLT sqrtF)).fsol = none := by simp [KKT.regFactor, hs]
    unfold KKT.solve at h
    simp [this] at h
  | some slv =>
    have hf : (KKT.regFactor .dense st d k false (innerLLT sqrtF)).fsol = some slv := by simp [KKT.regFactor, hs]
    have hcoh' : C13.Coherent .dense d (KKT.regFactor .dense st d k false (innerLLT sqrtF)) := ⟨hcoh.xx, hcoh.xy, hcoh.yy, hcoh.xz, hcoh.zz⟩
    have hin' : C13.Interior d (KKT.regFactor .dense st d k false (innerLLT sqrtF)) :=
      ⟨hin.delta, hin.zinv, hin.s, hin.w, hin.zinv_lb, hin.s_lb, hin.w_lb, hin.zinv_ub, hin.s_ub, hin.w_ub⟩
    have hex := innerLLT_exact sqrtF hsq k.k (coherent_xx_symm .dense d k hcoh) slv hs
    have res := C13.solve_solves_full_system .dense st d (KKT.regFactor .dense st d k false (innerLLT sqrtF)) r old out slv hf hcoh' hex hin' h
    exact ⟨res.1, res.2.1, res.2.2.1, res.2.2.2.1⟩
end llt
end Piqp.C14
