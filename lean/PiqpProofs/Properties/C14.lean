import PiqpProofs.Basic
import PiqpModel.LinAlg

/-!
# C14 — factorisation and sparse kernels are exact on every pattern (spec level)
-/

namespace Piqp.C14

variable {K : Type}

/-- `perm` followed by `permt` with the inverse table is the identity whenever the table inverts the permutation -/
theorem permt_perm_id {n : Nat} (p : Vector (Fin n) n) (b : Vec K n)
    (hinv : ∀ i : Fin n, p[(permInv p)[i]] = i) : permtVec p (permVec p b) = b := by
  unfold permtVec permVec
  apply Vector.ext
  intro i hi
  simp only [Vector.getElem_ofFn, Fin.getElem_fin]
  have := hinv ⟨i, hi⟩
  simp only [Fin.getElem_fin] at this
  simp [this]

end Piqp.C14
