import PiqpProofs.Basic
import PiqpModel.Api

/-!
# C11 — update() and solve() do not allocate (model-level ledger)

In the model every solver-owned buffer has its length in its *type* (`Vec K n`, `Mat K n p`, …) and the stored sparsity
patterns (the capacity of the CSC arrays) are the `mask*` fields.  The ledger statement is therefore: `update` and `solve`
return a solver of the same dimensions with the same patterns — for every argument subset, every outcome, any number of
repetitions.  Heap behaviour of Eigen temporaries is outside the model; it is observed by harness/halloc.cpp.
-/

namespace Piqp.C11

variable {K : Type}
variable [Add K] [Sub K] [Mul K] [Div K] [Neg K] [Zero K] [One K] [LT K] [DecidableLT K] [LE K] [DecidableLE K]
variable [NatCast K] [BEq K] [Inhabited K]

/-- the shape ledger of a set-up solver: dimensions and stored patterns -/
def shape (a : AnySolver K) : Nat × Nat × Nat × Array Bool × Array Bool × Array Bool := (a.n, a.p, a.m, a.maskP, a.maskA, a.maskG)

/-- `update` (accepted or rejected) never changes the ledger -/
theorem update_preserves_shape (cs : Consts K) (sqrtF : K → K) (poison : K) (st : ApiState K)
    (P : Option (RawMat K)) (c : Option (RawVec K)) (A : Option (RawMat K)) (b : Option (RawVec K)) (G : Option (RawMat K))
    (h xlb xub : Option (RawVec K)) (reuse : Bool) :
    (apiStep cs sqrtF poison st (.update P c A b G h xlb xub reuse)).1.sol.map shape = st.sol.map shape := by
  unfold apiStep
  simp only
  split
  · rename_i hs; simp [hs]
  · rename_i a hs
    split
    · simp [hs]
    · simp [hs, shape]

/-- `solve` (whatever status it returns) never changes the ledger -/
theorem solve_preserves_shape (cs : Consts K) (sqrtF : K → K) (poison : K) (st : ApiState K) :
    (apiStep cs sqrtF poison st .solve).1.sol.map shape = st.sol.map shape := by
  unfold apiStep
  simp only
  split
  · rename_i hs; simp [hs]
  · rename_i a hs
    simp [hs, shape]

/-- hence any number of update/solve calls in any order keeps the ledger of the last setup -/
theorem history_preserves_shape (cs : Consts K) (sqrtF : K → K) (poison : K) (calls : List (Call K)) (st : ApiState K)
    (hc : ∀ c ∈ calls, (∃ P cc A b G h l u r, c = Call.update P cc A b G h l u r) ∨ c = Call.solve) :
    (calls.foldl (fun s c => (apiStep cs sqrtF poison s c).1) st).sol.map shape = st.sol.map shape := by
  induction calls generalizing st with
  | nil => rfl
  | cons c cs' ih =>
    simp only [List.foldl_cons]
    rw [ih]
    · rcases hc c (by simp) with ⟨P, cc, A, b, G, h, l, u, r, rfl⟩ | rfl
      · exact update_preserves_shape cs sqrtF poison st P cc A b G h l u r
      · exact solve_preserves_shape cs sqrtF poison st
    · intro c' hc'
      exact hc c' (by simp [hc'])

end Piqp.C11
