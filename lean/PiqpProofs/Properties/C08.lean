import PiqpProofs.Basic
import PiqpModel.Pack
import PiqpModel.Solver
import PiqpModel.Api
import PiqpProofs.Properties.C15
import Mathlib.Tactic.Ring
import Mathlib.Algebra.BigOperators.Ring.Finset
import Mathlib.Algebra.Order.BigOperators.Group.Finset
import Mathlib.Tactic.Linarith
import Mathlib.Algebra.Order.Field.Basic

/-!
# C08 — result vectors are well-formed at every stopping point
-/

set_option linter.unusedVariables false
set_option linter.unusedTactic false
set_option linter.unreachableTactic false
set_option linter.unnecessarySeqFocus false
set_option linter.unusedSimpArgs false
set_option linter.unusedSectionVars false

namespace Piqp.C08

variable {K : Type}
variable {n : Nat}

/-- the swap loop only permutes: every entry of the result is an entry of the input -/
theorem swapLoop_mem (idx : Vector (Fin n) n) (k : Nat) (v : Vec K n) (i : Fin n) :
    ∃ j : Fin n, (swapLoop idx k v)[i] = v[j] := by
  induction k generalizing v with
  | zero => exact ⟨i, rfl⟩
  | succ k ih =>
    unfold swapLoop
    split
    · rename_i h
      obtain ⟨j, hj⟩ := ih (v.swap k idx[k].val h idx[k].isLt)
      rw [hj]
      simp only [Fin.getElem_fin, Vector.getElem_swap]
      split
      · exact ⟨idx[k], rfl⟩
      · split
        · exact ⟨⟨k, h⟩, rfl⟩
        · exact ⟨j, rfl⟩
    · exact ih v

/-- the packing `setup_lb_data` / `setup_ub_data` produce: packed slot `a` holds the `a`-th finite bound, so the
    variable indices are strictly increasing on the active head -/
def StrictIdx (idx : Vector (Fin n) n) (cnt : Nat) : Prop :=
  ∀ a b : Fin n, a.val < b.val → b.val < cnt → idx[a].val < idx[b].val

theorem StrictIdx.ge {idx : Vector (Fin n) n} {cnt : Nat} (h : StrictIdx idx cnt) :
    ∀ (k : Nat) (hk : k < n), k < cnt → k ≤ (idx[k]'hk).val := by
  intro k
  induction k with
  | zero => intro _ _; exact Nat.zero_le _
  | succ k ih =>
    intro hk hc
    have h1 := ih (Nat.lt_of_succ_lt hk) (Nat.lt_of_succ_lt hc)
    have h2 := h ⟨k, Nat.lt_of_succ_lt hk⟩ ⟨k + 1, hk⟩ (Nat.lt_succ_self k) hc
    simp only [Fin.getElem_fin] at h2
    omega

theorem StrictIdx.inj {idx : Vector (Fin n) n} {cnt : Nat} (h : StrictIdx idx cnt) (a b : Fin n)
    (ha : a.val < cnt) (hb : b.val < cnt) (hab : idx[a] = idx[b]) : a = b := by
  rcases Nat.lt_trichotomy a.val b.val with hlt | heq | hgt
  · have := h a b hlt hb; rw [hab] at this; exact absurd this (Nat.lt_irrefl _)
  · exact Fin.ext heq
  · have := h b a hgt ha; rw [hab] at this; exact absurd this (Nat.lt_irrefl _)

/-- invariant of the descending swap loop with `k` steps left -/
theorem swapLoop_spec (idx : Vector (Fin n) n) (cnt : Nat) (hcn : cnt ≤ n) (hs : StrictIdx idx cnt) (fill : K) (orig : Vec K n) :
    ∀ (k : Nat), k ≤ cnt → ∀ v : Vec K n,
      (∀ t : Fin n, k ≤ t.val → t.val < cnt → v[idx[t]] = orig[t]) →
      (∀ t : Fin n, t.val < k → v[t] = orig[t]) →
      (∀ j : Fin n, k ≤ j.val → (∀ t : Fin n, k ≤ t.val → t.val < cnt → idx[t] ≠ j) → v[j] = fill) →
      (∀ t : Fin n, t.val < cnt → (swapLoop idx k v)[idx[t]] = orig[t]) ∧
      (∀ j : Fin n, (∀ t : Fin n, t.val < cnt → idx[t] ≠ j) → (swapLoop idx k v)[j] = fill) := by
  intro k
  induction k with
  | zero =>
    intro _ v hp _ hr
    exact ⟨fun t ht => hp t (Nat.zero_le _) ht, fun j hj => hr j (Nat.zero_le _) (fun t _ ht => hj t ht)⟩
  | succ k ih =>
    intro hk v hp hh hr
    have hkn : k < n := Nat.lt_of_lt_of_le hk hcn
    have hkc : k < cnt := hk
    unfold swapLoop
    simp only [hkn, dif_pos]
    have hge : k ≤ (idx[k]'hkn).val := hs.ge k hkn hkc
    apply ih (Nat.le_of_succ_le hk)
    · -- placed
      intro t htk htc
      rcases Nat.eq_or_lt_of_le htk with heq | hlt
      · have : t = ⟨k, hkn⟩ := Fin.ext heq.symm
        subst this
        simp only [Fin.getElem_fin, Vector.getElem_swap_right]
        exact hh ⟨k, hkn⟩ (Nat.lt_succ_self k)
      · have hlt' := hs ⟨k, hkn⟩ t hlt htc
        simp only [Fin.getElem_fin] at hlt' ⊢
        rw [Vector.getElem_swap_of_ne (by omega) (by omega)]
        have := hp t hlt htc
        simpa only [Fin.getElem_fin] using this
    · -- head
      intro t ht
      simp only [Fin.getElem_fin]
      rw [Vector.getElem_swap_of_ne (by omega) (by omega)]
      have := hh t (Nat.lt_succ_of_lt ht)
      simpa only [Fin.getElem_fin] using this
    · -- rest
      intro j hj hne
      have hjk : idx[(⟨k, hkn⟩ : Fin n)] ≠ j := hne ⟨k, hkn⟩ (Nat.le_refl k) hkc
      have hjk' : (idx[k]'hkn).val ≠ j.val := fun h => hjk (Fin.ext h)
      rcases Nat.eq_or_lt_of_le hj with heq | hlt
      · -- j = k : receives the old content of slot idx k, which is fill
        have hj' : j = ⟨k, hkn⟩ := Fin.ext heq.symm
        subst hj'
        simp only [Fin.getElem_fin, Vector.getElem_swap_left]
        have hgt : k + 1 ≤ (idx[k]'hkn).val := by
          have : (idx[k]'hkn).val ≠ k := hjk'
          omega
        have := hr (idx[k]'hkn) hgt (by
          intro t htk htc heq
          have := hs.inj t ⟨k, hkn⟩ htc hkc (by simpa only [Fin.getElem_fin] using heq)
          have : t.val = k := congrArg Fin.val this
          omega)
        simpa only [Fin.getElem_fin] using this
      · simp only [Fin.getElem_fin]
        rw [Vector.getElem_swap_of_ne (by omega) (fun h => hjk' h.symm)]
        have := hr j hlt (fun t htk htc => hne t (Nat.le_of_succ_le htk) htc)
        simpa only [Fin.getElem_fin] using this

/-- **C08, re-indexing.** `restore_box_dual` on one buffer: for every strictly increasing packing of `cnt ≤ n` slots
    (every one of the 2ⁿ finite/infinite patterns of one side), packed slot `t` ends up at variable `idx t` and every
    variable without a finite bound holds exactly the fill value (`0` for multipliers, `+∞` for slacks). -/
theorem restoreBox_spec (b : BoxSide K n) (hcn : b.cnt ≤ n) (hs : StrictIdx b.idx b.cnt) (fill : K) (v : Vec K n) :
    (∀ t : Fin n, t.val < b.cnt → (restoreBox b fill v)[b.idx[t]] = v[t]) ∧
    (∀ j : Fin n, (∀ t : Fin n, t.val < b.cnt → b.idx[t] ≠ j) → (restoreBox b fill v)[j] = fill) := by
  unfold restoreBox
  rw [Nat.min_eq_left hcn]
  apply swapLoop_spec b.idx b.cnt hcn hs fill v b.cnt (Nat.le_refl _)
  · intro t h1 h2; omega
  · intro t ht; simp [ht]
  · intro j hj _
    have : ¬ j.val < b.cnt := by omega
    simp [this]

/-- invariant of the packing loop after looking at variables `0 … k-1` -/
structure PackInv (keep : K → Bool) (store : K → K) (x : Vec K n) (k : Nat) (r : Nat × Vector (Fin n) n × Vec K n) : Prop where
  cnt_le : r.1 ≤ k
  lt : ∀ a : Fin n, a.val < r.1 → r.2.1[a].val < k
  strict : StrictIdx r.2.1 r.1
  kept : ∀ a : Fin n, a.val < r.1 → ∀ j : Fin n, r.2.1[a] = j → keep x[j] = true ∧ r.2.2[a] = store x[j]
  all : ∀ j : Fin n, j.val < k → keep x[j] = true → ∃ a : Fin n, a.val < r.1 ∧ r.2.1[a] = j

theorem set_get {α : Type} (v : Vector α n) (c : Nat) (hc : c < n) (y : α) (i : Fin n) :
    (v.set c y hc)[i] = if c = i.val then y else v[i] := by
  simp only [Fin.getElem_fin, Vector.getElem_set]

theorem packLoop_inv (keep : K → Bool) (store : K → K) (x : Vec K n) (idx0 : Vector (Fin n) n) (val0 : Vec K n) :
    ∀ k : Nat, k ≤ n → PackInv keep store x k (packLoop keep store x k (0, idx0, val0)) := by
  intro k
  induction k with
  | zero =>
    intro _
    exact ⟨Nat.le_refl 0, fun a h => absurd h (Nat.not_lt_zero _), fun a b _ h => absurd h (Nat.not_lt_zero _),
      fun a h => absurd h (Nat.not_lt_zero _), fun j h => absurd h (Nat.not_lt_zero _)⟩
  | succ k ih =>
    intro hk
    have hkn : k < n := hk
    have I := ih (Nat.le_of_succ_le hk)
    unfold packLoop
    generalize packLoop keep store x k (0, idx0, val0) = r at I
    obtain ⟨cnt, idx, val⟩ := r
    simp only [hkn, dif_pos]
    by_cases hkeep : keep x[k] = true
    · have hc : cnt < n := Nat.lt_of_le_of_lt I.cnt_le hkn
      simp only [hkeep, if_true, hc, dif_pos]
      have Ilt := I.lt; have Istrict := I.strict; have Ikept := I.kept; have Iall := I.all
      simp only at Ilt Istrict Ikept Iall
      refine ⟨Nat.succ_le_succ I.cnt_le, ?_, ?_, ?_, ?_⟩
      · intro a ha
        simp only at ha
        simp only [set_get]
        split
        · exact Nat.lt_succ_self k
        · exact Nat.lt_succ_of_lt (Ilt a (by omega))
      · intro a b hab hb
        simp only at hb
        simp only [set_get]
        by_cases hbc : cnt = b.val
        · have hac : ¬ cnt = a.val := by omega
          simp only [hbc, hac, if_true, if_false]
          have := Ilt a (by omega)
          rw [← hbc]; simp only [hac, if_false]; exact this
        · have hac : ¬ cnt = a.val := by omega
          simp only [hbc, hac, if_false]
          exact Istrict a b hab (by omega)
      · intro a ha j hj
        simp only at ha
        simp only [set_get] at hj ⊢
        by_cases hac : cnt = a.val
        · simp only [hac, if_true] at hj ⊢
          subst hj
          exact ⟨hkeep, rfl⟩
        · simp only [hac, if_false] at hj ⊢
          exact Ikept a (by omega) j hj
      · intro j hj hkj
        by_cases hjk : j.val = k
        · refine ⟨⟨cnt, hc⟩, Nat.lt_succ_self cnt, ?_⟩
          simp only [set_get, if_true]
          exact Fin.ext hjk.symm
        · obtain ⟨a, ha, hia⟩ := Iall j (by omega) hkj
          refine ⟨a, Nat.lt_succ_of_lt ha, ?_⟩
          have hac : ¬ cnt = a.val := by omega
          simp only [set_get, hac, if_false]
          exact hia
    · simp only [hkeep, Bool.false_eq_true, if_false]
      refine ⟨Nat.le_succ_of_le I.cnt_le, fun a ha => Nat.lt_succ_of_lt (I.lt a ha), I.strict, I.kept, ?_⟩
      intro j hj hkj
      by_cases hjk : j.val = k
      · have : x[j] = x[k] := by simp only [Fin.getElem_fin, hjk]
        rw [this] at hkj; exact absurd hkj hkeep
      · exact I.all j (by omega) hkj

section setup
variable [Neg K] [LT K] [DecidableLT K] [Zero K] [One K]

/-- `setup_lb_data` packs exactly the variables with a finite lower bound (`x_lb > -PIQP_INF`), in increasing order,
    storing the negated bound -/
theorem setupLb_packed (cs : Consts K) (old : BoxSide K n) (x : Vec K n) :
    let b := setupLb cs old (some x)
    b.cnt ≤ n ∧ StrictIdx b.idx b.cnt ∧
    (∀ a : Fin n, a.val < b.cnt → -cs.piqpInf < x[b.idx[a]] ∧ b.val[a] = -x[b.idx[a]]) ∧
    (∀ j : Fin n, -cs.piqpInf < x[j] → ∃ a : Fin n, a.val < b.cnt ∧ b.idx[a] = j) := by
  have I := packLoop_inv (fun v => decide (-cs.piqpInf < v)) (fun v => -v) x old.idx old.val n (Nat.le_refl n)
  simp only [setupLb]
  refine ⟨I.cnt_le, I.strict, fun a ha => ?_, fun j hj => I.all j j.isLt (by simpa using hj)⟩
  have := I.kept a ha _ rfl
  exact ⟨by simpa using this.1, this.2⟩

theorem setupUb_packed (cs : Consts K) (old : BoxSide K n) (x : Vec K n) :
    let b := setupUb cs old (some x)
    b.cnt ≤ n ∧ StrictIdx b.idx b.cnt ∧
    (∀ a : Fin n, a.val < b.cnt → x[b.idx[a]] < cs.piqpInf ∧ b.val[a] = x[b.idx[a]]) ∧
    (∀ j : Fin n, x[j] < cs.piqpInf → ∃ a : Fin n, a.val < b.cnt ∧ b.idx[a] = j) := by
  have I := packLoop_inv (fun v => decide (v < cs.piqpInf)) (fun v => v) x old.idx old.val n (Nat.le_refl n)
  simp only [setupUb]
  refine ⟨I.cnt_le, I.strict, fun a ha => ?_, fun j hj => I.all j j.isLt (by simpa using hj)⟩
  have := I.kept a ha _ rfl
  exact ⟨by simpa using this.1, this.2⟩

/-- **C08, end to end for one side.** After `setup_lb_data(x_lb)`, `restore_box_dual` returns, for every variable `j`:
    exactly `fill` if `x_lb(j)` is not finite, and the packed entry of its slot otherwise — for every `n` and every one of
    the finite/infinite patterns. -/
theorem restore_after_setupLb (cs : Consts K) (old : BoxSide K n) (x : Vec K n) (fill : K) (v : Vec K n) :
    let b := setupLb cs old (some x)
    (∀ j : Fin n, ¬ (-cs.piqpInf < x[j]) → (restoreBox b fill v)[j] = fill) ∧
    (∀ a : Fin n, a.val < b.cnt → (restoreBox b fill v)[b.idx[a]] = v[a]) := by
  intro b
  obtain ⟨h1, h2, h3, h4⟩ := setupLb_packed cs old x
  obtain ⟨r1, r2⟩ := restoreBox_spec b h1 h2 fill v
  refine ⟨fun j hj => r2 j (fun t ht heq => hj ?_), r1⟩
  exact heq ▸ (h3 t ht).1

theorem restore_after_setupUb (cs : Consts K) (old : BoxSide K n) (x : Vec K n) (fill : K) (v : Vec K n) :
    let b := setupUb cs old (some x)
    (∀ j : Fin n, ¬ (x[j] < cs.piqpInf) → (restoreBox b fill v)[j] = fill) ∧
    (∀ a : Fin n, a.val < b.cnt → (restoreBox b fill v)[b.idx[a]] = v[a]) := by
  intro b
  obtain ⟨h1, h2, h3, h4⟩ := setupUb_packed cs old x
  obtain ⟨r1, r2⟩ := restoreBox_spec b h1 h2 fill v
  refine ⟨fun j hj => r2 j (fun t ht heq => hj ?_), r1⟩
  exact heq ▸ (h3 t ht).1
end setup

/-- non-vacuity: `n = 3`, bounds `(-∞, l, l')`: the pattern on which an ascending loop would go wrong -/
example : StrictIdx (#v[(1 : Fin 3), 2, 0]) 2 := by
  unfold StrictIdx; decide

end Piqp.C08

/-! ## The cone: positivity of slacks and multipliers is an invariant of the step rule and of the whole loop -/

namespace Piqp.C08
section cone
variable {K : Type} [Field K] [LinearOrder K] [IsStrictOrderedRing K]
variable {n p m : Nat}

theorem vmin_le_left (a b : K) : vmin a b ≤ a := by
  unfold vmin; split
  · rename_i h; exact le_of_lt h
  · exact le_refl a

theorem vmin_le_right (a b : K) : vmin a b ≤ b := by
  unfold vmin; split
  · exact le_refl b
  · rename_i h; exact not_lt.mp h

theorem vmin_pos (a b : K) (ha : 0 < a) (hb : 0 < b) : 0 < vmin a b := by
  unfold vmin; split <;> assumption

/-- one block of the fraction-to-boundary search as a fold: positivity, monotonicity and the bound for every index -/
theorem fold_min_spec (q : Nat) (c1 c2 : Fin q → Prop) [DecidablePred c1] [DecidablePred c2] (a b : Fin q → K)
    (ha : ∀ i, c1 i → 0 < a i) (hb : ∀ i, c2 i → 0 < b i) (init : K × K) (h1 : 0 < init.1) (h2 : 0 < init.2) :
    let r := Fin.foldl q (fun acc i => (if c1 i then vmin acc.1 (a i) else acc.1, if c2 i then vmin acc.2 (b i) else acc.2)) init
    (0 < r.1 ∧ r.1 ≤ init.1 ∧ ∀ i, c1 i → r.1 ≤ a i) ∧ (0 < r.2 ∧ r.2 ≤ init.2 ∧ ∀ i, c2 i → r.2 ≤ b i) := by
  induction q with
  | zero => simp only [Fin.foldl_zero]; exact ⟨⟨h1, le_refl _, fun i => i.elim0⟩, ⟨h2, le_refl _, fun i => i.elim0⟩⟩
  | succ q ih =>
    simp only [Fin.foldl_succ_last]
    have I := ih (fun i => c1 i.castSucc) (fun i => c2 i.castSucc) (fun i => a i.castSucc) (fun i => b i.castSucc)
      (fun i h => ha _ h) (fun i h => hb _ h)
    simp only at I
    generalize Fin.foldl q (fun acc i => (if c1 i.castSucc then vmin acc.1 (a i.castSucc) else acc.1,
      if c2 i.castSucc then vmin acc.2 (b i.castSucc) else acc.2)) init = r at I
    obtain ⟨⟨p1, l1, b1⟩, ⟨p2, l2, b2⟩⟩ := I
    constructor
    · by_cases hc : c1 (Fin.last q)
      · simp only [hc, if_true]
        refine ⟨vmin_pos _ _ p1 (ha _ hc), le_trans (vmin_le_left _ _) l1, fun i hi => ?_⟩
        rcases Fin.eq_castSucc_or_eq_last i with ⟨j, rfl⟩ | rfl
        · exact le_trans (vmin_le_left _ _) (b1 j hi)
        · exact vmin_le_right _ _
      · simp only [hc, if_false]
        refine ⟨p1, l1, fun i hi => ?_⟩
        rcases Fin.eq_castSucc_or_eq_last i with ⟨j, rfl⟩ | rfl
        · exact b1 j hi
        · exact absurd hi hc
    · by_cases hc : c2 (Fin.last q)
      · simp only [hc, if_true]
        refine ⟨vmin_pos _ _ p2 (hb _ hc), le_trans (vmin_le_left _ _) l2, fun i hi => ?_⟩
        rcases Fin.eq_castSucc_or_eq_last i with ⟨j, rfl⟩ | rfl
        · exact le_trans (vmin_le_left _ _) (b2 j hi)
        · exact vmin_le_right _ _
      · simp only [hc, if_false]
        refine ⟨p2, l2, fun i hi => ?_⟩
        rcases Fin.eq_castSucc_or_eq_last i with ⟨j, rfl⟩ | rfl
        · exact b2 j hi
        · exact absurd hi hc

/-- the iterate is strictly inside the cone on every active block -/
structure InCone (d : Data K n p m) (w : Work K n p m) : Prop where
  s : ∀ i : Fin m, 0 < w.s[i]
  z : ∀ i : Fin m, 0 < w.z[i]
  s_lb : ∀ i : Fin n, i.val < d.lb.cnt → 0 < w.s_lb[i]
  z_lb : ∀ i : Fin n, i.val < d.lb.cnt → 0 < w.z_lb[i]
  s_ub : ∀ i : Fin n, i.val < d.ub.cnt → 0 < w.s_ub[i]
  z_ub : ∀ i : Fin n, i.val < d.ub.cnt → 0 < w.z_ub[i]

theorem neg_div_pos (s ds : K) (hs : 0 < s) (hd : ds < 0) : 0 < -s / ds :=
  div_pos_of_neg_of_neg (neg_lt_zero.mpr hs) hd

theorem stepToBoundary_spec (d : Data K n p m) (w : Work K n p m) (dir : Step K n p m) (hc : InCone d w) :
    let r := stepToBoundary d w dir
    (0 < r.1 ∧ r.1 ≤ 1) ∧ (0 < r.2 ∧ r.2 ≤ 1) ∧
    (∀ i : Fin m, dir.s[i] < 0 → r.1 ≤ -w.s[i] / dir.s[i]) ∧ (∀ i : Fin m, dir.z[i] < 0 → r.2 ≤ -w.z[i] / dir.z[i]) ∧
    (∀ i : Fin n, i.val < d.lb.cnt → dir.s_lb[i] < 0 → r.1 ≤ -w.s_lb[i] / dir.s_lb[i]) ∧
    (∀ i : Fin n, i.val < d.lb.cnt → dir.z_lb[i] < 0 → r.2 ≤ -w.z_lb[i] / dir.z_lb[i]) ∧
    (∀ i : Fin n, i.val < d.ub.cnt → dir.s_ub[i] < 0 → r.1 ≤ -w.s_ub[i] / dir.s_ub[i]) ∧
    (∀ i : Fin n, i.val < d.ub.cnt → dir.z_ub[i] < 0 → r.2 ≤ -w.z_ub[i] / dir.z_ub[i]) := by
  -- the three folds in the shape of `fold_min_spec`
  have e1 : (fun (acc : K × K) (i : Fin m) =>
        ((if dir.s[i] < 0 then vmin acc.1 (-w.s[i] / dir.s[i]) else acc.1),
         (if dir.z[i] < 0 then vmin acc.2 (-w.z[i] / dir.z[i]) else acc.2))) =
      (fun (acc : K × K) (i : Fin m) => (if (fun i : Fin m => dir.s[i] < 0) i then vmin acc.1 ((fun i : Fin m => -w.s[i] / dir.s[i]) i) else acc.1,
                     if (fun i : Fin m => dir.z[i] < 0) i then vmin acc.2 ((fun i : Fin m => -w.z[i] / dir.z[i]) i) else acc.2)) := rfl
  have e2 : (fun (acc : K × K) (i : Fin n) => if i.val < d.lb.cnt then
        ((if dir.s_lb[i] < 0 then vmin acc.1 (-w.s_lb[i] / dir.s_lb[i]) else acc.1),
         (if dir.z_lb[i] < 0 then vmin acc.2 (-w.z_lb[i] / dir.z_lb[i]) else acc.2)) else acc) =
      (fun (acc : K × K) (i : Fin n) => (if (fun i : Fin n => i.val < d.lb.cnt ∧ dir.s_lb[i] < 0) i then vmin acc.1 ((fun i : Fin n => -w.s_lb[i] / dir.s_lb[i]) i) else acc.1,
                     if (fun i : Fin n => i.val < d.lb.cnt ∧ dir.z_lb[i] < 0) i then vmin acc.2 ((fun i : Fin n => -w.z_lb[i] / dir.z_lb[i]) i) else acc.2)) := by
    funext acc i
    by_cases h : i.val < d.lb.cnt <;> simp [h]
  have e3 : (fun (acc : K × K) (i : Fin n) => if i.val < d.ub.cnt then
        ((if dir.s_ub[i] < 0 then vmin acc.1 (-w.s_ub[i] / dir.s_ub[i]) else acc.1),
         (if dir.z_ub[i] < 0 then vmin acc.2 (-w.z_ub[i] / dir.z_ub[i]) else acc.2)) else acc) =
      (fun (acc : K × K) (i : Fin n) => (if (fun i : Fin n => i.val < d.ub.cnt ∧ dir.s_ub[i] < 0) i then vmin acc.1 ((fun i : Fin n => -w.s_ub[i] / dir.s_ub[i]) i) else acc.1,
                     if (fun i : Fin n => i.val < d.ub.cnt ∧ dir.z_ub[i] < 0) i then vmin acc.2 ((fun i : Fin n => -w.z_ub[i] / dir.z_ub[i]) i) else acc.2)) := by
    funext acc i
    by_cases h : i.val < d.ub.cnt <;> simp [h]
  unfold stepToBoundary
  simp only [e1, e2, e3]
  have A := fold_min_spec m (fun i : Fin m => dir.s[i] < 0) (fun i : Fin m => dir.z[i] < 0) (fun i : Fin m => -w.s[i] / dir.s[i]) (fun i : Fin m => -w.z[i] / dir.z[i])
    (fun i h => neg_div_pos _ _ (hc.s i) h) (fun i h => neg_div_pos _ _ (hc.z i) h) ((1 : K), (1 : K)) one_pos one_pos
  simp only at A
  generalize Fin.foldl m _ ((1 : K), (1 : K)) = a1 at A ⊢
  obtain ⟨⟨pa1, la1, ba1⟩, ⟨pa2, la2, ba2⟩⟩ := A
  have B := fold_min_spec n (fun i : Fin n => i.val < d.lb.cnt ∧ dir.s_lb[i] < 0) (fun i : Fin n => i.val < d.lb.cnt ∧ dir.z_lb[i] < 0)
    (fun i : Fin n => -w.s_lb[i] / dir.s_lb[i]) (fun i : Fin n => -w.z_lb[i] / dir.z_lb[i])
    (fun i h => neg_div_pos _ _ (hc.s_lb i h.1) h.2) (fun i h => neg_div_pos _ _ (hc.z_lb i h.1) h.2) a1 pa1 pa2
  simp only at B
  generalize Fin.foldl n _ a1 = a2 at B ⊢
  obtain ⟨⟨pb1, lb1, bb1⟩, ⟨pb2, lb2, bb2⟩⟩ := B
  have C := fold_min_spec n (fun i : Fin n => i.val < d.ub.cnt ∧ dir.s_ub[i] < 0) (fun i : Fin n => i.val < d.ub.cnt ∧ dir.z_ub[i] < 0)
    (fun i : Fin n => -w.s_ub[i] / dir.s_ub[i]) (fun i : Fin n => -w.z_ub[i] / dir.z_ub[i])
    (fun i h => neg_div_pos _ _ (hc.s_ub i h.1) h.2) (fun i h => neg_div_pos _ _ (hc.z_ub i h.1) h.2) a2 pb1 pb2
  simp only at C
  generalize Fin.foldl n _ a2 = a3 at C ⊢
  obtain ⟨⟨pc1, lc1, bc1⟩, ⟨pc2, lc2, bc2⟩⟩ := C
  refine ⟨⟨pc1, le_trans lc1 (le_trans lb1 la1)⟩, ⟨pc2, le_trans lc2 (le_trans lb2 la2)⟩, ?_, ?_, ?_, ?_, ?_, ?_⟩
  · intro i h; exact le_trans lc1 (le_trans lb1 (ba1 i h))
  · intro i h; exact le_trans lc2 (le_trans lb2 (ba2 i h))
  · intro i hi h; exact le_trans lc1 (bb1 i ⟨hi, h⟩)
  · intro i hi h; exact le_trans lc2 (bb2 i ⟨hi, h⟩)
  · intro i hi h; exact bc1 i ⟨hi, h⟩
  · intro i hi h; exact bc2 i ⟨hi, h⟩

theorem pos_step (s ds α τ : K) (hs : 0 < s) (hα : 0 < α) (hτ0 : 0 < τ) (hτ1 : τ < 1) (hb : ds < 0 → α ≤ -s / ds) :
    0 < s + α * τ * ds := by
  by_cases hd : ds < 0
  · have h1 : -s ≤ α * ds := by
      have := mul_le_mul_of_nonpos_right (hb hd) (le_of_lt hd)
      rwa [div_mul_cancel₀ _ (ne_of_lt hd)] at this
    have h2 : τ * (-s) ≤ τ * (α * ds) := mul_le_mul_of_nonneg_left h1 (le_of_lt hτ0)
    have h3 : 0 < s * (1 - τ) := mul_pos hs (by linarith)
    nlinarith
  · have hd' : 0 ≤ ds := not_lt.mp hd
    have : 0 ≤ α * τ * ds := mul_nonneg (le_of_lt (mul_pos hα hτ0)) hd'
    linarith

/-- **C08, the cone is preserved by the step rule, for every direction.** Whatever direction the linear solve returned
    (exact, refined, inexact or garbage), damping the fraction-to-boundary step by `0 < τ < 1` keeps every active slack and
    multiplier strictly positive. -/
theorem step_in_cone (d : Data K n p m) (w : Work K n p m) (dir : Step K n p m) (hc : InCone d w) (τ : K)
    (hτ0 : 0 < τ) (hτ1 : τ < 1) :
    let r := stepToBoundary d w dir
    (∀ i : Fin m, 0 < w.s[i] + r.1 * τ * dir.s[i]) ∧ (∀ i : Fin m, 0 < w.z[i] + r.2 * τ * dir.z[i]) ∧
    (∀ i : Fin n, i.val < d.lb.cnt → 0 < w.s_lb[i] + r.1 * τ * dir.s_lb[i]) ∧
    (∀ i : Fin n, i.val < d.lb.cnt → 0 < w.z_lb[i] + r.2 * τ * dir.z_lb[i]) ∧
    (∀ i : Fin n, i.val < d.ub.cnt → 0 < w.s_ub[i] + r.1 * τ * dir.s_ub[i]) ∧
    (∀ i : Fin n, i.val < d.ub.cnt → 0 < w.z_ub[i] + r.2 * τ * dir.z_ub[i]) := by
  obtain ⟨⟨p1, _⟩, ⟨p2, _⟩, b1, b2, b3, b4, b5, b6⟩ := stepToBoundary_spec d w dir hc
  exact ⟨fun i => pos_step _ _ _ _ (hc.s i) p1 hτ0 hτ1 (b1 i), fun i => pos_step _ _ _ _ (hc.z i) p2 hτ0 hτ1 (b2 i),
    fun i hi => pos_step _ _ _ _ (hc.s_lb i hi) p1 hτ0 hτ1 (b3 i hi), fun i hi => pos_step _ _ _ _ (hc.z_lb i hi) p2 hτ0 hτ1 (b4 i hi),
    fun i hi => pos_step _ _ _ _ (hc.s_ub i hi) p1 hτ0 hτ1 (b5 i hi), fun i hi => pos_step _ _ _ _ (hc.z_ub i hi) p2 hτ0 hτ1 (b6 i hi)⟩

@[simp] theorem upd_s (e : Env K n p m) (w : Work K n p m) (info : Info K) : (updateNrResiduals e w info).1.s = w.s := by
  unfold updateNrResiduals; rfl
@[simp] theorem upd_z (e : Env K n p m) (w : Work K n p m) (info : Info K) : (updateNrResiduals e w info).1.z = w.z := by
  unfold updateNrResiduals; rfl
@[simp] theorem upd_s_lb (e : Env K n p m) (w : Work K n p m) (info : Info K) : (updateNrResiduals e w info).1.s_lb = w.s_lb := by
  unfold updateNrResiduals; rfl
@[simp] theorem upd_z_lb (e : Env K n p m) (w : Work K n p m) (info : Info K) : (updateNrResiduals e w info).1.z_lb = w.z_lb := by
  unfold updateNrResiduals; rfl
@[simp] theorem upd_s_ub (e : Env K n p m) (w : Work K n p m) (info : Info K) : (updateNrResiduals e w info).1.s_ub = w.s_ub := by
  unfold updateNrResiduals; rfl
@[simp] theorem upd_z_ub (e : Env K n p m) (w : Work K n p m) (info : Info K) : (updateNrResiduals e w info).1.z_ub = w.z_ub := by
  unfold updateNrResiduals; rfl

theorem headUpd_get' (b : BoxSide K n) (old : Vec K n) (f : Fin n → K) (i : Fin n) :
    (b.headUpd old f)[i] = if i.val < b.cnt then f i else old[i] := by
  simp only [BoxSide.headUpd, BoxSide.act, Vector.getElem_ofFn, Fin.getElem_fin, Fin.eta]
  by_cases h : i.val < b.cnt <;> simp [h]

theorem inCone_update (d : Data K n p m) (w : Work K n p m) (dir : Step K n p m) (τ : K) (hc : InCone d w)
    (hτ0 : 0 < τ) (hτ1 : τ < 1) (w' : Work K n p m)
    (hs : w'.s = Vector.ofFn fun i => w.s[i] + (stepToBoundary d w dir).1 * τ * dir.s[i])
    (hz : w'.z = Vector.ofFn fun i => w.z[i] + (stepToBoundary d w dir).2 * τ * dir.z[i])
    (hsl : w'.s_lb = d.lb.headUpd w.s_lb fun i => w.s_lb[i] + (stepToBoundary d w dir).1 * τ * dir.s_lb[i])
    (hzl : w'.z_lb = d.lb.headUpd w.z_lb fun i => w.z_lb[i] + (stepToBoundary d w dir).2 * τ * dir.z_lb[i])
    (hsu : w'.s_ub = d.ub.headUpd w.s_ub fun i => w.s_ub[i] + (stepToBoundary d w dir).1 * τ * dir.s_ub[i])
    (hzu : w'.z_ub = d.ub.headUpd w.z_ub fun i => w.z_ub[i] + (stepToBoundary d w dir).2 * τ * dir.z_ub[i]) :
    InCone d w' := by
  obtain ⟨c1, c2, c3, c4, c5, c6⟩ := step_in_cone d w dir hc τ hτ0 hτ1
  refine ⟨fun i => ?_, fun i => ?_, fun i hi => ?_, fun i hi => ?_, fun i hi => ?_, fun i hi => ?_⟩
  · rw [hs]; simp only [Fin.getElem_fin, Vector.getElem_ofFn]; exact c1 i
  · rw [hz]; simp only [Fin.getElem_fin, Vector.getElem_ofFn]; exact c2 i
  · rw [hsl, headUpd_get']; simp only [hi, if_true]; exact c3 i hi
  · rw [hzl, headUpd_get']; simp only [hi, if_true]; exact c4 i hi
  · rw [hsu, headUpd_get']; simp only [hi, if_true]; exact c5 i hi
  · rw [hzu, headUpd_get']; simp only [hi, if_true]; exact c6 i hi

/-- **C08, one full iteration keeps the iterate in the cone** — for every back end, every KKT state (hence every
    factorisation outcome: when `KKT.solve` returns nothing the old direction is used), refinement on or off. -/
theorem stepNumOp_in_cone (e : Env K n p m) (refineOn : Bool) (kkt : KKT K n p m) (w : Work K n p m) (info : Info K)
    (hτ0 : 0 < e.st.tau) (hτ1 : e.st.tau < 1) (hc : InCone e.data w) :
    InCone e.data (stepNumOp e refineOn kkt w info).1 := by
  unfold stepNumOp
  by_cases hm : m + e.data.lb.cnt + e.data.ub.cnt ≠ 0
  · simp only [hm, ne_eq, not_false_eq_true, if_true]
    exact inCone_update e.data w _ e.st.tau hc hτ0 hτ1 _ (by simp only [upd_s] <;> rfl) (by simp only [upd_z] <;> rfl)
      (by simp only [upd_s_lb] <;> rfl) (by simp only [upd_z_lb] <;> rfl) (by simp only [upd_s_ub] <;> rfl) (by simp only [upd_z_ub] <;> rfl)
  · simp only [hm, if_false]
    refine ⟨fun i => ?_, fun i => ?_, fun i hi => ?_, fun i hi => ?_, fun i hi => ?_, fun i hi => ?_⟩
    · simp only [upd_s]; exact hc.s i
    · simp only [upd_z]; exact hc.z i
    · simp only [upd_s_lb]; exact hc.s_lb i hi
    · simp only [upd_z_lb]; exact hc.z_lb i hi
    · simp only [upd_s_ub]; exact hc.s_ub i hi
    · simp only [upd_z_ub]; exact hc.z_ub i hi

/-- every numeric operation of the loop preserves `Inv` -/
structure OpsPreserve {σ : Type} (ops : LoopOps K σ) (Inv : σ → Prop) : Prop where
  head : ∀ b s info, Inv s → Inv (ops.head b s info).1
  reg : ∀ s info, Inv s → Inv (ops.reg s info)
  shift : ∀ s info, Inv s → Inv (ops.shift s info).1
  rescale : ∀ s info, Inv s → Inv (ops.rescale s info)
  factor : ∀ b s, Inv s → Inv (ops.factor b s).1
  stepNum : ∀ b s info, Inv s → Inv (ops.stepNum b s info).1
  applyFlags : ∀ s a b, Inv s → Inv (ops.applyFlags s a b)

/-- an invariant of the numeric operations is an invariant of the whole loop, whatever exit it takes -/
theorem loopG_invariant {σ : Type} (st : Settings K) (cs : Consts K) (ops : LoopOps K σ) (Inv : σ → Prop)
    (hp : OpsPreserve ops Inv) (c : Ctrl) (s : σ) (info : Info K) (h : Inv s) :
    Inv (loopG st cs ops c s info).1.2.1 := by
  fun_induction loopG st cs ops c s info
  all_goals first
    | exact h
    | exact hp.head _ _ _ h
    | exact hp.reg _ _ (hp.head _ _ _ h)
    | exact hp.factor _ _ (hp.rescale _ _ (hp.shift _ _ (hp.reg _ _ (hp.head _ _ _ h))))
    | (rename_i ih; exact ih (hp.applyFlags _ _ _ (hp.stepNum _ _ _ (hp.factor _ _ (hp.rescale _ _ (hp.shift _ _ (hp.reg _ _ (hp.head _ _ _ h))))))))
    | (rename_i ih; exact ih (hp.factor _ _ (hp.rescale _ _ (hp.shift _ _ (hp.reg _ _ (hp.head _ _ _ h))))))

theorem InCone.of_fields {d : Data K n p m} {w w' : Work K n p m} (hc : InCone d w)
    (h1 : w'.s = w.s) (h2 : w'.z = w.z) (h3 : w'.s_lb = w.s_lb) (h4 : w'.z_lb = w.z_lb) (h5 : w'.s_ub = w.s_ub) (h6 : w'.z_ub = w.z_ub) :
    InCone d w' :=
  ⟨fun i => by rw [h1]; exact hc.s i, fun i => by rw [h2]; exact hc.z i, fun i hi => by rw [h3]; exact hc.s_lb i hi,
   fun i hi => by rw [h4]; exact hc.z_lb i hi, fun i hi => by rw [h5]; exact hc.s_ub i hi, fun i hi => by rw [h6]; exact hc.z_ub i hi⟩

theorem shiftOp_in_cone (e : Env K n p m) (w : Work K n p m) (info : Info K) (heps : 0 ≤ e.cs.machEps) (hc : InCone e.data w) :
    InCone e.data (shiftOp e w info).1 := by
  unfold shiftOp
  refine ⟨fun i => hc.s i, fun i => ?_, fun i hi => hc.s_lb i hi, fun i hi => ?_, fun i hi => hc.s_ub i hi, fun i hi => ?_⟩
  · simp only
    split
    · simp only [Fin.getElem_fin, Vector.getElem_ofFn]; exact add_pos_of_pos_of_nonneg (hc.z i) heps
    · exact hc.z i
  · simp only
    split
    · rw [headUpd_get']; simp only [hi, if_true]; exact add_pos_of_pos_of_nonneg (hc.z_lb i hi) heps
    · exact hc.z_lb i hi
  · simp only
    split
    · rw [headUpd_get']; simp only [hi, if_true]; exact add_pos_of_pos_of_nonneg (hc.z_ub i hi) heps
    · exact hc.z_ub i hi

/-- every numeric operation of the real solver keeps the iterate strictly inside the cone -/
theorem realOps_preserve_cone (e : Env K n p m) (hτ0 : 0 < e.st.tau) (hτ1 : e.st.tau < 1) (heps : 0 ≤ e.cs.machEps) :
    OpsPreserve (realOps e) (fun s : NumState K n p m => InCone e.data s.1) where
  head := by
    intro b s info h
    simp only [realOps, headInfo]
    cases b
    · exact h
    · exact h.of_fields (upd_s _ _ _) (upd_z _ _ _) (upd_s_lb _ _ _) (upd_z_lb _ _ _) (upd_s_ub _ _ _) (upd_z_ub _ _ _)
  reg := fun s info h => h.of_fields rfl rfl rfl rfl rfl rfl
  shift := fun s info h => shiftOp_in_cone e s.1 info heps h
  rescale := fun s info h => h
  factor := fun b s h => h
  stepNum := fun b s info h => stepNumOp_in_cone e b s.2 s.1 info hτ0 hτ1 h
  applyFlags := by
    intro s a b h
    simp only [realOps, applyFlagsOp]
    cases a <;> cases b <;> simp only [Bool.false_eq_true, if_false, if_true]
    · exact h
    · split <;> exact h.of_fields rfl rfl rfl rfl rfl rfl
    · exact h.of_fields rfl rfl rfl rfl rfl rfl
    · split <;> exact h.of_fields rfl rfl rfl rfl rfl rfl

/-- **C08, cone invariant of the whole main loop.** If the iterate entering the loop is strictly inside the cone (the
    solver sets `s = z = 1` on every active block before), it is so at **every** exit — SOLVED, either infeasibility
    verdict, MAX_ITER at any budget, NUMERICS — for every back end, every factorisation-failure pattern, refinement on or
    off, with valid `0 < τ < 1`. -/
theorem mainLoop_in_cone (e : Env K n p m) (ls : LoopState K n p m) (hτ0 : 0 < e.st.tau) (hτ1 : e.st.tau < 1)
    (heps : 0 ≤ e.cs.machEps) (hc : InCone e.data ls.w) : InCone e.data (mainLoop e ls).1.w := by
  unfold mainLoop
  exact loopG_invariant e.st e.cs (realOps e) (fun s : NumState K n p m => InCone e.data s.1)
    (realOps_preserve_cone e hτ0 hτ1 heps) ls.c (ls.w, ls.kkt) ls.info hc


/-! ### The initial point: Mehrotra-style shifts put every active slack and multiplier strictly inside the cone -/

open Finset

theorem minFin_le (init : K) : ∀ (q : Nat) (f : Fin q → K) (i : Fin q), minFin init q f ≤ f i
  | 0, _, i => i.elim0
  | q + 1, f, i => by
    simp only [minFin]
    rcases Fin.eq_castSucc_or_eq_last i with ⟨j, rfl⟩ | rfl
    · exact le_trans (vmin_le_left _ _) (minFin_le init q (fun i => f i.castSucc) j)
    · exact vmin_le_right _ _

theorem minHead_le (init : K) (cnt : Nat) (a : Vec K n) (i : Fin n) (hi : i.val < cnt) : minHead init cnt a ≤ a[i] := by
  unfold minHead
  have := minFin_le init n (fun j => if j.val < cnt then a[j] else init) i
  simpa only [hi, if_true] using this

theorem le_vmax_l (a b : K) : a ≤ vmax a b := by
  unfold vmax; split
  · rename_i h; exact le_of_lt h
  · exact le_refl a
theorem le_vmax_r (a b : K) : b ≤ vmax a b := by
  unfold vmax; split
  · exact le_refl b
  · rename_i h; exact not_lt.mp h

/-- the first shift makes an entry non-negative as soon as the shift dominates `-1.5·min` of its block -/
theorem shifted_nonneg (c15 v mn dS : K) (hc : 1 ≤ c15) (h0 : 0 ≤ dS) (hmin : mn ≤ v) (hd : -c15 * mn ≤ dS) : 0 ≤ v + dS := by
  by_cases hv : 0 ≤ v
  · linarith
  · have hv' : v < 0 := not_le.mp hv
    have hmn : mn < 0 := lt_of_le_of_lt hmin hv'
    have : -mn ≤ -c15 * mn := by nlinarith
    linarith

theorem count_head (c : Nat) : ∀ (q : Nat), c ≤ q → (∑ i : Fin q, if i.val < c then (1 : K) else 0) = (c : K)
  | 0, h => by
    have : c = 0 := Nat.le_zero.mp h
    subst this; simp
  | q + 1, h => by
    rw [Fin.sum_univ_castSucc]
    simp only [Fin.coe_castSucc, Fin.val_last]
    by_cases hc : c ≤ q
    · rw [count_head c q hc]
      have : ¬ q < c := Nat.not_lt.mpr hc
      simp [this]
    · have hcq : c = q + 1 := by omega
      have hall : ∀ i : Fin q, i.val < c := fun i => by omega
      simp only [hall, if_true, Finset.sum_const, Finset.card_univ, Fintype.card_fin, nsmul_eq_mul, mul_one]
      have : q < c := by omega
      simp [this, hcq]

theorem sum_mul_zero_of_sum_zero {ι : Type} [Fintype ι] (a b : ι → K) (hb : ∀ i, 0 ≤ b i) (h : ∑ i, b i = 0) :
    ∑ i, a i * b i = 0 := by
  have hz := (Finset.sum_eq_zero_iff_of_nonneg (fun i _ => hb i)).mp h
  exact Finset.sum_eq_zero fun i hi => by rw [hz i hi, mul_zero]

/-- three non-negative families: a positive total of products forces a positive total of the second factors -/
theorem pos_of_prod_pos {ι1 ι2 ι3 : Type} [Fintype ι1] [Fintype ι2] [Fintype ι3]
    (a1 b1 : ι1 → K) (a2 b2 : ι2 → K) (a3 b3 : ι3 → K)
    (hb1 : ∀ i, 0 ≤ b1 i) (hb2 : ∀ i, 0 ≤ b2 i) (hb3 : ∀ i, 0 ≤ b3 i)
    (h : 0 < (∑ i, a1 i * b1 i) + (∑ i, a2 i * b2 i) + ∑ i, a3 i * b3 i) :
    0 < (∑ i, b1 i) + (∑ i, b2 i) + ∑ i, b3 i := by
  have n1 : 0 ≤ ∑ i, b1 i := Finset.sum_nonneg fun i _ => hb1 i
  have n2 : 0 ≤ ∑ i, b2 i := Finset.sum_nonneg fun i _ => hb2 i
  have n3 : 0 ≤ ∑ i, b3 i := Finset.sum_nonneg fun i _ => hb3 i
  by_contra hcon
  have hle : (∑ i, b1 i) + (∑ i, b2 i) + ∑ i, b3 i ≤ 0 := not_lt.mp hcon
  have z1 : ∑ i, b1 i = 0 := by linarith
  have z2 : ∑ i, b2 i = 0 := by linarith
  have z3 : ∑ i, b3 i = 0 := by linarith
  rw [sum_mul_zero_of_sum_zero a1 b1 hb1 z1, sum_mul_zero_of_sum_zero a2 b2 hb2 z2, sum_mul_zero_of_sum_zero a3 b3 hb3 z3] at h
  linarith

theorem pos_of_prod_pos_left {ι1 ι2 ι3 : Type} [Fintype ι1] [Fintype ι2] [Fintype ι3]
    (a1 b1 : ι1 → K) (a2 b2 : ι2 → K) (a3 b3 : ι3 → K)
    (ha1 : ∀ i, 0 ≤ a1 i) (ha2 : ∀ i, 0 ≤ a2 i) (ha3 : ∀ i, 0 ≤ a3 i)
    (h : 0 < (∑ i, a1 i * b1 i) + (∑ i, a2 i * b2 i) + ∑ i, a3 i * b3 i) :
    0 < (∑ i, a1 i) + (∑ i, a2 i) + ∑ i, a3 i := by
  refine pos_of_prod_pos b1 a1 b2 a2 b3 a3 ha1 ha2 ha3 ?_
  have e1 : (∑ i, b1 i * a1 i) = ∑ i, a1 i * b1 i := Finset.sum_congr rfl fun i _ => mul_comm _ _
  have e2 : (∑ i, b2 i * a2 i) = ∑ i, a2 i * b2 i := Finset.sum_congr rfl fun i _ => mul_comm _ _
  have e3 : (∑ i, b3 i * a3 i) = ∑ i, a3 i * b3 i := Finset.sum_congr rfl fun i _ => mul_comm _ _
  rw [e1, e2, e3]; exact h

theorem sum_head_shift (c : Nat) (hc : c ≤ n) (v : Vec K n) (d : K) :
    (∑ i : Fin n, if i.val < c then v[i] + d else 0) = (∑ i : Fin n, if i.val < c then v[i] else 0) + (c : K) * d := by
  rw [← count_head (K := K) c n hc, Finset.sum_mul, ← Finset.sum_add_distrib]
  refine Finset.sum_congr rfl fun i _ => ?_
  by_cases h : i.val < c <;> simp [h]

theorem shift_chain (P1 P2 P3 : Prop) [Decidable P1] [Decidable P2] [Decidable P3] (x1 x2 x3 : K) :
    let d1 := if P1 then vmax 0 x1 else 0
    let d2 := if P2 then vmax d1 x2 else d1
    let d3 := if P3 then vmax d2 x3 else d2
    0 ≤ d3 ∧ (P1 → x1 ≤ d3) ∧ (P2 → x2 ≤ d3) ∧ (P3 → x3 ≤ d3) := by
  intro d1 d2 d3
  have h1 : 0 ≤ d1 := by simp only [d1]; split; exact le_vmax_l _ _; exact le_refl _
  have h12 : d1 ≤ d2 := by simp only [d2]; split; exact le_vmax_l _ _; exact le_refl _
  have h23 : d2 ≤ d3 := by simp only [d3]; split; exact le_vmax_l _ _; exact le_refl _
  refine ⟨le_trans h1 (le_trans h12 h23), fun hp => ?_, fun hp => ?_, fun hp => ?_⟩
  · have : x1 ≤ d1 := by simp only [d1, hp, if_true]; exact le_vmax_r _ _
    exact le_trans this (le_trans h12 h23)
  · have : x2 ≤ d2 := by simp only [d2, hp, if_true]; exact le_vmax_r _ _
    exact le_trans this h23
  · simp only [d3, hp, if_true]; exact le_vmax_r _ _

/-- after the first shift every active slack and multiplier is non-negative -/
theorem first_shift_nonneg (cs : Consts K) (d : Data K n p m) (w : Work K n p m) (h15 : 1 ≤ cs.c1_5) :
    let dS := (mehrotraShift cs d w).1
    let dZ := (mehrotraShift cs d w).2.1
    (∀ i : Fin m, 0 ≤ w.s[i] + dS) ∧ (∀ i : Fin m, 0 ≤ w.z[i] + dZ) ∧
    (∀ i : Fin n, i.val < d.lb.cnt → 0 ≤ w.s_lb[i] + dS) ∧ (∀ i : Fin n, i.val < d.lb.cnt → 0 ≤ w.z_lb[i] + dZ) ∧
    (∀ i : Fin n, i.val < d.ub.cnt → 0 ≤ w.s_ub[i] + dS) ∧ (∀ i : Fin n, i.val < d.ub.cnt → 0 ≤ w.z_ub[i] + dZ) := by
  have cS := shift_chain (m ≠ 0) (d.lb.cnt ≠ 0) (d.ub.cnt ≠ 0)
    (-cs.c1_5 * minFin (w.s.getD 0 0) m fun i => w.s[i]) (-cs.c1_5 * minHead (w.s_lb.getD 0 0) d.lb.cnt w.s_lb)
    (-cs.c1_5 * minHead (w.s_ub.getD 0 0) d.ub.cnt w.s_ub)
  have cZ := shift_chain (m ≠ 0) (d.lb.cnt ≠ 0) (d.ub.cnt ≠ 0)
    (-cs.c1_5 * minFin (w.z.getD 0 0) m fun i => w.z[i]) (-cs.c1_5 * minHead (w.z_lb.getD 0 0) d.lb.cnt w.z_lb)
    (-cs.c1_5 * minHead (w.z_ub.getD 0 0) d.ub.cnt w.z_ub)
  obtain ⟨s0, s1, s2, s3⟩ := cS
  obtain ⟨z0, z1, z2, z3⟩ := cZ
  refine ⟨fun i => ?_, fun i => ?_, fun i hi => ?_, fun i hi => ?_, fun i hi => ?_, fun i hi => ?_⟩
  · have hm : m ≠ 0 := fun h => by subst h; exact i.elim0
    exact shifted_nonneg cs.c1_5 _ _ _ h15 s0 (minFin_le _ m (fun i => w.s[i]) i) (s1 hm)
  · have hm : m ≠ 0 := fun h => by subst h; exact i.elim0
    exact shifted_nonneg cs.c1_5 _ _ _ h15 z0 (minFin_le _ m (fun i => w.z[i]) i) (z1 hm)
  · have hl : d.lb.cnt ≠ 0 := by omega
    exact shifted_nonneg cs.c1_5 _ _ _ h15 s0 (minHead_le _ _ w.s_lb i hi) (s2 hl)
  · have hl : d.lb.cnt ≠ 0 := by omega
    exact shifted_nonneg cs.c1_5 _ _ _ h15 z0 (minHead_le _ _ w.z_lb i hi) (z2 hl)
  · have hl : d.ub.cnt ≠ 0 := by omega
    exact shifted_nonneg cs.c1_5 _ _ _ h15 s0 (minHead_le _ _ w.s_ub i hi) (s3 hl)
  · have hl : d.ub.cnt ≠ 0 := by omega
    exact shifted_nonneg cs.c1_5 _ _ _ h15 z0 (minHead_le _ _ w.z_ub i hi) (z3 hl)

theorem tp_eq (cs : Consts K) (d : Data K n p m) (w : Work K n p m) :
    (mehrotraShift cs d w).2.2 =
      (∑ i : Fin m, (w.s[i] + (mehrotraShift cs d w).1) * (w.z[i] + (mehrotraShift cs d w).2.1)) +
      (∑ i : Fin n, (if i.val < d.lb.cnt then w.s_lb[i] + (mehrotraShift cs d w).1 else 0) *
                    (if i.val < d.lb.cnt then w.z_lb[i] + (mehrotraShift cs d w).2.1 else 0)) +
      (∑ i : Fin n, (if i.val < d.ub.cnt then w.s_ub[i] + (mehrotraShift cs d w).1 else 0) *
                    (if i.val < d.ub.cnt then w.z_ub[i] + (mehrotraShift cs d w).2.1 else 0)) := by
  simp only [mehrotraShift, sumFin_eq_sum]
  congr 1
  · congr 1
    refine Finset.sum_congr rfl fun i _ => ?_
    by_cases h : i.val < d.lb.cnt <;> simp [h]
  · refine Finset.sum_congr rfl fun i _ => ?_
    by_cases h : i.val < d.ub.cnt <;> simp [h]

theorem denom_eq (d : Data K n p m) (hnl : d.lb.cnt ≤ n) (hnu : d.ub.cnt ≤ n) (z : Vec K m) (zl zu : Vec K n) (dZ : K) :
    Vec.sum z + sumHead d.lb.cnt zl + sumHead d.ub.cnt zu + ((m + d.lb.cnt + d.ub.cnt : Nat) : K) * dZ =
      (∑ i : Fin m, (z[i] + dZ)) + (∑ i : Fin n, if i.val < d.lb.cnt then zl[i] + dZ else 0) +
      (∑ i : Fin n, if i.val < d.ub.cnt then zu[i] + dZ else 0) := by
  rw [sum_head_shift d.lb.cnt hnl zl dZ, sum_head_shift d.ub.cnt hnu zu dZ, Finset.sum_add_distrib]
  simp only [Vec.sum, sumHead, sumFin_eq_sum, Finset.sum_const, Finset.card_univ, Fintype.card_fin, nsmul_eq_mul, Nat.cast_add]
  ring

/-- **C08, the initial point is strictly inside the cone.** For every workspace the initial KKT solve may have produced,
    after the two Mehrotra-style shifts every active slack and multiplier is strictly positive, provided the shifted
    complementarity product is positive (it is whenever the slacks are not all below `1e-4`, the case the code resets) -/
theorem mehrotra_in_cone (cs : Consts K) (d : Data K n p m) (w : Work K n p m) (hnl : d.lb.cnt ≤ n) (hnu : d.ub.cnt ≤ n)
    (h15 : 1 ≤ cs.c1_5) (h05 : 0 < cs.c0_5) (htp : 0 < (mehrotraShift cs d w).2.2) : InCone d (mehrotraApply cs d w) := by
  obtain ⟨ns, nz, nsl, nzl, nsu, nzu⟩ := first_shift_nonneg cs d w h15
  have htp' := htp
  rw [tp_eq] at htp'
  -- positivity of both denominators
  have hZ : 0 < Vec.sum w.z + sumHead d.lb.cnt w.z_lb + sumHead d.ub.cnt w.z_ub +
      ((m + d.lb.cnt + d.ub.cnt : Nat) : K) * (mehrotraShift cs d w).2.1 := by
    rw [denom_eq d hnl hnu]
    refine pos_of_prod_pos _ _ _ _ _ _ (fun i => nz i) (fun i => ?_) (fun i => ?_) htp'
    · by_cases h : i.val < d.lb.cnt <;> simp only [h, if_true, if_false, le_refl]; exact nzl i h
    · by_cases h : i.val < d.ub.cnt <;> simp only [h, if_true, if_false, le_refl]; exact nzu i h
  have hS : 0 < Vec.sum w.s + sumHead d.lb.cnt w.s_lb + sumHead d.ub.cnt w.s_ub +
      ((m + d.lb.cnt + d.ub.cnt : Nat) : K) * (mehrotraShift cs d w).1 := by
    rw [denom_eq d hnl hnu]
    refine pos_of_prod_pos_left _ _ _ _ _ _ (fun i => ns i) (fun i => ?_) (fun i => ?_) htp'
    · by_cases h : i.val < d.lb.cnt <;> simp only [h, if_true, if_false, le_refl]; exact nsl i h
    · by_cases h : i.val < d.ub.cnt <;> simp only [h, if_true, if_false, le_refl]; exact nsu i h
  have gS : 0 < cs.c0_5 * (mehrotraShift cs d w).2.2 /
      (Vec.sum w.z + sumHead d.lb.cnt w.z_lb + sumHead d.ub.cnt w.z_ub + ((m + d.lb.cnt + d.ub.cnt : Nat) : K) * (mehrotraShift cs d w).2.1) :=
    div_pos (mul_pos h05 htp) hZ
  have gZ : 0 < cs.c0_5 * (mehrotraShift cs d w).2.2 /
      (Vec.sum w.s + sumHead d.lb.cnt w.s_lb + sumHead d.ub.cnt w.s_ub + ((m + d.lb.cnt + d.ub.cnt : Nat) : K) * (mehrotraShift cs d w).1) :=
    div_pos (mul_pos h05 htp) hS
  unfold mehrotraApply
  refine ⟨fun i => ?_, fun i => ?_, fun i hi => ?_, fun i hi => ?_, fun i hi => ?_, fun i hi => ?_⟩
  · simp only [Fin.getElem_fin, Vector.getElem_ofFn]; have := ns i; simp only [Fin.getElem_fin] at this; linarith
  · simp only [Fin.getElem_fin, Vector.getElem_ofFn]; have := nz i; simp only [Fin.getElem_fin] at this; linarith
  · rw [headUpd_get']; simp only [hi, if_true]; have := nsl i hi; linarith
  · rw [headUpd_get']; simp only [hi, if_true]; have := nzl i hi; linarith
  · rw [headUpd_get']; simp only [hi, if_true]; have := nsu i hi; linarith
  · rw [headUpd_get']; simp only [hi, if_true]; have := nzu i hi; linarith

/-- the loop state `solve()` hands to the main loop is strictly inside the cone -/
theorem initialPoint_in_cone (cs : Consts K) (s : Solver K n p m) (e : Env K n p m) (w0 : Work K n p m) (kkt1 : KKT K n p m)
    (info1 : Info K) (refineOn : Bool) (hnl : s.data.lb.cnt ≤ n) (hnu : s.data.ub.cnt ≤ n) (h15 : 1 ≤ cs.c1_5) (h05 : 0 < cs.c0_5)
    (hguard : m + s.data.lb.cnt + s.data.ub.cnt ≠ 0 →
      0 < (mehrotraShift cs s.data (ipBeforeShift cs s e w0 kkt1 refineOn)).2.2) :
    InCone s.data (initialPoint cs s e w0 kkt1 info1 refineOn).w := by
  unfold initialPoint
  simp only
  by_cases h : m + s.data.lb.cnt + s.data.ub.cnt ≠ 0
  · simp only [h, ne_eq, not_false_eq_true, if_true]
    exact (mehrotra_in_cone cs s.data _ hnl hnu h15 h05 (hguard h)).of_fields rfl rfl rfl rfl rfl rfl
  · have h0 : m + s.data.lb.cnt + s.data.ub.cnt = 0 := Decidable.not_not.mp h
    have hm : m = 0 := by omega
    have hl : s.data.lb.cnt = 0 := by omega
    have hu : s.data.ub.cnt = 0 := by omega
    subst hm
    exact ⟨fun i => i.elim0, fun i => i.elim0, fun i hi => by omega, fun i hi => by omega, fun i hi => by omega, fun i hi => by omega⟩

/-- **C08, every iterate `solve()` can return is strictly inside the cone**: the main loop started from the initial point
    ends, at whatever exit, with positive slacks and multipliers on every active block (before unscaling and re-indexing) -/
theorem solve_loop_in_cone (cs : Consts K) (sqrtF : K → K) (s : Solver K n p m) (perm : Vector (Fin (n + p + m)) (n + p + m))
    (w0 : Work K n p m) (kkt1 : KKT K n p m) (info1 : Info K) (refineOn : Bool)
    (hnl : s.data.lb.cnt ≤ n) (hnu : s.data.ub.cnt ≤ n) (h15 : 1 ≤ cs.c1_5) (h05 : 0 < cs.c0_5)
    (hτ0 : 0 < s.st.tau) (hτ1 : s.st.tau < 1) (heps : 0 ≤ cs.machEps)
    (hguard : m + s.data.lb.cnt + s.data.ub.cnt ≠ 0 →
      0 < (mehrotraShift cs s.data (ipBeforeShift cs s (Solver.env cs sqrtF s perm) w0 kkt1 refineOn)).2.2) :
    InCone s.data (mainLoop (Solver.env cs sqrtF s perm)
      (initialPoint cs s (Solver.env cs sqrtF s perm) w0 kkt1 info1 refineOn)).1.w :=
  mainLoop_in_cone (Solver.env cs sqrtF s perm) _ hτ0 hτ1 heps
    (initialPoint_in_cone cs s _ w0 kkt1 info1 refineOn hnl hnu h15 h05 hguard)


/-! ### From the loop iterate to the stored results: unscaling and re-indexing keep the results well formed -/

open Piqp.C15

/-- re-indexing keeps signs: packed values (> 0) at their variables, the fill value (≥ 0 resp. > 0) elsewhere -/
theorem restore_pos (b : BoxSide K n) (hcn : b.cnt ≤ n) (hs : StrictIdx b.idx b.cnt) (fill : K) (v : Vec K n)
    (hv : ∀ t : Fin n, t.val < b.cnt → 0 < v[t]) :
    ∀ j : Fin n, (restoreBox b fill v)[j] = fill ∨ 0 < (restoreBox b fill v)[j] := by
  obtain ⟨r1, r2⟩ := restoreBox_spec b hcn hs fill v
  intro j
  by_cases h : ∃ t : Fin n, t.val < b.cnt ∧ b.idx[t] = j
  · obtain ⟨t, ht, hj⟩ := h
    right
    subst hj
    rw [r1 t ht]; exact hv t ht
  · left
    exact r2 j (fun t ht heq => h ⟨t, ht, heq⟩)

/-- **C08 at the interface: what `solve()` stores after the main loop is well formed.** Unscaling (positive scalings) and
    re-indexing (strictly increasing packing) turn an iterate that is strictly inside the cone into result vectors with
    `s > 0`, `z > 0`, and for the box vectors in original indexing: `z_lb, z_ub` are exactly `0` or positive, `s_lb, s_ub` are exactly
    `+∞` (the solver's constant) or positive — for every `n`, every finite/infinite pattern. -/
theorem results_wellformed (cs : Consts K) (pk : PrecKind) (hk : pk ≠ .identity) (d : Data K n p m) (pre : Precond K n p m)
    (hp : Pos pre) (hi : InvFull pre) (hnlb : pre.nlb = d.lb.cnt) (hnub : pre.nub = d.ub.cnt)
    (hl : d.lb.cnt ≤ n) (hu : d.ub.cnt ≤ n) (sl : StrictIdx d.lb.idx d.lb.cnt) (su : StrictIdx d.ub.idx d.ub.cnt)
    (wl : Work K n p m) (hc : InCone d wl) :
    let res := restoreBoxDual cs d (unscaleResults pk pre wl)
    (∀ t : Fin m, 0 < res.s[t]) ∧ (∀ t : Fin m, 0 < res.z[t]) ∧
    (∀ j : Fin n, res.z_lb[j] = 0 ∨ 0 < res.z_lb[j]) ∧ (∀ j : Fin n, res.z_ub[j] = 0 ∨ 0 < res.z_ub[j]) ∧
    (∀ j : Fin n, res.s_lb[j] = cs.posInf ∨ 0 < res.s_lb[j]) ∧ (∀ j : Fin n, res.s_ub[j] = cs.posInf ∨ 0 < res.s_ub[j]) := by
  obtain ⟨ic, ix, iy, iz, il, iu⟩ := inv_pos_of pre hp hi
  simp only [restoreBoxDual, unscaleResults]
  refine ⟨fun t => ?_, fun t => ?_, ?_, ?_, ?_, ?_⟩
  · simp only [Precond.unscaleSlackIneq, hk, if_false, C15.ofFn_get]
    exact mul_pos (hc.s t) (iz t)
  · simp only [Precond.unscaleDualIneq, hk, if_false, C15.ofFn_get]
    exact mul_pos (mul_pos (hc.z t) ic) (hp.dz t)
  · apply restore_pos d.lb hl sl
    intro t ht
    simp only [Precond.unscaleDualLb, hk, if_false, C15.headMap_get, hnlb, ht, if_true]
    exact mul_pos (mul_pos (hc.z_lb t ht) ic) (hp.dlb t)
  · apply restore_pos d.ub hu su
    intro t ht
    simp only [Precond.unscaleDualUb, hk, if_false, C15.headMap_get, hnub, ht, if_true]
    exact mul_pos (mul_pos (hc.z_ub t ht) ic) (hp.dub t)
  · apply restore_pos d.lb hl sl
    intro t ht
    simp only [Precond.unscaleSlackLb, hk, if_false, C15.headMap_get, hnlb, ht, if_true]
    exact mul_pos (hc.s_lb t ht) (il t)
  · apply restore_pos d.ub hu su
    intro t ht
    simp only [Precond.unscaleSlackUb, hk, if_false, C15.headMap_get, hnub, ht, if_true]
    exact mul_pos (hc.s_ub t ht) (iu t)

/-- the same for the identity preconditioner (no unscaling): no hypothesis on the preconditioner state at all -/
theorem results_wellformed_identity (cs : Consts K) (pk : PrecKind) (hk : pk = .identity) (d : Data K n p m) (pre : Precond K n p m)
    (hl : d.lb.cnt ≤ n) (hu : d.ub.cnt ≤ n) (sl : StrictIdx d.lb.idx d.lb.cnt) (su : StrictIdx d.ub.idx d.ub.cnt)
    (wl : Work K n p m) (hc : InCone d wl) :
    let res := restoreBoxDual cs d (unscaleResults pk pre wl)
    (∀ t : Fin m, 0 < res.s[t]) ∧ (∀ t : Fin m, 0 < res.z[t]) ∧
    (∀ j : Fin n, res.z_lb[j] = 0 ∨ 0 < res.z_lb[j]) ∧ (∀ j : Fin n, res.z_ub[j] = 0 ∨ 0 < res.z_ub[j]) ∧
    (∀ j : Fin n, res.s_lb[j] = cs.posInf ∨ 0 < res.s_lb[j]) ∧ (∀ j : Fin n, res.s_ub[j] = cs.posInf ∨ 0 < res.s_ub[j]) := by
  subst hk
  simp only [restoreBoxDual, unscaleResults]
  refine ⟨fun t => ?_, fun t => ?_, ?_, ?_, ?_, ?_⟩
  · simp only [Precond.unscaleSlackIneq, if_true]
    exact hc.s t
  · simp only [Precond.unscaleDualIneq, if_true]
    exact hc.z t
  · apply restore_pos d.lb hl sl
    intro t ht
    simp only [Precond.unscaleDualLb, if_true]
    exact hc.z_lb t ht
  · apply restore_pos d.ub hu su
    intro t ht
    simp only [Precond.unscaleDualUb, if_true]
    exact hc.z_ub t ht
  · apply restore_pos d.lb hl sl
    intro t ht
    simp only [Precond.unscaleSlackLb, if_true]
    exact hc.s_lb t ht
  · apply restore_pos d.ub hu su
    intro t ht
    simp only [Precond.unscaleSlackUb, if_true]
    exact hc.s_ub t ht

end cone
end Piqp.C08
