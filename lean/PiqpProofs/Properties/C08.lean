import PiqpProofs.Basic
import PiqpModel.Pack

/-!
# C08 — result vectors are well-formed at every stopping point
-/

namespace Piqp.C08

variable {K : Type}
variable {n : Nat}

/-- the swap loop only permutes: every entry of the result is an entry of the input -/
theorem swapLoop_mem (idx : Vector (Fin n) n) (k : Nat) (v : Vec K n) (i : Fin n) :
    ∃ j : Fin n, (swapLoop idx k v)[i] = v[j] := by
  induction k generalizing v with
  | zero => exact ⟨i, rfl⟩
  | succ k ih =>
    unfold swapLoop
    split
    · rename_i h
      obtain ⟨j, hj⟩ := ih (v.swap k idx[k].val h idx[k].isLt)
      rw [hj]
      simp only [Fin.getElem_fin, Vector.getElem_swap]
      split
      · exact ⟨idx[k], rfl⟩
      · split
        · exact ⟨⟨k, h⟩, rfl⟩
        · exact ⟨j, rfl⟩
    · exact ih v

end Piqp.C08
