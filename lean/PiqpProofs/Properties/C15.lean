import PiqpProofs.Basic
import PiqpModel.Precond
import Mathlib.Tactic.Ring
import Mathlib.Tactic.FieldSimp
import Mathlib.Tactic.Linarith
import Mathlib.Algebra.Order.Field.Basic

/-!
# C15 — preconditioning is an exact change of variables
-/

set_option linter.unusedSectionVars false
set_option linter.unusedSimpArgs false
set_option linter.unusedVariables false

namespace Piqp.C15

variable {K : Type} [Field K] [LinearOrder K]
variable {n p m : Nat}

/-- `InvCoherent`: every inverse scaling is the inverse on the active index range -/
structure InvCoherent (pre : Precond K n p m) : Prop where
  c : pre.c * pre.cInv = 1
  dx : ∀ i : Fin n, pre.dx[i] * pre.dxInv[i] = 1
  dy : ∀ i : Fin p, pre.dy[i] * pre.dyInv[i] = 1
  dz : ∀ i : Fin m, pre.dz[i] * pre.dzInv[i] = 1
  dlb : ∀ i : Fin n, i.val < pre.nlb → pre.dlb[i] * pre.dlbInv[i] = 1
  dub : ∀ i : Fin n, i.val < pre.nub → pre.dub[i] * pre.dubInv[i] = 1

theorem unscale_scale_primal (kind : PrecKind) (pre : Precond K n p m) (h : InvCoherent pre) (x : Vec K n) :
    pre.unscalePrimal kind (pre.scalePrimal kind x) = x := by
  unfold Precond.unscalePrimal Precond.scalePrimal
  split
  · rfl
  · apply Vector.ext
    intro i hi
    simp only [Vector.getElem_ofFn, Fin.getElem_fin]
    have := h.dx ⟨i, hi⟩
    simp only [Fin.getElem_fin] at this
    rw [mul_assoc, mul_comm (pre.dxInv[i]), this, mul_one]

theorem scale_unscale_primal (kind : PrecKind) (pre : Precond K n p m) (h : InvCoherent pre) (x : Vec K n) :
    pre.scalePrimal kind (pre.unscalePrimal kind x) = x := by
  unfold Precond.unscalePrimal Precond.scalePrimal
  split
  · rfl
  · apply Vector.ext
    intro i hi
    simp only [Vector.getElem_ofFn, Fin.getElem_fin]
    have := h.dx ⟨i, hi⟩
    simp only [Fin.getElem_fin] at this
    rw [mul_assoc, this, mul_one]

theorem unscale_scale_dual_eq (kind : PrecKind) (pre : Precond K n p m) (h : InvCoherent pre) (y : Vec K p) :
    pre.unscaleDualEq kind (pre.scaleDualEq kind y) = y := by
  unfold Precond.unscaleDualEq Precond.scaleDualEq
  split
  · rfl
  · apply Vector.ext
    intro i hi
    simp only [Vector.getElem_ofFn, Fin.getElem_fin]
    have h1 := h.dy ⟨i, hi⟩
    have h2 := h.c
    simp only [Fin.getElem_fin] at h1
    calc y[i] * pre.c * pre.dyInv[i] * pre.cInv * pre.dy[i]
        = y[i] * (pre.c * pre.cInv) * (pre.dy[i] * pre.dyInv[i]) := by ring
      _ = y[i] := by rw [h1, h2]; ring

theorem unscale_scale_dual_ineq (kind : PrecKind) (pre : Precond K n p m) (h : InvCoherent pre) (z : Vec K m) :
    pre.unscaleDualIneq kind (pre.scaleDualIneq kind z) = z := by
  unfold Precond.unscaleDualIneq Precond.scaleDualIneq
  split
  · rfl
  · apply Vector.ext
    intro i hi
    simp only [Vector.getElem_ofFn, Fin.getElem_fin]
    have h1 := h.dz ⟨i, hi⟩
    have h2 := h.c
    simp only [Fin.getElem_fin] at h1
    calc z[i] * pre.c * pre.dzInv[i] * pre.cInv * pre.dz[i]
        = z[i] * (pre.c * pre.cInv) * (pre.dz[i] * pre.dzInv[i]) := by ring
      _ = z[i] := by rw [h1, h2]; ring

/-- on the active head the box multiplier scalings are mutual inverses; the tail is left untouched by both -/
theorem unscale_scale_dual_lb (kind : PrecKind) (pre : Precond K n p m) (h : InvCoherent pre) (z : Vec K n) :
    pre.unscaleDualLb kind (pre.scaleDualLb kind z) = z := by
  unfold Precond.unscaleDualLb Precond.scaleDualLb headMap
  split
  · rfl
  · apply Vector.ext
    intro i hi
    simp only [Vector.getElem_ofFn, Fin.getElem_fin]
    split
    · rename_i hlt
      have h1 := h.dlb ⟨i, hi⟩ hlt
      have h2 := h.c
      simp only [Fin.getElem_fin] at h1
      calc z[i] * pre.c * pre.dlbInv[i] * pre.cInv * pre.dlb[i]
          = z[i] * (pre.c * pre.cInv) * (pre.dlb[i] * pre.dlbInv[i]) := by ring
        _ = z[i] := by rw [h1, h2]; ring
    · rfl

theorem unscale_scale_slack_lb (kind : PrecKind) (pre : Precond K n p m) (h : InvCoherent pre) (s : Vec K n) :
    pre.unscaleSlackLb kind (pre.scaleSlackLb kind s) = s := by
  unfold Precond.unscaleSlackLb Precond.scaleSlackLb headMap
  split
  · rfl
  · apply Vector.ext
    intro i hi
    simp only [Vector.getElem_ofFn, Fin.getElem_fin]
    split
    · rename_i hlt
      have h1 := h.dlb ⟨i, hi⟩ hlt
      simp only [Fin.getElem_fin] at h1
      rw [mul_assoc, h1, mul_one]
    · rfl

theorem unscale_scale_cost (kind : PrecKind) (pre : Precond K n p m) (h : InvCoherent pre) (v : K) :
    pre.unscaleCost kind (pre.scaleCost kind v) = v := by
  unfold Precond.unscaleCost Precond.scaleCost
  split
  · rfl
  · rw [← mul_assoc, mul_comm pre.cInv, h.c, one_mul]

theorem unscale_scale_dual_ub (kind : PrecKind) (pre : Precond K n p m) (h : InvCoherent pre) (z : Vec K n) :
    pre.unscaleDualUb kind (pre.scaleDualUb kind z) = z := by
  unfold Precond.unscaleDualUb Precond.scaleDualUb headMap
  split
  · rfl
  · apply Vector.ext
    intro i hi
    simp only [Vector.getElem_ofFn, Fin.getElem_fin]
    split
    · rename_i hlt
      have h1 := h.dub ⟨i, hi⟩ hlt
      have h2 := h.c
      simp only [Fin.getElem_fin] at h1
      calc z[i] * pre.c * pre.dubInv[i] * pre.cInv * pre.dub[i]
          = z[i] * (pre.c * pre.cInv) * (pre.dub[i] * pre.dubInv[i]) := by ring
        _ = z[i] := by rw [h1, h2]; ring
    · rfl

theorem unscale_scale_slack_ub (kind : PrecKind) (pre : Precond K n p m) (h : InvCoherent pre) (s : Vec K n) :
    pre.unscaleSlackUb kind (pre.scaleSlackUb kind s) = s := by
  unfold Precond.unscaleSlackUb Precond.scaleSlackUb headMap
  split
  · rfl
  · apply Vector.ext
    intro i hi
    simp only [Vector.getElem_ofFn, Fin.getElem_fin]
    split
    · rename_i hlt
      have h1 := h.dub ⟨i, hi⟩ hlt
      simp only [Fin.getElem_fin] at h1
      rw [mul_assoc, h1, mul_one]
    · rfl

theorem unscale_scale_slack_ineq (kind : PrecKind) (pre : Precond K n p m) (h : InvCoherent pre) (s : Vec K m) :
    pre.unscaleSlackIneq kind (pre.scaleSlackIneq kind s) = s := by
  unfold Precond.unscaleSlackIneq Precond.scaleSlackIneq
  split
  · rfl
  · apply Vector.ext
    intro i hi
    simp only [Vector.getElem_ofFn, Fin.getElem_fin]
    have h1 := h.dz ⟨i, hi⟩
    simp only [Fin.getElem_fin] at h1
    rw [mul_assoc, h1, mul_one]

theorem unscale_scale_primal_res_eq (kind : PrecKind) (pre : Precond K n p m) (h : InvCoherent pre) (r : Vec K p) :
    pre.unscalePrimalResEq kind (pre.scalePrimalResEq kind r) = r := by
  unfold Precond.unscalePrimalResEq Precond.scalePrimalResEq
  split
  · rfl
  · apply Vector.ext
    intro i hi
    simp only [Vector.getElem_ofFn, Fin.getElem_fin]
    have h1 := h.dy ⟨i, hi⟩
    simp only [Fin.getElem_fin] at h1
    rw [mul_assoc, h1, mul_one]

theorem unscale_scale_primal_res_ineq (kind : PrecKind) (pre : Precond K n p m) (h : InvCoherent pre) (r : Vec K m) :
    pre.unscalePrimalResIneq kind (pre.scalePrimalResIneq kind r) = r := by
  unfold Precond.unscalePrimalResIneq Precond.scalePrimalResIneq
  split
  · rfl
  · apply Vector.ext
    intro i hi
    simp only [Vector.getElem_ofFn, Fin.getElem_fin]
    have h1 := h.dz ⟨i, hi⟩
    simp only [Fin.getElem_fin] at h1
    rw [mul_assoc, h1, mul_one]

theorem unscale_scale_primal_res_lb (kind : PrecKind) (pre : Precond K n p m) (h : InvCoherent pre) (r : Vec K n) :
    pre.unscalePrimalResLb kind (pre.scalePrimalResLb kind r) = r := by
  unfold Precond.unscalePrimalResLb Precond.scalePrimalResLb headMap
  split
  · rfl
  · apply Vector.ext
    intro i hi
    simp only [Vector.getElem_ofFn, Fin.getElem_fin]
    split
    · rename_i hlt
      have h1 := h.dlb ⟨i, hi⟩ hlt
      simp only [Fin.getElem_fin] at h1
      rw [mul_assoc, h1, mul_one]
    · rfl

theorem unscale_scale_primal_res_ub (kind : PrecKind) (pre : Precond K n p m) (h : InvCoherent pre) (r : Vec K n) :
    pre.unscalePrimalResUb kind (pre.scalePrimalResUb kind r) = r := by
  unfold Precond.unscalePrimalResUb Precond.scalePrimalResUb headMap
  split
  · rfl
  · apply Vector.ext
    intro i hi
    simp only [Vector.getElem_ofFn, Fin.getElem_fin]
    split
    · rename_i hlt
      have h1 := h.dub ⟨i, hi⟩ hlt
      simp only [Fin.getElem_fin] at h1
      rw [mul_assoc, h1, mul_one]
    · rfl

theorem unscale_scale_dual_res (kind : PrecKind) (pre : Precond K n p m) (h : InvCoherent pre) (r : Vec K n) :
    pre.unscaleDualRes kind (pre.scaleDualRes kind r) = r := by
  unfold Precond.unscaleDualRes Precond.scaleDualRes
  split
  · rfl
  · apply Vector.ext
    intro i hi
    simp only [Vector.getElem_ofFn, Fin.getElem_fin]
    have h1 := h.dx ⟨i, hi⟩
    have h2 := h.c
    simp only [Fin.getElem_fin] at h1
    calc r[i] * pre.c * pre.dx[i] * pre.cInv * pre.dxInv[i]
        = r[i] * (pre.c * pre.cInv) * (pre.dx[i] * pre.dxInv[i]) := by ring
      _ = r[i] := by rw [h1, h2]; ring

/-- the preconditioner right after `init` is coherent (all scalings 1) -/
theorem init_invCoherent (d : Data K n p m) : InvCoherent (Precond.init d) := by
  constructor <;> simp [Precond.init, Vec.const]


/-! ## `scale_data` is the reported change of variables; `unscale_data` undoes it -/

@[simp] theorem ofFn_get {α : Type} {q : Nat} (f : Fin q → α) (i : Fin q) : (Vector.ofFn f)[i] = f i := by simp
@[simp] theorem matOfFn_get {r c : Nat} (f : Fin r → Fin c → K) (i : Fin r) (j : Fin c) : (Mat.ofFn f)[i][j] = f i j := by
  simp [Mat.ofFn]
@[simp] theorem vecConst_get {q : Nat} (a : K) (i : Fin q) : (Vec.const q a)[i] = a := by simp [Vec.const]
@[simp] theorem headMap_get (cnt : Nat) (v : Vec K n) (f : Fin n → K) (i : Fin n) :
    (headMap cnt v f)[i] = if i.val < cnt then f i else v[i] := by
  simp only [headMap, ofFn_get]

/-- `d` is `d0` transformed by the scalings recorded in `pre`: the content of "the scaled data are the original data
    under the change of variables `x = D x̂`, cost factor `c`, row scalings `E_y, E_z, E_lb, E_ub`". Only the stored upper
    triangle of `P` is constrained. -/
structure Applied (d0 d : Data K n p m) (pre : Precond K n p m) : Prop where
  P : ∀ i j : Fin n, i.val ≤ j.val → d.P[i][j] = d0.P[i][j] * pre.c * pre.dx[i] * pre.dx[j]
  c : ∀ k : Fin n, d.c[k] = d0.c[k] * pre.c * pre.dx[k]
  AT : ∀ (i : Fin n) (j : Fin p), d.AT[i][j] = pre.dx[i] * d0.AT[i][j] * pre.dy[j]
  GT : ∀ (i : Fin n) (j : Fin m), d.GT[i][j] = pre.dx[i] * d0.GT[i][j] * pre.dz[j]
  lbcnt : d.lb.cnt = d0.lb.cnt
  lbidx : d.lb.idx = d0.lb.idx
  lbsc : ∀ j : Fin n, j.val < d0.lb.cnt → d.lb.sc[j] = d0.lb.sc[j] * pre.dlb[j] * pre.dx[d0.lb.idx[j]]
  ubcnt : d.ub.cnt = d0.ub.cnt
  ubidx : d.ub.idx = d0.ub.idx
  ubsc : ∀ j : Fin n, j.val < d0.ub.cnt → d.ub.sc[j] = d0.ub.sc[j] * pre.dub[j] * pre.dx[d0.ub.idx[j]]

theorem ruizBody_applied (kind : PrecKind) (sqrtF : K → K) (cs : Consts K) (scaleCost : Bool)
    (d0 : Data K n p m) (st : RuizState K n p m) (h : Applied d0 st.d st.pre) :
    Applied d0 (ruizBody kind sqrtF cs scaleCost st).d (ruizBody kind sqrtF cs scaleCost st).pre := by
  unfold ruizBody
  cases scaleCost
  · simp only [Bool.false_eq_true, if_false]
    refine ⟨?_, ?_, ?_, ?_, h.lbcnt, h.lbidx, ?_, h.ubcnt, h.ubidx, ?_⟩
    · intro i j hij
      simp only [scaleP, matOfFn_get, hij, if_true, ofFn_get, h.P i j hij]
      ring
    · intro k; simp only [ofFn_get, h.c k]; ring
    · intro i j; simp only [scaleMat, matOfFn_get, ofFn_get, h.AT i j]; ring
    · intro i j; simp only [scaleMat, matOfFn_get, ofFn_get, h.GT i j]; ring
    · intro j hj
      have hj' : j.val < st.d.lb.cnt := by rw [h.lbcnt]; exact hj
      simp only [scaleBoxSc, headMap_get, hj', if_true, ofFn_get, h.lbsc j hj, h.lbidx]
      ring
    · intro j hj
      have hj' : j.val < st.d.ub.cnt := by rw [h.ubcnt]; exact hj
      simp only [scaleBoxSc, headMap_get, hj', if_true, ofFn_get, h.ubsc j hj, h.ubidx]
      ring
  · simp only [if_true]
    refine ⟨?_, ?_, ?_, ?_, h.lbcnt, h.lbidx, ?_, h.ubcnt, h.ubidx, ?_⟩
    · intro i j hij
      simp only [scaleAll, scaleP, matOfFn_get, hij, if_true, ofFn_get, h.P i j hij]
      ring
    · intro k; simp only [ofFn_get, h.c k]; ring
    · intro i j; simp only [scaleMat, matOfFn_get, ofFn_get, h.AT i j]; ring
    · intro i j; simp only [scaleMat, matOfFn_get, ofFn_get, h.GT i j]; ring
    · intro j hj
      have hj' : j.val < st.d.lb.cnt := by rw [h.lbcnt]; exact hj
      simp only [scaleBoxSc, headMap_get, hj', if_true, ofFn_get, h.lbsc j hj, h.lbidx]
      ring
    · intro j hj
      have hj' : j.val < st.d.ub.cnt := by rw [h.ubcnt]; exact hj
      simp only [scaleBoxSc, headMap_get, hj', if_true, ofFn_get, h.ubsc j hj, h.ubidx]
      ring

/-- the Ruiz loop, for every iteration budget, every `sqrt`, every constant set, with or without cost scaling -/
theorem ruizLoop_applied (kind : PrecKind) (sqrtF : K → K) (cs : Consts K) (scaleCost : Bool) (d0 : Data K n p m) :
    ∀ (fuel : Nat) (st : RuizState K n p m), Applied d0 st.d st.pre →
      Applied d0 (ruizLoop kind sqrtF cs scaleCost fuel st).d (ruizLoop kind sqrtF cs scaleCost fuel st).pre := by
  intro fuel
  induction fuel with
  | zero => intro st h; exact h
  | succ fuel ih =>
    intro st h
    simp only [ruizLoop]
    split
    · exact ih _ (ruizBody_applied kind sqrtF cs scaleCost d0 st h)
    · exact h

/-- the loop leaves `b`, `h` and the bound values alone -/
theorem ruizLoop_frame (kind : PrecKind) (sqrtF : K → K) (cs : Consts K) (scaleCost : Bool) :
    ∀ (fuel : Nat) (st : RuizState K n p m),
      let r := ruizLoop kind sqrtF cs scaleCost fuel st
      r.d.b = st.d.b ∧ r.d.h = st.d.h ∧ r.d.lb.val = st.d.lb.val ∧ r.d.ub.val = st.d.ub.val ∧
      r.pre.nlb = st.pre.nlb ∧ r.pre.nub = st.pre.nub := by
  intro fuel
  induction fuel with
  | zero => intro st; exact ⟨rfl, rfl, rfl, rfl, rfl, rfl⟩
  | succ fuel ih =>
    intro st
    simp only [ruizLoop]
    split
    · have h1 := ih (ruizBody kind sqrtF cs scaleCost st)
      have h2 : (ruizBody kind sqrtF cs scaleCost st).d.b = st.d.b ∧ (ruizBody kind sqrtF cs scaleCost st).d.h = st.d.h ∧
          (ruizBody kind sqrtF cs scaleCost st).d.lb.val = st.d.lb.val ∧ (ruizBody kind sqrtF cs scaleCost st).d.ub.val = st.d.ub.val ∧
          (ruizBody kind sqrtF cs scaleCost st).pre.nlb = st.pre.nlb ∧ (ruizBody kind sqrtF cs scaleCost st).pre.nub = st.pre.nub := by
        unfold ruizBody; cases scaleCost <;> exact ⟨rfl, rfl, rfl, rfl, rfl, rfl⟩
      obtain ⟨a1, a2, a3, a4, a5, a6⟩ := h1
      obtain ⟨b1, b2, b3, b4, b5, b6⟩ := h2
      exact ⟨a1.trans b1, a2.trans b2, a3.trans b3, a4.trans b4, a5.trans b5, a6.trans b6⟩
    · exact ⟨rfl, rfl, rfl, rfl, rfl, rfl⟩

/-- what `scale_data` returns: `Applied` plus right-hand sides and bound values multiplied by the row scalings, and the
    preconditioner's record of the box counts in step with the data -/
structure Scaled (d0 d : Data K n p m) (pre : Precond K n p m) : Prop extends Applied d0 d pre where
  b : ∀ k : Fin p, d.b[k] = d0.b[k] * pre.dy[k]
  h : ∀ k : Fin m, d.h[k] = d0.h[k] * pre.dz[k]
  lbval : ∀ k : Fin n, d.lb.val[k] = if k.val < d0.lb.cnt then d0.lb.val[k] * pre.dlb[k] else d0.lb.val[k]
  ubval : ∀ k : Fin n, d.ub.val[k] = if k.val < d0.ub.cnt then d0.ub.val[k] * pre.dub[k] else d0.ub.val[k]
  nlb : pre.nlb = d0.lb.cnt
  nub : pre.nub = d0.ub.cnt

theorem applied_init (d0 : Data K n p m) (pre : Precond K n p m)
    (hc : pre.c = 1) (hx : ∀ i : Fin n, pre.dx[i] = 1) (hy : ∀ i : Fin p, pre.dy[i] = 1) (hz : ∀ i : Fin m, pre.dz[i] = 1)
    (hl : ∀ i : Fin n, pre.dlb[i] = 1) (hu : ∀ i : Fin n, pre.dub[i] = 1) : Applied d0 d0 pre := by
  refine ⟨?_, ?_, ?_, ?_, rfl, rfl, ?_, rfl, rfl, ?_⟩
  · intro i j _; rw [hc, hx, hx]; ring
  · intro k; rw [hc, hx]; ring
  · intro i j; rw [hx, hy]; ring
  · intro i j; rw [hx, hz]; ring
  · intro j _; rw [hl, hx]; ring
  · intro j _; rw [hu, hx]; ring

theorem scaled_of_loop (d0 : Data K n p m) (st : RuizState K n p m) (hA : Applied d0 st.d st.pre)
    (hb : st.d.b = d0.b) (hh : st.d.h = d0.h) (hlv : st.d.lb.val = d0.lb.val) (huv : st.d.ub.val = d0.ub.val)
    (hnl : st.pre.nlb = d0.lb.cnt) (hnu : st.pre.nub = d0.ub.cnt)
    (ci : K) (xi : Vec K n) (yi : Vec K p) (zi : Vec K m) (li ui : Vec K n) :
    Scaled d0
      { st.d with b := Vector.ofFn fun k => st.d.b[k] * st.pre.dy[k],
                  h := Vector.ofFn fun k => st.d.h[k] * st.pre.dz[k],
                  lb := { st.d.lb with val := headMap st.d.lb.cnt st.d.lb.val fun k => st.d.lb.val[k] * st.pre.dlb[k] },
                  ub := { st.d.ub with val := headMap st.d.ub.cnt st.d.ub.val fun k => st.d.ub.val[k] * st.pre.dub[k] } }
      { st.pre with cInv := ci, dxInv := xi, dyInv := yi, dzInv := zi, dlbInv := li, dubInv := ui } := by
  refine ⟨⟨hA.P, hA.c, hA.AT, hA.GT, hA.lbcnt, hA.lbidx, hA.lbsc, hA.ubcnt, hA.ubidx, hA.ubsc⟩, ?_, ?_, ?_, ?_, hnl, hnu⟩
  · intro k; simp only [ofFn_get, hb]
  · intro k; simp only [ofFn_get, hh]
  · intro k; simp only [headMap_get, hA.lbcnt, hlv]
  · intro k; simp only [headMap_get, hA.ubcnt, huv]

/-- **C15, scaling is a change of variables.** For both Ruiz variants, with or without reuse of the previous scaling,
    for every iteration budget, `sqrt`, constants and cost-scaling flag: the data `scale_data` leaves behind are the
    data it was given transformed by the scalings it reports. -/
theorem scaleData_scaled (kind : PrecKind) (hk : kind ≠ .identity) (sqrtF : K → K) (cs : Consts K)
    (d0 : Data K n p m) (pre : Precond K n p m) (reuse scaleCost : Bool) (maxIter : Nat) :
    Scaled d0 (pre.scaleData kind sqrtF cs d0 reuse scaleCost maxIter).1 (pre.scaleData kind sqrtF cs d0 reuse scaleCost maxIter).2 := by
  cases kind
  case identity => exact absurd rfl hk
  all_goals
    cases reuse
    · simp only [Precond.scaleData, Bool.not_false, if_true]
      have h0 := applied_init d0 (n := n) (p := p) (m := m)
      refine scaled_of_loop d0 _ (ruizLoop_applied _ sqrtF cs scaleCost d0 maxIter _
        (applied_init d0 _ rfl (fun i => vecConst_get 1 i) (fun i => vecConst_get 1 i) (fun i => vecConst_get 1 i)
          (fun i => vecConst_get 1 i) (fun i => vecConst_get 1 i))) ?_ ?_ ?_ ?_ ?_ ?_ _ _ _ _ _ _
      · exact (ruizLoop_frame _ sqrtF cs scaleCost maxIter _).1
      · exact (ruizLoop_frame _ sqrtF cs scaleCost maxIter _).2.1
      · exact (ruizLoop_frame _ sqrtF cs scaleCost maxIter _).2.2.1
      · exact (ruizLoop_frame _ sqrtF cs scaleCost maxIter _).2.2.2.1
      · exact (ruizLoop_frame _ sqrtF cs scaleCost maxIter _).2.2.2.2.1
      · exact (ruizLoop_frame _ sqrtF cs scaleCost maxIter _).2.2.2.2.2
    · simp only [Precond.scaleData, Bool.not_true, Bool.false_eq_true, if_false]
      refine ⟨⟨?_, ?_, ?_, ?_, rfl, rfl, ?_, rfl, rfl, ?_⟩, ?_, ?_, ?_, ?_, rfl, rfl⟩
      · intro i j hij; simp only [scaleP, scaleAll, matOfFn_get, hij, if_true]
      · intro k; simp only [ofFn_get]; ring
      · intro i j; simp only [scaleMat, matOfFn_get]
      · intro i j; simp only [scaleMat, matOfFn_get]
      · intro j hj; simp only [scaleBoxSc, headMap_get, hj, if_true]
      · intro j hj; simp only [scaleBoxSc, headMap_get, hj, if_true]
      · intro k; simp only [ofFn_get]
      · intro k; simp only [ofFn_get]
      · intro k; simp only [headMap_get]
      · intro k; simp only [headMap_get]

/-- every inverse scaling is the inverse, on the full length of every vector (what `scale_data` establishes since the
    repair of F3/F4) -/
structure InvFull (pre : Precond K n p m) : Prop where
  c : pre.c * pre.cInv = 1
  dx : ∀ i : Fin n, pre.dx[i] * pre.dxInv[i] = 1
  dy : ∀ i : Fin p, pre.dy[i] * pre.dyInv[i] = 1
  dz : ∀ i : Fin m, pre.dz[i] * pre.dzInv[i] = 1
  dlb : ∀ i : Fin n, pre.dlb[i] * pre.dlbInv[i] = 1
  dub : ∀ i : Fin n, pre.dub[i] * pre.dubInv[i] = 1

theorem InvFull.toCoherent {pre : Precond K n p m} (h : InvFull pre) : InvCoherent pre :=
  ⟨h.c, h.dx, h.dy, h.dz, fun i _ => h.dlb i, fun i _ => h.dub i⟩

theorem unscaleData_eq (kind : PrecKind) (hk : kind ≠ .identity) (d : Data K n p m) (pre : Precond K n p m) :
    pre.unscaleData kind d =
      { d with P := scaleP (scaleAll d.P pre.cInv) pre.dxInv,
               c := Vector.ofFn fun k => d.c[k] * (pre.cInv * pre.dxInv[k]),
               AT := scaleMat d.AT pre.dxInv pre.dyInv, GT := scaleMat d.GT pre.dxInv pre.dzInv,
               b := Vector.ofFn fun k => d.b[k] * pre.dyInv[k],
               h := Vector.ofFn fun k => d.h[k] * pre.dzInv[k],
               lb := { d.lb with sc := scaleBoxSc { d.lb with cnt := pre.nlb } pre.dlbInv pre.dxInv,
                                 val := headMap pre.nlb d.lb.val fun k => d.lb.val[k] * pre.dlbInv[k] },
               ub := { d.ub with sc := scaleBoxSc { d.ub with cnt := pre.nub } pre.dubInv pre.dxInv,
                                 val := headMap pre.nub d.ub.val fun k => d.ub.val[k] * pre.dubInv[k] } } := by
  cases kind
  · rfl
  · rfl
  · exact absurd rfl hk

/-- **C15, round trip on the data.** If `d` is `d0` scaled by `pre` and the inverses are coherent, `unscale_data`
    gives back `d0`: stored triangle of `P`, `c`, `A`, `G`, `b`, `h`, and the active head of the box scalings and values. -/
theorem unscaleData_of_scaled (kind : PrecKind) (hk : kind ≠ .identity) (d0 d : Data K n p m) (pre : Precond K n p m)
    (hs : Scaled d0 d pre) (hi : InvFull pre) :
    let u := pre.unscaleData kind d
    (∀ i j : Fin n, i.val ≤ j.val → u.P[i][j] = d0.P[i][j]) ∧ (∀ k : Fin n, u.c[k] = d0.c[k]) ∧
    (∀ (i : Fin n) (j : Fin p), u.AT[i][j] = d0.AT[i][j]) ∧ (∀ (i : Fin n) (j : Fin m), u.GT[i][j] = d0.GT[i][j]) ∧
    (∀ k : Fin p, u.b[k] = d0.b[k]) ∧ (∀ k : Fin m, u.h[k] = d0.h[k]) ∧
    (∀ j : Fin n, j.val < d0.lb.cnt → u.lb.sc[j] = d0.lb.sc[j] ∧ u.lb.val[j] = d0.lb.val[j]) ∧
    (∀ j : Fin n, j.val < d0.ub.cnt → u.ub.sc[j] = d0.ub.sc[j] ∧ u.ub.val[j] = d0.ub.val[j]) ∧
    u.lb.cnt = d0.lb.cnt ∧ u.lb.idx = d0.lb.idx ∧ u.ub.cnt = d0.ub.cnt ∧ u.ub.idx = d0.ub.idx := by
  have hc := hi.c
  rw [unscaleData_eq kind hk]
  all_goals
    refine ⟨?_, ?_, ?_, ?_, ?_, ?_, ?_, ?_, hs.lbcnt, hs.lbidx, hs.ubcnt, hs.ubidx⟩
    · intro i j hij
      simp only [scaleP, scaleAll, matOfFn_get, hij, if_true, hs.P i j hij]
      have h1 := hi.dx i; have h2 := hi.dx j
      calc d0.P[i][j] * pre.c * pre.dx[i] * pre.dx[j] * pre.cInv * pre.dxInv[i] * pre.dxInv[j]
          = d0.P[i][j] * (pre.c * pre.cInv) * (pre.dx[i] * pre.dxInv[i]) * (pre.dx[j] * pre.dxInv[j]) := by ring
        _ = d0.P[i][j] := by rw [hc, h1, h2]; ring
    · intro k
      simp only [ofFn_get, hs.c k]
      have h1 := hi.dx k
      calc d0.c[k] * pre.c * pre.dx[k] * (pre.cInv * pre.dxInv[k])
          = d0.c[k] * (pre.c * pre.cInv) * (pre.dx[k] * pre.dxInv[k]) := by ring
        _ = d0.c[k] := by rw [hc, h1]; ring
    · intro i j
      simp only [scaleMat, matOfFn_get, hs.AT i j]
      have h1 := hi.dx i; have h2 := hi.dy j
      calc pre.dxInv[i] * (pre.dx[i] * d0.AT[i][j] * pre.dy[j]) * pre.dyInv[j]
          = d0.AT[i][j] * (pre.dx[i] * pre.dxInv[i]) * (pre.dy[j] * pre.dyInv[j]) := by ring
        _ = d0.AT[i][j] := by rw [h1, h2]; ring
    · intro i j
      simp only [scaleMat, matOfFn_get, hs.GT i j]
      have h1 := hi.dx i; have h2 := hi.dz j
      calc pre.dxInv[i] * (pre.dx[i] * d0.GT[i][j] * pre.dz[j]) * pre.dzInv[j]
          = d0.GT[i][j] * (pre.dx[i] * pre.dxInv[i]) * (pre.dz[j] * pre.dzInv[j]) := by ring
        _ = d0.GT[i][j] := by rw [h1, h2]; ring
    · intro k
      simp only [ofFn_get, hs.b k]
      have h1 := hi.dy k
      rw [mul_assoc, h1, mul_one]
    · intro k
      simp only [ofFn_get, hs.h k]
      have h1 := hi.dz k
      rw [mul_assoc, h1, mul_one]
    · intro j hj
      have hj' : j.val < pre.nlb := by rw [hs.nlb]; exact hj
      constructor
      · simp only [scaleBoxSc, headMap_get, hj', if_true, hs.lbsc j hj, hs.lbidx]
        have h1 := hi.dlb j; have h2 := hi.dx (d0.lb.idx[j])
        calc d0.lb.sc[j] * pre.dlb[j] * pre.dx[d0.lb.idx[j]] * pre.dlbInv[j] * pre.dxInv[d0.lb.idx[j]]
            = d0.lb.sc[j] * (pre.dlb[j] * pre.dlbInv[j]) * (pre.dx[d0.lb.idx[j]] * pre.dxInv[d0.lb.idx[j]]) := by ring
          _ = d0.lb.sc[j] := by rw [h1, h2]; ring
      · simp only [headMap_get, hj', if_true, hs.lbval j, hj]
        have h1 := hi.dlb j
        rw [mul_assoc, h1, mul_one]
    · intro j hj
      have hj' : j.val < pre.nub := by rw [hs.nub]; exact hj
      constructor
      · simp only [scaleBoxSc, headMap_get, hj', if_true, hs.ubsc j hj, hs.ubidx]
        have h1 := hi.dub j; have h2 := hi.dx (d0.ub.idx[j])
        calc d0.ub.sc[j] * pre.dub[j] * pre.dx[d0.ub.idx[j]] * pre.dubInv[j] * pre.dxInv[d0.ub.idx[j]]
            = d0.ub.sc[j] * (pre.dub[j] * pre.dubInv[j]) * (pre.dx[d0.ub.idx[j]] * pre.dxInv[d0.ub.idx[j]]) := by ring
          _ = d0.ub.sc[j] := by rw [h1, h2]; ring
      · simp only [headMap_get, hj', if_true, hs.ubval j, hj]
        have h1 := hi.dub j
        rw [mul_assoc, h1, mul_one]

section positivity
variable [IsStrictOrderedRing K]

structure Nonzero (pre : Precond K n p m) : Prop where
  c : pre.c ≠ 0
  dx : ∀ i : Fin n, pre.dx[i] ≠ 0
  dy : ∀ i : Fin p, pre.dy[i] ≠ 0
  dz : ∀ i : Fin m, pre.dz[i] ≠ 0
  dlb : ∀ i : Fin n, pre.dlb[i] ≠ 0
  dub : ∀ i : Fin n, pre.dub[i] ≠ 0

/-- what the theorems need of the constants and of the square root (true of every `sqrt` mode of the harness and of
    IEEE `sqrt`): positive scaling limits, `sqrt` of a positive number is not zero -/
structure GoodConsts (cs : Consts K) (sqrtF : K → K) : Prop where
  minPos : 0 < cs.minScaling
  maxPos : 0 < cs.maxScaling
  sqrtNZ : ∀ x : K, 0 < x → sqrtF x ≠ 0

theorem limitScaling_pos (cs : Consts K) (sqrtF : K → K) (hg : GoodConsts cs sqrtF) (v : K) : 0 < limitScaling cs v := by
  unfold limitScaling
  split
  · exact one_pos
  · split
    · exact hg.maxPos
    · rename_i h1 _; exact lt_of_lt_of_le hg.minPos (not_lt.mp h1)

theorem fin_ne_zero (cs : Consts K) (sqrtF : K → K) (hg : GoodConsts cs sqrtF) (v : K) : 1 / sqrtF (limitScaling cs v) ≠ 0 :=
  one_div_ne_zero (hg.sqrtNZ _ (limitScaling_pos cs sqrtF hg v))

theorem ruizBody_nonzero (kind : PrecKind) (sqrtF : K → K) (cs : Consts K) (hg : GoodConsts cs sqrtF) (scaleCost : Bool)
    (st : RuizState K n p m) (h : Nonzero st.pre) : Nonzero (ruizBody kind sqrtF cs scaleCost st).pre := by
  have hf := fin_ne_zero cs sqrtF hg
  unfold ruizBody
  cases scaleCost
  · simp only [Bool.false_eq_true, if_false]
    refine ⟨h.c, ?_, ?_, ?_, ?_, ?_⟩
    · intro i; simp only [ofFn_get]; exact mul_ne_zero (h.dx i) (hf _)
    · intro i; simp only [ofFn_get]; exact mul_ne_zero (h.dy i) (hf _)
    · intro i; simp only [ofFn_get]; exact mul_ne_zero (h.dz i) (hf _)
    · intro i; simp only [headMap_get, ofFn_get]; split
      · exact mul_ne_zero (h.dlb i) (hf _)
      · exact h.dlb i
    · intro i; simp only [headMap_get, ofFn_get]; split
      · exact mul_ne_zero (h.dub i) (hf _)
      · exact h.dub i
  · simp only [if_true]
    refine ⟨?_, ?_, ?_, ?_, ?_, ?_⟩
    · exact mul_ne_zero h.c (one_div_ne_zero (ne_of_gt (limitScaling_pos cs sqrtF hg _)))
    · intro i; simp only [ofFn_get]; exact mul_ne_zero (h.dx i) (hf _)
    · intro i; simp only [ofFn_get]; exact mul_ne_zero (h.dy i) (hf _)
    · intro i; simp only [ofFn_get]; exact mul_ne_zero (h.dz i) (hf _)
    · intro i; simp only [headMap_get, ofFn_get]; split
      · exact mul_ne_zero (h.dlb i) (hf _)
      · exact h.dlb i
    · intro i; simp only [headMap_get, ofFn_get]; split
      · exact mul_ne_zero (h.dub i) (hf _)
      · exact h.dub i

theorem ruizLoop_nonzero (kind : PrecKind) (sqrtF : K → K) (cs : Consts K) (hg : GoodConsts cs sqrtF) (scaleCost : Bool) :
    ∀ (fuel : Nat) (st : RuizState K n p m), Nonzero st.pre → Nonzero (ruizLoop kind sqrtF cs scaleCost fuel st).pre := by
  intro fuel
  induction fuel with
  | zero => intro st h; exact h
  | succ fuel ih =>
    intro st h
    simp only [ruizLoop]
    split
    · exact ih _ (ruizBody_nonzero kind sqrtF cs hg scaleCost st h)
    · exact h

theorem nonzero_init (pre : Precond K n p m)
    (hc : pre.c = 1) (hx : ∀ i : Fin n, pre.dx[i] = 1) (hy : ∀ i : Fin p, pre.dy[i] = 1) (hz : ∀ i : Fin m, pre.dz[i] = 1)
    (hl : ∀ i : Fin n, pre.dlb[i] = 1) (hu : ∀ i : Fin n, pre.dub[i] = 1) : Nonzero pre :=
  ⟨by rw [hc]; exact one_ne_zero, fun i => by rw [hx]; exact one_ne_zero, fun i => by rw [hy]; exact one_ne_zero,
   fun i => by rw [hz]; exact one_ne_zero, fun i => by rw [hl]; exact one_ne_zero, fun i => by rw [hu]; exact one_ne_zero⟩

theorem invFull_of_nonzero (pr : Precond K n p m) (nz : Nonzero pr) :
    InvFull { pr with cInv := 1 / pr.c, dxInv := Vector.ofFn fun k => 1 / pr.dx[k], dyInv := Vector.ofFn fun k => 1 / pr.dy[k],
                      dzInv := Vector.ofFn fun k => 1 / pr.dz[k], dlbInv := Vector.ofFn fun k => 1 / pr.dlb[k],
                      dubInv := Vector.ofFn fun k => 1 / pr.dub[k] } := by
  refine ⟨?_, ?_, ?_, ?_, ?_, ?_⟩
  · exact mul_one_div_cancel nz.c
  · intro i; simp only [ofFn_get]; exact mul_one_div_cancel (nz.dx i)
  · intro i; simp only [ofFn_get]; exact mul_one_div_cancel (nz.dy i)
  · intro i; simp only [ofFn_get]; exact mul_one_div_cancel (nz.dz i)
  · intro i; simp only [ofFn_get]; exact mul_one_div_cancel (nz.dlb i)
  · intro i; simp only [ofFn_get]; exact mul_one_div_cancel (nz.dub i)

/-- after `scale_data` the inverse vectors are inverses on their full length: unconditionally for a fresh scaling,
    and preserved by a reused one -/
theorem scaleData_invFull (kind : PrecKind) (hk : kind ≠ .identity) (sqrtF : K → K) (cs : Consts K) (hg : GoodConsts cs sqrtF)
    (d0 : Data K n p m) (pre : Precond K n p m) (reuse scaleCost : Bool) (maxIter : Nat)
    (h : reuse = true → InvFull pre) :
    InvFull (pre.scaleData kind sqrtF cs d0 reuse scaleCost maxIter).2 := by
  cases kind
  case identity => exact absurd rfl hk
  all_goals
    cases reuse
    · simp only [Precond.scaleData, Bool.not_false, if_true]
      exact invFull_of_nonzero _ (ruizLoop_nonzero _ sqrtF cs hg scaleCost maxIter _
        (nonzero_init _ rfl (fun i => vecConst_get 1 i) (fun i => vecConst_get 1 i) (fun i => vecConst_get 1 i)
          (fun i => vecConst_get 1 i) (fun i => vecConst_get 1 i)))
    · simp only [Precond.scaleData, Bool.not_true, Bool.false_eq_true, if_false]
      have hh := h rfl
      exact ⟨hh.c, hh.dx, hh.dy, hh.dz, hh.dlb, hh.dub⟩

/-- **C15, composite.** `unscale_data ∘ scale_data` is the identity on the problem data, for both Ruiz variants, every
    iteration budget, cost scaling on or off, fresh or (coherently) reused scaling. -/
theorem unscale_scale_data (kind : PrecKind) (hk : kind ≠ .identity) (sqrtF : K → K) (cs : Consts K) (hg : GoodConsts cs sqrtF)
    (d0 : Data K n p m) (pre : Precond K n p m) (reuse scaleCost : Bool) (maxIter : Nat)
    (h : reuse = true → InvFull pre) :
    let r := pre.scaleData kind sqrtF cs d0 reuse scaleCost maxIter
    let u := r.2.unscaleData kind r.1
    (∀ i j : Fin n, i.val ≤ j.val → u.P[i][j] = d0.P[i][j]) ∧ (∀ k : Fin n, u.c[k] = d0.c[k]) ∧
    (∀ (i : Fin n) (j : Fin p), u.AT[i][j] = d0.AT[i][j]) ∧ (∀ (i : Fin n) (j : Fin m), u.GT[i][j] = d0.GT[i][j]) ∧
    (∀ k : Fin p, u.b[k] = d0.b[k]) ∧ (∀ k : Fin m, u.h[k] = d0.h[k]) ∧
    (∀ j : Fin n, j.val < d0.lb.cnt → u.lb.sc[j] = d0.lb.sc[j] ∧ u.lb.val[j] = d0.lb.val[j]) ∧
    (∀ j : Fin n, j.val < d0.ub.cnt → u.ub.sc[j] = d0.ub.sc[j] ∧ u.ub.val[j] = d0.ub.val[j]) ∧
    u.lb.cnt = d0.lb.cnt ∧ u.lb.idx = d0.lb.idx ∧ u.ub.cnt = d0.ub.cnt ∧ u.ub.idx = d0.ub.idx :=
  unscaleData_of_scaled kind hk d0 _ _ (scaleData_scaled kind hk sqrtF cs d0 pre reuse scaleCost maxIter)
    (scaleData_invFull kind hk sqrtF cs hg d0 pre reuse scaleCost maxIter h)
/-- all scalings are strictly positive -/
structure Pos (pre : Precond K n p m) : Prop where
  c : 0 < pre.c
  dx : ∀ i : Fin n, 0 < pre.dx[i]
  dy : ∀ i : Fin p, 0 < pre.dy[i]
  dz : ∀ i : Fin m, 0 < pre.dz[i]
  dlb : ∀ i : Fin n, 0 < pre.dlb[i]
  dub : ∀ i : Fin n, 0 < pre.dub[i]

/-- positive scaling limits and a `sqrt` that is positive on positive numbers (IEEE `sqrt`, and every `sqrt` mode of the
    exact harness on the values it is applied to) -/
structure PosConsts (cs : Consts K) (sqrtF : K → K) : Prop where
  minPos : 0 < cs.minScaling
  maxPos : 0 < cs.maxScaling
  sqrtPos : ∀ x : K, 0 < x → 0 < sqrtF x

theorem PosConsts.good {cs : Consts K} {sqrtF : K → K} (h : PosConsts cs sqrtF) : GoodConsts cs sqrtF :=
  ⟨h.minPos, h.maxPos, fun x hx => ne_of_gt (h.sqrtPos x hx)⟩

theorem fin_pos (cs : Consts K) (sqrtF : K → K) (hg : PosConsts cs sqrtF) (v : K) : 0 < 1 / sqrtF (limitScaling cs v) :=
  one_div_pos.mpr (hg.sqrtPos _ (limitScaling_pos cs sqrtF hg.good v))

theorem ruizBody_pos (kind : PrecKind) (sqrtF : K → K) (cs : Consts K) (hg : PosConsts cs sqrtF) (scaleCost : Bool)
    (st : RuizState K n p m) (h : Pos st.pre) : Pos (ruizBody kind sqrtF cs scaleCost st).pre := by
  have hf := fin_pos cs sqrtF hg
  unfold ruizBody
  cases scaleCost
  · simp only [Bool.false_eq_true, if_false]
    refine ⟨h.c, ?_, ?_, ?_, ?_, ?_⟩
    · intro i; simp only [ofFn_get]; exact mul_pos (h.dx i) (hf _)
    · intro i; simp only [ofFn_get]; exact mul_pos (h.dy i) (hf _)
    · intro i; simp only [ofFn_get]; exact mul_pos (h.dz i) (hf _)
    · intro i; simp only [headMap_get, ofFn_get]; split
      · exact mul_pos (h.dlb i) (hf _)
      · exact h.dlb i
    · intro i; simp only [headMap_get, ofFn_get]; split
      · exact mul_pos (h.dub i) (hf _)
      · exact h.dub i
  · simp only [if_true]
    refine ⟨?_, ?_, ?_, ?_, ?_, ?_⟩
    · exact mul_pos h.c (one_div_pos.mpr (limitScaling_pos cs sqrtF hg.good _))
    · intro i; simp only [ofFn_get]; exact mul_pos (h.dx i) (hf _)
    · intro i; simp only [ofFn_get]; exact mul_pos (h.dy i) (hf _)
    · intro i; simp only [ofFn_get]; exact mul_pos (h.dz i) (hf _)
    · intro i; simp only [headMap_get, ofFn_get]; split
      · exact mul_pos (h.dlb i) (hf _)
      · exact h.dlb i
    · intro i; simp only [headMap_get, ofFn_get]; split
      · exact mul_pos (h.dub i) (hf _)
      · exact h.dub i

theorem ruizLoop_pos (kind : PrecKind) (sqrtF : K → K) (cs : Consts K) (hg : PosConsts cs sqrtF) (scaleCost : Bool) :
    ∀ (fuel : Nat) (st : RuizState K n p m), Pos st.pre → Pos (ruizLoop kind sqrtF cs scaleCost fuel st).pre := by
  intro fuel
  induction fuel with
  | zero => intro st h; exact h
  | succ fuel ih =>
    intro st h
    simp only [ruizLoop]
    split
    · exact ih _ (ruizBody_pos kind sqrtF cs hg scaleCost st h)
    · exact h

theorem pos_init (pre : Precond K n p m)
    (hc : pre.c = 1) (hx : ∀ i : Fin n, pre.dx[i] = 1) (hy : ∀ i : Fin p, pre.dy[i] = 1) (hz : ∀ i : Fin m, pre.dz[i] = 1)
    (hl : ∀ i : Fin n, pre.dlb[i] = 1) (hu : ∀ i : Fin n, pre.dub[i] = 1) : Pos pre :=
  ⟨by rw [hc]; exact one_pos, fun i => by rw [hx]; exact one_pos, fun i => by rw [hy]; exact one_pos,
   fun i => by rw [hz]; exact one_pos, fun i => by rw [hl]; exact one_pos, fun i => by rw [hu]; exact one_pos⟩

theorem pos_transfer (pr : Precond K n p m) (h : Pos pr) (ci : K) (xi : Vec K n) (yi : Vec K p) (zi : Vec K m) (li ui : Vec K n)
    (nl nu : Nat) :
    Pos { pr with nlb := nl, nub := nu, cInv := ci, dxInv := xi, dyInv := yi, dzInv := zi, dlbInv := li, dubInv := ui } :=
  ⟨h.c, h.dx, h.dy, h.dz, h.dlb, h.dub⟩

/-- `scale_data` keeps every scaling strictly positive (fresh scaling: from 1 by positive factors; reuse: unchanged) -/
theorem scaleData_pos (kind : PrecKind) (hk : kind ≠ .identity) (sqrtF : K → K) (cs : Consts K) (hg : PosConsts cs sqrtF)
    (d0 : Data K n p m) (pre : Precond K n p m) (reuse scaleCost : Bool) (maxIter : Nat)
    (h : reuse = true → Pos pre) :
    Pos (pre.scaleData kind sqrtF cs d0 reuse scaleCost maxIter).2 := by
  cases kind
  case identity => exact absurd rfl hk
  all_goals
    cases reuse
    · simp only [Precond.scaleData, Bool.not_false, if_true]
      exact pos_transfer _ (ruizLoop_pos _ sqrtF cs hg scaleCost maxIter _
        (pos_init _ rfl (fun i => vecConst_get 1 i) (fun i => vecConst_get 1 i) (fun i => vecConst_get 1 i)
          (fun i => vecConst_get 1 i) (fun i => vecConst_get 1 i))) _ _ _ _ _ _ _ _
    · simp only [Precond.scaleData, Bool.not_true, Bool.false_eq_true, if_false]
      have hh := h rfl
      exact ⟨hh.c, hh.dx, hh.dy, hh.dz, hh.dlb, hh.dub⟩

/-- with positive scalings and coherent inverses the inverse scalings are positive too -/
theorem inv_pos_of (pre : Precond K n p m) (hp : Pos pre) (hi : InvFull pre) :
    0 < pre.cInv ∧ (∀ i : Fin n, 0 < pre.dxInv[i]) ∧ (∀ i : Fin p, 0 < pre.dyInv[i]) ∧ (∀ i : Fin m, 0 < pre.dzInv[i]) ∧
    (∀ i : Fin n, 0 < pre.dlbInv[i]) ∧ (∀ i : Fin n, 0 < pre.dubInv[i]) := by
  have key : ∀ a b : K, 0 < a → a * b = 1 → 0 < b := by
    intro a b ha hab
    by_contra hb
    have hb' : b ≤ 0 := not_lt.mp hb
    have : a * b ≤ 0 := mul_nonpos_of_nonneg_of_nonpos (le_of_lt ha) hb'
    rw [hab] at this
    exact absurd this (by norm_num)
  exact ⟨key _ _ hp.c hi.c, fun i => key _ _ (hp.dx i) (hi.dx i), fun i => key _ _ (hp.dy i) (hi.dy i),
    fun i => key _ _ (hp.dz i) (hi.dz i), fun i => key _ _ (hp.dlb i) (hi.dlb i), fun i => key _ _ (hp.dub i) (hi.dub i)⟩

end positivity

/-- non-vacuity of `GoodConsts`: the constants of the implementation with the identity as `sqrt` stand-in on ℚ -/
example : GoodConsts (K := ℚ)
    { minScaling := 1/10000, maxScaling := 10000, ruizEps := 1/1000, piqpInf := 10^30, posInf := 10^40, machEps := 1/2^52,
      c0_95 := 95/100, c0_666 := 666/1000, c1e12 := 10^12, c1e2 := 100, c1_5 := 3/2, c0_5 := 1/2, c0_1 := 1/10, c1e_4 := 1/10000,
      c100 := 100, c10 := 10 } (fun x => x) :=
  ⟨by norm_num, by norm_num, fun x hx => ne_of_gt hx⟩

/-- the identity preconditioner: `scale_data` and `unscale_data` are the identity function, and every `scale_*`/`unscale_*`
    map returns its argument — the change of variables is trivially exact -/
theorem identity_kind_is_identity {K : Type} [Add K] [Sub K] [Mul K] [Div K] [Neg K] [Zero K] [One K] [LT K] [DecidableLT K] [NatCast K]
    {n p m : Nat} (sqrtF : K → K) (cs : Consts K) (d : Data K n p m) (pre : Precond K n p m) (reuse sc : Bool) (it : Nat) :
    pre.scaleData .identity sqrtF cs d reuse sc it = (d, pre) ∧ pre.unscaleData .identity d = d ∧
    (∀ v, pre.unscalePrimal .identity v = v) ∧ (∀ v, pre.scalePrimal .identity v = v) ∧
    (∀ v, pre.unscaleDualEq .identity v = v) ∧ (∀ v, pre.unscaleDualIneq .identity v = v) ∧
    (∀ v, pre.unscaleDualLb .identity v = v) ∧ (∀ v, pre.unscaleDualUb .identity v = v) ∧
    (∀ v, pre.unscaleSlackIneq .identity v = v) ∧ (∀ v, pre.unscaleSlackLb .identity v = v) ∧ (∀ v, pre.unscaleSlackUb .identity v = v) ∧
    (∀ v, pre.unscaleCost .identity v = v) :=
  ⟨rfl, rfl, fun _ => rfl, fun _ => rfl, fun _ => rfl, fun _ => rfl, fun _ => rfl, fun _ => rfl, fun _ => rfl, fun _ => rfl,
   fun _ => rfl, fun _ => rfl⟩

end Piqp.C15
