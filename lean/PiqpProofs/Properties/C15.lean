import PiqpProofs.Basic
import PiqpModel.Precond
import Mathlib.Tactic.Ring
import Mathlib.Tactic.FieldSimp

/-!
# C15 — preconditioning is an exact change of variables
-/

namespace Piqp.C15

variable {K : Type} [Field K] [LinearOrder K]
variable {n p m : Nat}

/-- `InvCoherent`: every inverse scaling is the inverse on the active index range -/
structure InvCoherent (pre : Precond K n p m) : Prop where
  c : pre.c * pre.cInv = 1
  dx : ∀ i : Fin n, pre.dx[i] * pre.dxInv[i] = 1
  dy : ∀ i : Fin p, pre.dy[i] * pre.dyInv[i] = 1
  dz : ∀ i : Fin m, pre.dz[i] * pre.dzInv[i] = 1
  dlb : ∀ i : Fin n, i.val < pre.nlb → pre.dlb[i] * pre.dlbInv[i] = 1
  dub : ∀ i : Fin n, i.val < pre.nub → pre.dub[i] * pre.dubInv[i] = 1

theorem unscale_scale_primal (kind : PrecKind) (pre : Precond K n p m) (h : InvCoherent pre) (x : Vec K n) :
    pre.unscalePrimal kind (pre.scalePrimal kind x) = x := by
  unfold Precond.unscalePrimal Precond.scalePrimal
  split
  · rfl
  · apply Vector.ext
    intro i hi
    simp only [Vector.getElem_ofFn, Fin.getElem_fin]
    have := h.dx ⟨i, hi⟩
    simp only [Fin.getElem_fin] at this
    rw [mul_assoc, mul_comm (pre.dxInv[i]), this, mul_one]

theorem scale_unscale_primal (kind : PrecKind) (pre : Precond K n p m) (h : InvCoherent pre) (x : Vec K n) :
    pre.scalePrimal kind (pre.unscalePrimal kind x) = x := by
  unfold Precond.unscalePrimal Precond.scalePrimal
  split
  · rfl
  · apply Vector.ext
    intro i hi
    simp only [Vector.getElem_ofFn, Fin.getElem_fin]
    have := h.dx ⟨i, hi⟩
    simp only [Fin.getElem_fin] at this
    rw [mul_assoc, this, mul_one]

theorem unscale_scale_dual_eq (kind : PrecKind) (pre : Precond K n p m) (h : InvCoherent pre) (y : Vec K p) :
    pre.unscaleDualEq kind (pre.scaleDualEq kind y) = y := by
  unfold Precond.unscaleDualEq Precond.scaleDualEq
  split
  · rfl
  · apply Vector.ext
    intro i hi
    simp only [Vector.getElem_ofFn, Fin.getElem_fin]
    have h1 := h.dy ⟨i, hi⟩
    have h2 := h.c
    simp only [Fin.getElem_fin] at h1
    calc y[i] * pre.c * pre.dyInv[i] * pre.cInv * pre.dy[i]
        = y[i] * (pre.c * pre.cInv) * (pre.dy[i] * pre.dyInv[i]) := by ring
      _ = y[i] := by rw [h1, h2]; ring

theorem unscale_scale_dual_ineq (kind : PrecKind) (pre : Precond K n p m) (h : InvCoherent pre) (z : Vec K m) :
    pre.unscaleDualIneq kind (pre.scaleDualIneq kind z) = z := by
  unfold Precond.unscaleDualIneq Precond.scaleDualIneq
  split
  · rfl
  · apply Vector.ext
    intro i hi
    simp only [Vector.getElem_ofFn, Fin.getElem_fin]
    have h1 := h.dz ⟨i, hi⟩
    have h2 := h.c
    simp only [Fin.getElem_fin] at h1
    calc z[i] * pre.c * pre.dzInv[i] * pre.cInv * pre.dz[i]
        = z[i] * (pre.c * pre.cInv) * (pre.dz[i] * pre.dzInv[i]) := by ring
      _ = z[i] := by rw [h1, h2]; ring

/-- on the active head the box multiplier scalings are mutual inverses; the tail is left untouched by both -/
theorem unscale_scale_dual_lb (kind : PrecKind) (pre : Precond K n p m) (h : InvCoherent pre) (z : Vec K n) :
    pre.unscaleDualLb kind (pre.scaleDualLb kind z) = z := by
  unfold Precond.unscaleDualLb Precond.scaleDualLb headMap
  split
  · rfl
  · apply Vector.ext
    intro i hi
    simp only [Vector.getElem_ofFn, Fin.getElem_fin]
    split
    · rename_i hlt
      have h1 := h.dlb ⟨i, hi⟩ hlt
      have h2 := h.c
      simp only [Fin.getElem_fin] at h1
      calc z[i] * pre.c * pre.dlbInv[i] * pre.cInv * pre.dlb[i]
          = z[i] * (pre.c * pre.cInv) * (pre.dlb[i] * pre.dlbInv[i]) := by ring
        _ = z[i] := by rw [h1, h2]; ring
    · rfl

theorem unscale_scale_slack_lb (kind : PrecKind) (pre : Precond K n p m) (h : InvCoherent pre) (s : Vec K n) :
    pre.unscaleSlackLb kind (pre.scaleSlackLb kind s) = s := by
  unfold Precond.unscaleSlackLb Precond.scaleSlackLb headMap
  split
  · rfl
  · apply Vector.ext
    intro i hi
    simp only [Vector.getElem_ofFn, Fin.getElem_fin]
    split
    · rename_i hlt
      have h1 := h.dlb ⟨i, hi⟩ hlt
      simp only [Fin.getElem_fin] at h1
      rw [mul_assoc, h1, mul_one]
    · rfl

theorem unscale_scale_cost (kind : PrecKind) (pre : Precond K n p m) (h : InvCoherent pre) (v : K) :
    pre.unscaleCost kind (pre.scaleCost kind v) = v := by
  unfold Precond.unscaleCost Precond.scaleCost
  split
  · rfl
  · rw [← mul_assoc, mul_comm pre.cInv, h.c, one_mul]

/-- the preconditioner right after `init` is coherent (all scalings 1) -/
theorem init_invCoherent (d : Data K n p m) : InvCoherent (Precond.init d) := by
  constructor <;> simp [Precond.init, Vec.const]

end Piqp.C15
