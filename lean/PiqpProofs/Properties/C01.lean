import PiqpProofs.Basic
import PiqpModel.Solver

/-!
# C01 — SOLVED implies a valid optimality certificate

Theorems about the solver model (`PiqpModel/Solver.lean`).
-/

namespace Piqp.C01

variable {K : Type}
variable [Add K] [Sub K] [Mul K] [Div K] [Neg K] [Zero K] [One K] [LT K] [DecidableLT K] [LE K] [DecidableLE K]
variable [NatCast K] [BEq K]
variable {n p m : Nat}

/-- The loop head returns SOLVED only if the termination test holds for the diagnostics it computed. -/
theorem phaseA_solved_test (e : Env K n p m) (iter0 : Bool) (w : Work K n p m) (info : Info K)
    (h : (phaseA e iter0 w info).2.2 = some Status.solved) :
    termTest e.st (headInfo e iter0 w info).2 = true := by
  unfold phaseA at h
  by_cases hc : termTest e.st (headInfo e iter0 w info).2 = true
  · exact hc
  · simp only [hc, Bool.false_eq_true, ↓reduceIte] at h
    split at h
    · simp at h
    · split at h <;> simp at h

omit [Sub K] [Div K] [Neg K] [Zero K] [One K] [LE K] [DecidableLE K] [NatCast K] [BEq K] in
/-- what the termination test says, clause by clause -/
theorem termTest_iff (st : Settings K) (info : Info K) :
    termTest st info = true ↔
      info.primalInf < st.epsAbs + st.epsRel * info.primalRelInf ∧
      info.dualInf < st.epsAbs + st.epsRel * info.dualRelInf ∧
      (st.checkDualityGap = true → info.dualityGap < st.epsGapAbs + st.epsGapRel * info.dualityGapRel) := by
  unfold termTest
  cases st.checkDualityGap <;> simp [and_assoc]

end Piqp.C01
