import PiqpProofs.Basic
import PiqpModel.Solver
import PiqpProofs.Properties.C13
import PiqpProofs.Properties.C15

/-!
# C01 — SOLVED implies a valid optimality certificate

Theorems about the control skeleton (`PiqpModel/Control.lean`), valid for **every** numeric back end
(`LoopOps`): all five KKT formulations, refinement on or off, every pattern of factorisation failures.
-/

namespace Piqp.C01

variable {K : Type}
variable [Add K] [Sub K] [Mul K] [Div K] [Neg K] [Zero K] [One K] [LT K] [DecidableLT K] [LE K] [DecidableLE K] [BEq K]
variable {σ : Type}

omit [Neg K] [LE K] [DecidableLE K] in
/-- Whenever the main loop returns SOLVED, the termination test holds for the diagnostics it returns — whatever the
    numeric operations do (any search direction, any factorisation failures, any iteration count). -/
theorem solved_implies_termination_test (st : Settings K) (cs : Consts K) (ops : LoopOps K σ) (c : Ctrl) (s : σ) (info : Info K)
    (h : (loopG st cs ops c s info).2 = Status.solved) :
    termTest st (loopG st cs ops c s info).1.2.2 = true := by
  fun_induction loopG st cs ops c s info <;> simp_all [termTest]

omit [Sub K] [Div K] [Neg K] [Zero K] [One K] [LE K] [DecidableLE K] [BEq K] in
/-- what the termination test says, clause by clause -/
theorem termTest_iff (st : Settings K) (info : Info K) :
    termTest st info = true ↔
      info.primalInf < st.epsAbs + st.epsRel * info.primalRelInf ∧
      info.dualInf < st.epsAbs + st.epsRel * info.dualRelInf ∧
      (st.checkDualityGap = true → info.dualityGap < st.epsGapAbs + st.epsGapRel * info.dualityGapRel) := by
  unfold termTest
  cases st.checkDualityGap <;> simp [and_assoc]

omit [Neg K] [LE K] [DecidableLE K] in
/-- corollary: a SOLVED return carries `primal_inf < ε_abs + ε_rel·primal_rel_inf`, the same for the dual residual
    and, if enabled, for the duality gap, for the diagnostics of the returned iterate -/
theorem solved_diagnostics_within_tolerance (st : Settings K) (cs : Consts K) (ops : LoopOps K σ) (c : Ctrl) (s : σ) (info : Info K)
    (h : (loopG st cs ops c s info).2 = Status.solved) :
    let i := (loopG st cs ops c s info).1.2.2
    i.primalInf < st.epsAbs + st.epsRel * i.primalRelInf ∧
    i.dualInf < st.epsAbs + st.epsRel * i.dualRelInf ∧
    (st.checkDualityGap = true → i.dualityGap < st.epsGapAbs + st.epsGapRel * i.dualityGapRel) :=
  (termTest_iff st _).mp (solved_implies_termination_test st cs ops c s info h)

end Piqp.C01

/-!
## Scaling algebra: what the termination test reads is the user's certificate

The loop theorems above say *when* SOLVED is returned (the termination test holds for the diagnostics in `info`). The
theorems below say *what those diagnostics are*: under the preconditioner's change of variables (`C15.Scaled`, proved for
`scale_data`), the unscaled residual vectors and objectives computed by `update_nr_residuals` are, entry by entry, the
stationarity residual, the primal residuals and the objectives of the **user's** problem at the **unscaled** point.
-/

namespace Piqp.C01
set_option linter.unusedSectionVars false
set_option linter.unusedSimpArgs false
set_option linter.unusedVariables false
section algebra
open Finset Piqp.C13 Piqp.C15
variable {K : Type} [Field K] [LinearOrder K]
variable {n p m : Nat}

theorem Psym_scaled {d0 d : Data K n p m} {pre : Precond K n p m} (hs : Applied d0 d pre) (i j : Fin n) :
    d.Psym[i][j] = d0.Psym[i][j] * pre.c * pre.dx[i] * pre.dx[j] := by
  simp only [Data.Psym, C13.matOfFn_get]
  split
  · rename_i h; exact hs.P i j h
  · rename_i h
    have h' : j.val ≤ i.val := Nat.le_of_lt (Nat.lt_of_not_le h)
    rw [hs.P j i h']; ring

theorem upd_rx_nr (e : Env K n p m) (w : Work K n p m) (info : Info K) (i : Fin n) :
    (updateNrResiduals e w info).1.rx_nr[i] =
      -(Mat.mulVec e.data.Psym w.x)[i] - e.data.c[i] -
        ((Mat.mulVec e.data.AT w.y)[i] + (Mat.mulVec e.data.GT w.z)[i]
            - (e.data.lb.scatter fun a => e.data.lb.sc[a] * w.z_lb[a])[i]
            + (e.data.ub.scatter fun a => e.data.ub.sc[a] * w.z_ub[a])[i]) := by
  unfold updateNrResiduals
  simp only [C13.ofFn_get]

/-- the stationarity residual of the *user's* problem (data `d0`) at a point -/
def userDualRes (d0 : Data K n p m) (x : Vec K n) (y : Vec K p) (z : Vec K m) (zl zu : Vec K n) (i : Fin n) : K :=
  (∑ j : Fin n, d0.Psym[i][j] * x[j]) + d0.c[i] + (∑ t : Fin p, d0.AT[i][t] * y[t]) + (∑ t : Fin m, d0.GT[i][t] * z[t])
    - (∑ a : Fin n, if a.val < d0.lb.cnt ∧ d0.lb.idx[a] = i then d0.lb.sc[a] * zl[a] else 0)
    + (∑ a : Fin n, if a.val < d0.ub.cnt ∧ d0.ub.idx[a] = i then d0.ub.sc[a] * zu[a] else 0)


/-- **C01/C15, the monitored dual residual is the user's.**  If the solver's data are the user's data `d0` under the
    preconditioner's change of variables (`Scaled`, proved for `scale_data` in C15) and the inverse scalings are coherent,
    then the residual vector whose norm the termination test reads (`unscale_dual_res(rx_nr)`) is, entry by entry, minus
    the stationarity residual `Px + c + Aᵀy + Gᵀz − z_lb + z_ub` of the **user's** problem at the **unscaled** point
    (`x = D x̂`, `y = c⁻¹ E_y ŷ`, …, box multipliers on their packed slots). -/
theorem dual_residual_is_users (e : Env K n p m) (d0 : Data K n p m) (hk : e.pk ≠ .identity)
    (hs : Scaled d0 e.data e.pre) (hi : InvFull e.pre) (w : Work K n p m) (info : Info K) (i : Fin n) :
    (e.pre.unscaleDualRes e.pk (updateNrResiduals e w info).1.rx_nr)[i] =
      -(userDualRes d0 (e.pre.unscalePrimal e.pk w.x) (e.pre.unscaleDualEq e.pk w.y) (e.pre.unscaleDualIneq e.pk w.z)
          (e.pre.unscaleDualLb e.pk w.z_lb) (e.pre.unscaleDualUb e.pk w.z_ub) i) := by
  have hc := hi.c
  have hdx := hi.dx i
  simp only [Precond.unscaleDualRes, Precond.unscalePrimal, Precond.unscaleDualEq, Precond.unscaleDualIneq,
    Precond.unscaleDualLb, Precond.unscaleDualUb, hk, if_false, C13.ofFn_get, upd_rx_nr, C13.mulVec_get, C13.scatter_get,
    userDualRes, C15.headMap_get, hs.nlb, hs.nub]
  -- each block of the scaled residual is `c·dx_i` times the user's block
  have eP : (∑ j : Fin n, e.data.Psym[i][j] * w.x[j]) =
      e.pre.c * e.pre.dx[i] * ∑ j : Fin n, d0.Psym[i][j] * (w.x[j] * e.pre.dx[j]) := by
    rw [Finset.mul_sum]
    exact Finset.sum_congr rfl fun j _ => by rw [Psym_scaled hs.toApplied i j]; ring
  have eA : (∑ t : Fin p, e.data.AT[i][t] * w.y[t]) =
      e.pre.c * e.pre.dx[i] * ∑ t : Fin p, d0.AT[i][t] * (w.y[t] * e.pre.cInv * e.pre.dy[t]) := by
    rw [Finset.mul_sum]
    exact Finset.sum_congr rfl fun t _ => by
      rw [hs.AT i t]; linear_combination (-(e.pre.dx[i] * d0.AT[i][t] * e.pre.dy[t] * w.y[t])) * hc
  have eG : (∑ t : Fin m, e.data.GT[i][t] * w.z[t]) =
      e.pre.c * e.pre.dx[i] * ∑ t : Fin m, d0.GT[i][t] * (w.z[t] * e.pre.cInv * e.pre.dz[t]) := by
    rw [Finset.mul_sum]
    exact Finset.sum_congr rfl fun t _ => by
      rw [hs.GT i t]; linear_combination (-(e.pre.dx[i] * d0.GT[i][t] * e.pre.dz[t] * w.z[t])) * hc
  have eL : (∑ a : Fin n, if e.data.lb.act a ∧ e.data.lb.idx[a] = i then e.data.lb.sc[a] * w.z_lb[a] else 0) =
      e.pre.c * e.pre.dx[i] * ∑ a : Fin n, if a.val < d0.lb.cnt ∧ d0.lb.idx[a] = i then
        d0.lb.sc[a] * (if a.val < d0.lb.cnt then w.z_lb[a] * e.pre.cInv * e.pre.dlb[a] else w.z_lb[a]) else 0 := by
    rw [Finset.mul_sum]
    refine Finset.sum_congr rfl fun a _ => ?_
    have hiff : (e.data.lb.act a ∧ e.data.lb.idx[a] = i) ↔ (a.val < d0.lb.cnt ∧ d0.lb.idx[a] = i) := by
      simp only [BoxSide.act, hs.lbcnt, hs.lbidx]
    simp only [hiff]
    by_cases h : a.val < d0.lb.cnt ∧ d0.lb.idx[a] = i
    · simp only [h, h.1, and_self, if_true, hs.lbsc a h.1, h.2]
      linear_combination (-(d0.lb.sc[a] * e.pre.dlb[a] * e.pre.dx[i] * w.z_lb[a])) * hc
    · simp only [h, if_false, mul_zero]
  have eU : (∑ a : Fin n, if e.data.ub.act a ∧ e.data.ub.idx[a] = i then e.data.ub.sc[a] * w.z_ub[a] else 0) =
      e.pre.c * e.pre.dx[i] * ∑ a : Fin n, if a.val < d0.ub.cnt ∧ d0.ub.idx[a] = i then
        d0.ub.sc[a] * (if a.val < d0.ub.cnt then w.z_ub[a] * e.pre.cInv * e.pre.dub[a] else w.z_ub[a]) else 0 := by
    rw [Finset.mul_sum]
    refine Finset.sum_congr rfl fun a _ => ?_
    have hiff : (e.data.ub.act a ∧ e.data.ub.idx[a] = i) ↔ (a.val < d0.ub.cnt ∧ d0.ub.idx[a] = i) := by
      simp only [BoxSide.act, hs.ubcnt, hs.ubidx]
    simp only [hiff]
    by_cases h : a.val < d0.ub.cnt ∧ d0.ub.idx[a] = i
    · simp only [h, h.1, and_self, if_true, hs.ubsc a h.1, h.2]
      linear_combination (-(d0.ub.sc[a] * e.pre.dub[a] * e.pre.dx[i] * w.z_ub[a])) * hc
    · simp only [h, if_false, mul_zero]
  rw [eP, eA, eG, eL, eU, hs.c i]
  generalize (∑ j : Fin n, d0.Psym[i][j] * (w.x[j] * e.pre.dx[j])) = SP
  generalize (∑ t : Fin p, d0.AT[i][t] * (w.y[t] * e.pre.cInv * e.pre.dy[t])) = SA
  generalize (∑ t : Fin m, d0.GT[i][t] * (w.z[t] * e.pre.cInv * e.pre.dz[t])) = SG
  generalize (∑ a : Fin n, if a.val < d0.lb.cnt ∧ d0.lb.idx[a] = i then
        d0.lb.sc[a] * (if a.val < d0.lb.cnt then w.z_lb[a] * e.pre.cInv * e.pre.dlb[a] else w.z_lb[a]) else 0) = SL
  generalize (∑ a : Fin n, if a.val < d0.ub.cnt ∧ d0.ub.idx[a] = i then
        d0.ub.sc[a] * (if a.val < d0.ub.cnt then w.z_ub[a] * e.pre.cInv * e.pre.dub[a] else w.z_ub[a]) else 0) = SU
  have h2 : e.pre.c * e.pre.dx[i] * (e.pre.cInv * e.pre.dxInv[i]) = 1 := by
    calc e.pre.c * e.pre.dx[i] * (e.pre.cInv * e.pre.dxInv[i]) = (e.pre.c * e.pre.cInv) * (e.pre.dx[i] * e.pre.dxInv[i]) := by ring
      _ = 1 := by rw [hc, hdx]; ring
  linear_combination (-(SP + d0.c[i] + SA + SG - SL + SU)) * h2

theorem upd_ry_nr (e : Env K n p m) (w : Work K n p m) (info : Info K) (t : Fin p) :
    (updateNrResiduals e w info).1.ry_nr[t] = -(Mat.mulVecT e.data.AT w.x)[t] + e.data.b[t] := by
  unfold updateNrResiduals
  simp only [C13.ofFn_get]

theorem upd_rz_nr (e : Env K n p m) (w : Work K n p m) (info : Info K) (t : Fin m) :
    (updateNrResiduals e w info).1.rz_nr[t] = -(Mat.mulVecT e.data.GT w.x)[t] + (e.data.h[t] - w.s[t]) := by
  unfold updateNrResiduals
  simp only [C13.ofFn_get]

theorem upd_rz_lb_nr (e : Env K n p m) (w : Work K n p m) (info : Info K) (a : Fin n) (ha : a.val < e.data.lb.cnt) :
    (updateNrResiduals e w info).1.rz_lb_nr[a] =
      e.data.lb.sc[a] * w.x[e.data.lb.idx[a]] + (e.data.lb.val[a] - w.s_lb[a]) := by
  unfold updateNrResiduals
  simp only [C13.headUpd_get, BoxSide.act, ha, if_true]

theorem upd_rz_ub_nr (e : Env K n p m) (w : Work K n p m) (info : Info K) (a : Fin n) (ha : a.val < e.data.ub.cnt) :
    (updateNrResiduals e w info).1.rz_ub_nr[a] =
      -e.data.ub.sc[a] * w.x[e.data.ub.idx[a]] + (e.data.ub.val[a] - w.s_ub[a]) := by
  unfold updateNrResiduals
  simp only [C13.headUpd_get, BoxSide.act, ha, if_true]

/-- **the monitored primal residuals are the user's**: equality rows `b − Ax`, inequality rows `h − Gx − s`, and on every
    packed bound slot `x_j − lb_j − s_lb` (stored as `sc·x + (−lb) − s_lb`) resp. `ub_j − x_j − s_ub`, all for the user's
    data at the unscaled point -/
theorem primal_residuals_are_users (e : Env K n p m) (d0 : Data K n p m) (hk : e.pk ≠ .identity)
    (hs : Scaled d0 e.data e.pre) (hi : InvFull e.pre) (w : Work K n p m) (info : Info K) :
    let r := (updateNrResiduals e w info).1
    let x := e.pre.unscalePrimal e.pk w.x
    (∀ t : Fin p, (e.pre.unscalePrimalResEq e.pk r.ry_nr)[t] = d0.b[t] - ∑ i : Fin n, d0.AT[i][t] * x[i]) ∧
    (∀ t : Fin m, (e.pre.unscalePrimalResIneq e.pk r.rz_nr)[t] =
        d0.h[t] - (∑ i : Fin n, d0.GT[i][t] * x[i]) - (e.pre.unscaleSlackIneq e.pk w.s)[t]) ∧
    (∀ a : Fin n, a.val < d0.lb.cnt → (e.pre.unscalePrimalResLb e.pk r.rz_lb_nr)[a] =
        d0.lb.sc[a] * x[d0.lb.idx[a]] + d0.lb.val[a] - (e.pre.unscaleSlackLb e.pk w.s_lb)[a]) ∧
    (∀ a : Fin n, a.val < d0.ub.cnt → (e.pre.unscalePrimalResUb e.pk r.rz_ub_nr)[a] =
        -d0.ub.sc[a] * x[d0.ub.idx[a]] + d0.ub.val[a] - (e.pre.unscaleSlackUb e.pk w.s_ub)[a]) := by
  refine ⟨fun t => ?_, fun t => ?_, fun a ha => ?_, fun a ha => ?_⟩
  · have hdy := hi.dy t
    simp only [Precond.unscalePrimalResEq, Precond.unscalePrimal, hk, if_false, C13.ofFn_get, upd_ry_nr, C13.mulVecT_get, hs.b t]
    have eA : (∑ i : Fin n, e.data.AT[i][t] * w.x[i]) = e.pre.dy[t] * ∑ i : Fin n, d0.AT[i][t] * (w.x[i] * e.pre.dx[i]) := by
      rw [Finset.mul_sum]
      exact Finset.sum_congr rfl fun i _ => by rw [hs.AT i t]; ring
    rw [eA]
    generalize (∑ i : Fin n, d0.AT[i][t] * (w.x[i] * e.pre.dx[i])) = S
    linear_combination (d0.b[t] - S) * hdy
  · have hdz := hi.dz t
    simp only [Precond.unscalePrimalResIneq, Precond.unscalePrimal, Precond.unscaleSlackIneq, hk, if_false, C13.ofFn_get, upd_rz_nr,
      C13.mulVecT_get, hs.h t]
    have eG : (∑ i : Fin n, e.data.GT[i][t] * w.x[i]) = e.pre.dz[t] * ∑ i : Fin n, d0.GT[i][t] * (w.x[i] * e.pre.dx[i]) := by
      rw [Finset.mul_sum]
      exact Finset.sum_congr rfl fun i _ => by rw [hs.GT i t]; ring
    rw [eG]
    generalize (∑ i : Fin n, d0.GT[i][t] * (w.x[i] * e.pre.dx[i])) = S
    linear_combination (d0.h[t] - S) * hdz
  · have hdl := hi.dlb a
    have ha' : a.val < e.data.lb.cnt := by rw [hs.lbcnt]; exact ha
    have hv := hs.lbval a
    simp only [ha, if_true] at hv
    simp only [Precond.unscalePrimalResLb, Precond.unscalePrimal, Precond.unscaleSlackLb, hk, if_false, C13.ofFn_get,
      C15.headMap_get, hs.nlb, ha, if_true, upd_rz_lb_nr e w info a ha', hs.lbsc a ha, hs.lbidx, hv]
    linear_combination (d0.lb.sc[a] * e.pre.dx[d0.lb.idx[a]] * w.x[d0.lb.idx[a]] + d0.lb.val[a]) * hdl
  · have hdu := hi.dub a
    have ha' : a.val < e.data.ub.cnt := by rw [hs.ubcnt]; exact ha
    have hv := hs.ubval a
    simp only [ha, if_true] at hv
    simp only [Precond.unscalePrimalResUb, Precond.unscalePrimal, Precond.unscaleSlackUb, hk, if_false, C13.ofFn_get,
      C15.headMap_get, hs.nub, ha, if_true, upd_rz_ub_nr e w info a ha', hs.ubsc a ha, hs.ubidx, hv]
    linear_combination (-(d0.ub.sc[a] * e.pre.dx[d0.ub.idx[a]] * w.x[d0.ub.idx[a]]) + d0.ub.val[a]) * hdu

theorem upd_primalObj (e : Env K n p m) (w : Work K n p m) (info : Info K) :
    (updateNrResiduals e w info).2.primalObj =
      e.pre.unscaleCost e.pk (e.cs.c0_5 * -(Vec.dot w.x (Vector.ofFn fun i => -(Mat.mulVec e.data.Psym w.x)[i])) + Vec.dot e.data.c w.x) := by
  unfold updateNrResiduals; rfl

theorem upd_dualObj (e : Env K n p m) (w : Work K n p m) (info : Info K) :
    (updateNrResiduals e w info).2.dualObj =
      e.pre.unscaleCost e.pk (-e.cs.c0_5 * -(Vec.dot w.x (Vector.ofFn fun i => -(Mat.mulVec e.data.Psym w.x)[i]))
        - Vec.dot e.data.b w.y - Vec.dot e.data.h w.z - dotHead e.data.lb.cnt e.data.lb.val w.z_lb
        - dotHead e.data.ub.cnt e.data.ub.val w.z_ub) := by
  unfold updateNrResiduals; rfl

/-- `xᵀPx` of the user's problem at the unscaled point -/
def userQuad (d0 : Data K n p m) (x : Vec K n) : K := ∑ i : Fin n, x[i] * ∑ j : Fin n, d0.Psym[i][j] * x[j]

theorem quad_scaled (e : Env K n p m) (d0 : Data K n p m) (hs : Scaled d0 e.data e.pre) (w : Work K n p m) :
    -(Vec.dot w.x (Vector.ofFn fun i => -(Mat.mulVec e.data.Psym w.x)[i])) =
      e.pre.c * userQuad d0 (Vector.ofFn fun i => w.x[i] * e.pre.dx[i]) := by
  simp only [Vec.dot, sumFin_eq_sum, C13.ofFn_get, C13.mulVec_get, userQuad]
  rw [Finset.mul_sum, ← Finset.sum_neg_distrib]
  refine Finset.sum_congr rfl fun i _ => ?_
  have : (∑ j : Fin n, e.data.Psym[i][j] * w.x[j]) = e.pre.c * e.pre.dx[i] * ∑ j : Fin n, d0.Psym[i][j] * (w.x[j] * e.pre.dx[j]) := by
    rw [Finset.mul_sum]
    exact Finset.sum_congr rfl fun j _ => by rw [Psym_scaled hs.toApplied i j]; ring
  rw [this]; ring

/-- **C09/C01, the reported objectives are the user's**: `primal_obj = ½·xᵀPx + cᵀx` and
    `dual_obj = −½·xᵀPx − bᵀy − hᵀz − (−lb)ᵀz_lb − ubᵀz_ub` for the user's data at the unscaled point (with `½` the solver's
    constant `c0_5`), including cost scaling -/
theorem objectives_are_users (e : Env K n p m) (d0 : Data K n p m) (hk : e.pk ≠ .identity)
    (hs : Scaled d0 e.data e.pre) (hi : InvFull e.pre) (w : Work K n p m) (info : Info K) :
    let x := e.pre.unscalePrimal e.pk w.x
    let y := e.pre.unscaleDualEq e.pk w.y
    let z := e.pre.unscaleDualIneq e.pk w.z
    let zl := e.pre.unscaleDualLb e.pk w.z_lb
    let zu := e.pre.unscaleDualUb e.pk w.z_ub
    (updateNrResiduals e w info).2.primalObj = e.cs.c0_5 * userQuad d0 x + ∑ i : Fin n, d0.c[i] * x[i] ∧
    (updateNrResiduals e w info).2.dualObj = -e.cs.c0_5 * userQuad d0 x - (∑ t : Fin p, d0.b[t] * y[t]) - (∑ t : Fin m, d0.h[t] * z[t])
        - (∑ a : Fin n, if a.val < d0.lb.cnt then d0.lb.val[a] * zl[a] else 0)
        - (∑ a : Fin n, if a.val < d0.ub.cnt then d0.ub.val[a] * zu[a] else 0) := by
  have hc := hi.c
  have hq := quad_scaled e d0 hs w
  constructor
  · rw [upd_primalObj, hq]
    simp only [Precond.unscaleCost, Precond.unscalePrimal, hk, if_false, Vec.dot, sumFin_eq_sum, C13.ofFn_get]
    have eC : (∑ i : Fin n, e.data.c[i] * w.x[i]) = e.pre.c * ∑ i : Fin n, d0.c[i] * (w.x[i] * e.pre.dx[i]) := by
      rw [Finset.mul_sum]
      exact Finset.sum_congr rfl fun i _ => by rw [hs.c i]; ring
    rw [eC]
    generalize userQuad d0 (Vector.ofFn fun i => w.x[i] * e.pre.dx[i]) = Q
    generalize (∑ i : Fin n, d0.c[i] * (w.x[i] * e.pre.dx[i])) = C
    linear_combination (e.cs.c0_5 * Q + C) * hc
  · rw [upd_dualObj, hq]
    simp only [Precond.unscaleCost, Precond.unscalePrimal, Precond.unscaleDualEq, Precond.unscaleDualIneq, Precond.unscaleDualLb,
      Precond.unscaleDualUb, hk, if_false, Vec.dot, dotHead, sumFin_eq_sum, C13.ofFn_get, C15.headMap_get, hs.nlb, hs.nub]
    have eB : (∑ t : Fin p, e.data.b[t] * w.y[t]) = e.pre.c * ∑ t : Fin p, d0.b[t] * (w.y[t] * e.pre.cInv * e.pre.dy[t]) := by
      rw [Finset.mul_sum]
      exact Finset.sum_congr rfl fun t _ => by
        rw [hs.b t]; linear_combination (-(d0.b[t] * e.pre.dy[t] * w.y[t])) * hc
    have eH : (∑ t : Fin m, e.data.h[t] * w.z[t]) = e.pre.c * ∑ t : Fin m, d0.h[t] * (w.z[t] * e.pre.cInv * e.pre.dz[t]) := by
      rw [Finset.mul_sum]
      exact Finset.sum_congr rfl fun t _ => by
        rw [hs.h t]; linear_combination (-(d0.h[t] * e.pre.dz[t] * w.z[t])) * hc
    have eL : (∑ a : Fin n, if a.val < e.data.lb.cnt then e.data.lb.val[a] * w.z_lb[a] else 0) =
        e.pre.c * ∑ a : Fin n, if a.val < d0.lb.cnt then
          d0.lb.val[a] * (if a.val < d0.lb.cnt then w.z_lb[a] * e.pre.cInv * e.pre.dlb[a] else w.z_lb[a]) else 0 := by
      rw [Finset.mul_sum]
      refine Finset.sum_congr rfl fun a _ => ?_
      simp only [hs.lbcnt]
      by_cases h : a.val < d0.lb.cnt
      · have hv := hs.lbval a
        simp only [h, if_true] at hv ⊢
        rw [hv]; linear_combination (-(d0.lb.val[a] * e.pre.dlb[a] * w.z_lb[a])) * hc
      · simp only [h, if_false, mul_zero]
    have eU : (∑ a : Fin n, if a.val < e.data.ub.cnt then e.data.ub.val[a] * w.z_ub[a] else 0) =
        e.pre.c * ∑ a : Fin n, if a.val < d0.ub.cnt then
          d0.ub.val[a] * (if a.val < d0.ub.cnt then w.z_ub[a] * e.pre.cInv * e.pre.dub[a] else w.z_ub[a]) else 0 := by
      rw [Finset.mul_sum]
      refine Finset.sum_congr rfl fun a _ => ?_
      simp only [hs.ubcnt]
      by_cases h : a.val < d0.ub.cnt
      · have hv := hs.ubval a
        simp only [h, if_true] at hv ⊢
        rw [hv]; linear_combination (-(d0.ub.val[a] * e.pre.dub[a] * w.z_ub[a])) * hc
      · simp only [h, if_false, mul_zero]
    rw [eB, eH, eL, eU]
    generalize userQuad d0 (Vector.ofFn fun i => w.x[i] * e.pre.dx[i]) = Q
    generalize (∑ t : Fin p, d0.b[t] * (w.y[t] * e.pre.cInv * e.pre.dy[t])) = B
    generalize (∑ t : Fin m, d0.h[t] * (w.z[t] * e.pre.cInv * e.pre.dz[t])) = H
    generalize (∑ a : Fin n, if a.val < d0.lb.cnt then
          d0.lb.val[a] * (if a.val < d0.lb.cnt then w.z_lb[a] * e.pre.cInv * e.pre.dlb[a] else w.z_lb[a]) else 0) = L
    generalize (∑ a : Fin n, if a.val < d0.ub.cnt then
          d0.ub.val[a] * (if a.val < d0.ub.cnt then w.z_ub[a] * e.pre.cInv * e.pre.dub[a] else w.z_ub[a]) else 0) = U
    linear_combination (-e.cs.c0_5 * Q - B - H - L - U) * hc


/-! ### Freshness: the residual fields the test reads belong to the iterate that is returned -/

/-- the diagnostics `update_nr_residuals` writes into `info` -/
def DiagEq (a b : Info K) : Prop :=
  a.dualRelInf = b.dualRelInf ∧ a.primalRelInf = b.primalRelInf ∧ a.primalObj = b.primalObj ∧ a.dualObj = b.dualObj ∧
  a.dualityGap = b.dualityGap ∧ a.dualityGapRel = b.dualityGapRel

theorem DiagEq.refl (a : Info K) : DiagEq a a := ⟨rfl, rfl, rfl, rfl, rfl, rfl⟩
theorem DiagEq.trans {a b c : Info K} (h1 : DiagEq a b) (h2 : DiagEq b c) : DiagEq a c :=
  ⟨h1.1.trans h2.1, h1.2.1.trans h2.2.1, h1.2.2.1.trans h2.2.2.1, h1.2.2.2.1.trans h2.2.2.2.1,
   h1.2.2.2.2.1.trans h2.2.2.2.2.1, h1.2.2.2.2.2.trans h2.2.2.2.2.2⟩
theorem DiagEq.symm {a b : Info K} (h : DiagEq a b) : DiagEq b a :=
  ⟨h.1.symm, h.2.1.symm, h.2.2.1.symm, h.2.2.2.1.symm, h.2.2.2.2.1.symm, h.2.2.2.2.2.symm⟩

/-- the part of the workspace `update_nr_residuals` reads -/
structure SameIter (w w' : Work K n p m) : Prop where
  x : w.x = w'.x
  y : w.y = w'.y
  z : w.z = w'.z
  z_lb : w.z_lb = w'.z_lb
  z_ub : w.z_ub = w'.z_ub
  s : w.s = w'.s
  s_lb : w.s_lb = w'.s_lb
  s_ub : w.s_ub = w'.s_ub
  rzl : w.rz_lb_nr = w'.rz_lb_nr
  rzu : w.rz_ub_nr = w'.rz_ub_nr

/-- the non-regularised residual fields -/
structure SameNr (w w' : Work K n p m) : Prop where
  rx : w.rx_nr = w'.rx_nr
  ry : w.ry_nr = w'.ry_nr
  rz : w.rz_nr = w'.rz_nr
  rzl : w.rz_lb_nr = w'.rz_lb_nr
  rzu : w.rz_ub_nr = w'.rz_ub_nr

theorem upd_congr (e : Env K n p m) (w w' : Work K n p m) (info info' : Info K) (h : SameIter w w') :
    SameNr (updateNrResiduals e w info).1 (updateNrResiduals e w' info').1 ∧
    DiagEq (updateNrResiduals e w info).2 (updateNrResiduals e w' info').2 := by
  unfold updateNrResiduals
  simp only [h.x, h.y, h.z, h.z_lb, h.z_ub, h.s, h.s_lb, h.s_ub, h.rzl, h.rzu]
  exact ⟨⟨rfl, rfl, rfl, rfl, rfl⟩, ⟨rfl, rfl, rfl, rfl, rfl, rfl⟩⟩

theorem upd_sameIter (e : Env K n p m) (w : Work K n p m) (info : Info K) :
    let r := (updateNrResiduals e w info).1
    r.x = w.x ∧ r.y = w.y ∧ r.z = w.z ∧ r.z_lb = w.z_lb ∧ r.z_ub = w.z_ub ∧ r.s = w.s ∧ r.s_lb = w.s_lb ∧ r.s_ub = w.s_ub := by
  unfold updateNrResiduals
  exact ⟨rfl, rfl, rfl, rfl, rfl, rfl, rfl, rfl⟩

theorem headUpd_absorb (b : BoxSide K n) (old : Vec K n) (f g : Fin n → K) :
    b.headUpd (b.headUpd old g) f = b.headUpd old f := by
  apply Vector.ext
  intro i hi
  have := C13.headUpd_get b (b.headUpd old g) f ⟨i, hi⟩
  have h2 := C13.headUpd_get b old f ⟨i, hi⟩
  have h3 := C13.headUpd_get b old g ⟨i, hi⟩
  simp only [Fin.getElem_fin] at this h2 h3
  rw [this, h2]
  split
  · rfl
  · rw [h3]; rename_i h; simp only [h, if_false]

/-- `update_nr_residuals` is idempotent: recomputing at the same iterate changes no residual field and no diagnostic -/
theorem upd_idem (e : Env K n p m) (w : Work K n p m) (info : Info K) :
    SameNr (updateNrResiduals e (updateNrResiduals e w info).1 (updateNrResiduals e w info).2).1 (updateNrResiduals e w info).1 ∧
    DiagEq (updateNrResiduals e (updateNrResiduals e w info).1 (updateNrResiduals e w info).2).2 (updateNrResiduals e w info).2 := by
  unfold updateNrResiduals
  simp only [headUpd_absorb]
  exact ⟨⟨rfl, rfl, rfl, rfl, rfl⟩, ⟨rfl, rfl, rfl, rfl, rfl, rfl⟩⟩

theorem SameNr.symm {w w' : Work K n p m} (h : SameNr w w') : SameNr w' w := ⟨h.rx.symm, h.ry.symm, h.rz.symm, h.rzl.symm, h.rzu.symm⟩
theorem SameNr.trans {a b c : Work K n p m} (h1 : SameNr a b) (h2 : SameNr b c) : SameNr a c :=
  ⟨h1.rx.trans h2.rx, h1.ry.trans h2.ry, h1.rz.trans h2.rz, h1.rzl.trans h2.rzl, h1.rzu.trans h2.rzu⟩

/-- the residual fields and diagnostics stored with the iterate are the ones `update_nr_residuals` computes for it -/
structure Fresh (e : Env K n p m) (w : Work K n p m) (info : Info K) : Prop where
  nr : SameNr (updateNrResiduals e w info).1 w
  diag : DiagEq (updateNrResiduals e w info).2 info

theorem Fresh.congr {e : Env K n p m} {w w' : Work K n p m} {info info' : Info K} (h : Fresh e w info)
    (hi : SameIter w w') (hn : SameNr w w') (hd : DiagEq info info') : Fresh e w' info' := by
  obtain ⟨c1, c2⟩ := upd_congr e w w' info info' hi
  exact ⟨c1.symm.trans (h.nr.trans hn), c2.symm.trans (h.diag.trans hd)⟩

theorem fresh_upd (e : Env K n p m) (w : Work K n p m) (info : Info K) :
    Fresh e (updateNrResiduals e w info).1 (updateNrResiduals e w info).2 :=
  ⟨(upd_idem e w info).1, (upd_idem e w info).2⟩

theorem primalInfNr_congr (e : Env K n p m) {w w' : Work K n p m} (h : SameNr w w') : primalInfNr e w = primalInfNr e w' := by
  unfold primalInfNr; rw [h.ry, h.rz, h.rzl, h.rzu]

theorem dualInfNr_congr (e : Env K n p m) {w w' : Work K n p m} (h : SameNr w w') : dualInfNr e w = dualInfNr e w' := by
  unfold dualInfNr; rw [h.rx]

theorem termTest_congr (st : Settings K) (a b : Info K) (h1 : a.primalInf = b.primalInf) (h2 : a.dualInf = b.dualInf)
    (hd : DiagEq a b) : termTest st a = termTest st b := by
  unfold termTest
  rw [h1, h2, hd.1, hd.2.1, hd.2.2.2.2.1, hd.2.2.2.2.2]

/-- the termination test is known to fail for the residual fields stored with this iterate -/
def Dead (e : Env K n p m) (w : Work K n p m) (info : Info K) : Prop :=
  termTest e.st { info with primalInf := primalInfNr e w, dualInf := dualInfNr e w } = false

theorem head_spec (e : Env K n p m) (b : Bool) (w : Work K n p m) (info : Info K)
    (hJ : b = true ∨ Fresh e w info ∨ Dead e w info) (ht : termTest e.st (headInfo e b w info).2 = true) :
    Fresh e (headInfo e b w info).1 (headInfo e b w info).2 ∧
    (headInfo e b w info).2.primalInf = primalInfNr e (headInfo e b w info).1 ∧
    (headInfo e b w info).2.dualInf = dualInfNr e (headInfo e b w info).1 := by
  cases b
  · rcases hJ with h | h | h
    · exact absurd h (by simp)
    · exact ⟨h.congr ⟨rfl, rfl, rfl, rfl, rfl, rfl, rfl, rfl, rfl, rfl⟩ ⟨rfl, rfl, rfl, rfl, rfl⟩ ⟨rfl, rfl, rfl, rfl, rfl, rfl⟩, rfl, rfl⟩
    · unfold Dead at h
      have : termTest e.st (headInfo e false w info).2 = false := h
      rw [this] at ht; exact absurd ht (by simp)
  · exact ⟨(fresh_upd e w info).congr ⟨rfl, rfl, rfl, rfl, rfl, rfl, rfl, rfl, rfl, rfl⟩ ⟨rfl, rfl, rfl, rfl, rfl⟩ ⟨rfl, rfl, rfl, rfl, rfl, rfl⟩, rfl, rfl⟩

theorem head_dead (e : Env K n p m) (b : Bool) (w : Work K n p m) (info : Info K)
    (ht : termTest e.st (headInfo e b w info).2 = false) (w' : Work K n p m) (info' : Info K)
    (hn : SameNr (headInfo e b w info).1 w') (hd : DiagEq (headInfo e b w info).2 info') : Dead e w' info' := by
  unfold Dead
  rw [← ht]
  apply termTest_congr
  · show primalInfNr e w' = (headInfo e b w info).2.primalInf
    rw [← primalInfNr_congr e hn]; cases b <;> rfl
  · show dualInfNr e w' = (headInfo e b w info).2.dualInf
    rw [← dualInfNr_congr e hn]; cases b <;> rfl
  · exact ⟨hd.1.symm, hd.2.1.symm, hd.2.2.1.symm, hd.2.2.2.1.symm, hd.2.2.2.2.1.symm, hd.2.2.2.2.2.symm⟩

theorem shift_same (e : Env K n p m) (w : Work K n p m) (info : Info K) :
    SameNr w (shiftOp e w info).1 ∧ DiagEq info (shiftOp e w info).2 := by
  unfold shiftOp
  refine ⟨⟨rfl, rfl, rfl, rfl, rfl⟩, ?_⟩
  simp only
  split <;> exact ⟨rfl, rfl, rfl, rfl, rfl, rfl⟩

theorem finetune_diag (st : Settings K) (info : Info K) : DiagEq info (finetuneSwitch st info) := by
  unfold finetuneSwitch
  simp only
  split <;> exact ⟨rfl, rfl, rfl, rfl, rfl, rfl⟩

theorem bumpReg_diag (st : Settings K) (cs : Consts K) (info : Info K) : DiagEq info (bumpRegS st cs info) :=
  ⟨rfl, rfl, rfl, rfl, rfl, rfl⟩

theorem regUpdateIneq_diag (st : Settings K) (cs : Consts K) (info : Info K) (a b c d f g : K) :
    DiagEq info (regUpdateIneq st cs info a b c d f g).1 := by
  unfold regUpdateIneq
  simp only
  split <;> split <;> exact ⟨rfl, rfl, rfl, rfl, rfl, rfl⟩

theorem regUpdateEq_diag (cs : Consts K) (info : Info K) (a b : K) : DiagEq info (regUpdateEq cs info a b).1 := by
  unfold regUpdateEq
  simp only
  split <;> split <;> exact ⟨rfl, rfl, rfl, rfl, rfl, rfl⟩

theorem stepNum_fresh (e : Env K n p m) (b : Bool) (kkt : KKT K n p m) (w : Work K n p m) (info : Info K) :
    Fresh e (stepNumOp e b kkt w info).1 (stepNumOp e b kkt w info).2.1 := by
  unfold stepNumOp
  by_cases hm : m + e.data.lb.cnt + e.data.ub.cnt ≠ 0
  · simp only [hm, ne_eq, not_false_eq_true, if_true]
    exact fresh_upd e _ _
  · simp only [hm, if_false]
    exact fresh_upd e _ _

theorem applyFlags_same (e : Env K n p m) (w : Work K n p m) (a b : Bool) :
    SameIter w (applyFlagsOp e w a b) ∧ SameNr w (applyFlagsOp e w a b) := by
  unfold applyFlagsOp
  cases a <;> cases b <;> simp only [Bool.false_eq_true, if_false, if_true]
  · exact ⟨⟨rfl, rfl, rfl, rfl, rfl, rfl, rfl, rfl, rfl, rfl⟩, ⟨rfl, rfl, rfl, rfl, rfl⟩⟩
  · split <;> exact ⟨⟨rfl, rfl, rfl, rfl, rfl, rfl, rfl, rfl, rfl, rfl⟩, ⟨rfl, rfl, rfl, rfl, rfl⟩⟩
  · exact ⟨⟨rfl, rfl, rfl, rfl, rfl, rfl, rfl, rfl, rfl, rfl⟩, ⟨rfl, rfl, rfl, rfl, rfl⟩⟩
  · split <;> exact ⟨⟨rfl, rfl, rfl, rfl, rfl, rfl, rfl, rfl, rfl, rfl⟩, ⟨rfl, rfl, rfl, rfl, rfl⟩⟩

theorem after_fail_dead (e : Env K n p m) (b : Bool) (w : Work K n p m) (info : Info K)
    (ht : ¬ termTest e.st (headInfo e b w info).2 = true) (info' : Info K)
    (hd : DiagEq (finetuneSwitch e.st
      (shiftOp e (regResiduals e (headInfo e b w info).1 (headInfo e b w info).2) (headInfo e b w info).2).2) info') :
    Dead e (shiftOp e (regResiduals e (headInfo e b w info).1 (headInfo e b w info).2) (headInfo e b w info).2).1 info' := by
  have ht' : termTest e.st (headInfo e b w info).2 = false := by simpa using ht
  have hs := shift_same e (regResiduals e (headInfo e b w info).1 (headInfo e b w info).2) (headInfo e b w info).2
  refine head_dead e b w info ht' _ _ ?_ ?_
  · exact (⟨rfl, rfl, rfl, rfl, rfl⟩ : SameNr (headInfo e b w info).1 (regResiduals e (headInfo e b w info).1 (headInfo e b w info).2)).trans hs.1
  · exact (hs.2.trans (finetune_diag e.st _)).trans hd

theorem loop_solved_fresh (e : Env K n p m) (c : Ctrl) (s : NumState K n p m) (info : Info K)
    (hJ : c.iter = 0 ∨ Fresh e s.1 info ∨ Dead e s.1 info)
    (h : (loopG e.st e.cs (realOps e) c s info).2 = Status.solved) :
    Fresh e (loopG e.st e.cs (realOps e) c s info).1.2.1.1 (loopG e.st e.cs (realOps e) c s info).1.2.2 ∧
    (loopG e.st e.cs (realOps e) c s info).1.2.2.primalInf = primalInfNr e (loopG e.st e.cs (realOps e) c s info).1.2.1.1 ∧
    (loopG e.st e.cs (realOps e) c s info).1.2.2.dualInf = dualInfNr e (loopG e.st e.cs (realOps e) c s info).1.2.1.1 := by
  fun_induction loopG e.st e.cs (realOps e) c s info
  case case1 c s info hlt hi htest =>
    have hb : (c.iter == 0) = true ∨ Fresh e s.1 info ∨ Dead e s.1 info := by
      rcases hJ with h | h | h
      · left; simp [h]
      · right; left; exact h
      · right; right; exact h
    have hs := head_spec e (c.iter == 0) s.1 info hb htest
    exact ⟨hs.1.congr ⟨rfl, rfl, rfl, rfl, rfl, rfl, rfl, rfl, rfl, rfl⟩ ⟨rfl, rfl, rfl, rfl, rfl⟩ ⟨rfl, rfl, rfl, rfl, rfl, rfl⟩, hs.2.1, hs.2.2⟩
  case case2 => exact absurd h (by simp)
  case case3 => exact absurd h (by simp)
  case case7 => exact absurd h (by simp)
  case case8 => exact absurd h (by simp)
  case case4 c s info hlt hi htest s1 hp hd iter1 sh info2 s2 fa hfa sn info3 ru s4 ih =>
    refine ih (Or.inr (Or.inl ?_)) h
    have hf := stepNum_fresh e c.refineOn fa.1.2 fa.1.1
      { info2 with iter := iter1, factorRetires := 0 }
    have ha := applyFlags_same e sn.1.1 ru.2.1 ru.2.2
    have hd : DiagEq info3 ru.1 := by
      simp only [ru]
      split
      · exact regUpdateIneq_diag _ _ _ _ _ _ _ _ _
      · exact regUpdateEq_diag _ _ _ _
    exact hf.congr ha.1 ha.2 hd
  case case5 c s info hlt hi htest s1 hp hd iter1 sh info2 s2 fa hfa hr ih =>
    refine ih (Or.inr (Or.inr ?_)) h
    exact after_fail_dead e (c.iter == 0) s.1 info htest _ ⟨rfl, rfl, rfl, rfl, rfl, rfl⟩
  case case6 c s info hlt hi htest s1 hp hd sh info2 s2 fa hfa hr hf ih =>
    refine ih ?_ h
    rcases hJ with h0 | _ | _
    · exact Or.inl h0
    all_goals
      exact Or.inr (Or.inr (after_fail_dead e (c.iter == 0) s.1 info htest _
        (DiagEq.trans (a := info2) (b := { info2 with iter := c.iter, factorRetires := c.factorRetires + 1 })
          ⟨rfl, rfl, rfl, rfl, rfl, rfl⟩ (bumpReg_diag e.st e.cs _))))

section norms
variable [IsStrictOrderedRing K]

theorem le_vmax_left' (a b : K) : a ≤ vmax a b := by
  unfold vmax; split
  · rename_i h; exact le_of_lt h
  · exact le_refl a
theorem le_vmax_right' (a b : K) : b ≤ vmax a b := by
  unfold vmax; split
  · exact le_refl b
  · rename_i h; exact not_lt.mp h

theorem le_maxFin (init : K) : ∀ (q : Nat) (f : Fin q → K) (i : Fin q), f i ≤ maxFin init q f
  | 0, _, i => i.elim0
  | q + 1, f, i => by
    simp only [maxFin]
    rcases Fin.eq_castSucc_or_eq_last i with ⟨j, rfl⟩ | rfl
    · exact le_trans (le_maxFin init q (fun i => f i.castSucc) j) (le_vmax_left' _ _)
    · exact le_vmax_right' _ _

theorem vabs_le_infNorm {q : Nat} (v : Vec K q) (i : Fin q) : vabs v[i] ≤ Vec.infNorm v := by
  unfold Vec.infNorm
  have hq : 0 < q := Nat.lt_of_le_of_lt (Nat.zero_le _) i.isLt
  simp only [hq, dif_pos]
  have := le_maxFin (vabs (v[0]'hq)) q (fun j => if j.val = 0 then vabs (v[0]'hq) else vabs v[j]) i
  by_cases h0 : i.val = 0
  · simp only [h0, if_true] at this
    have e : v[i] = v[0]'hq := by simp only [Fin.getElem_fin, h0]
    rw [e]; exact this
  · simp only [h0, if_false] at this; exact this

theorem vabs_le_headInfNorm {q : Nat} (cnt : Nat) (v : Vec K q) (i : Fin q) (hi : i.val < cnt) :
    vabs v[i] ≤ Vec.headInfNorm cnt v := by
  unfold Vec.headInfNorm
  have hq : 0 < q := Nat.lt_of_le_of_lt (Nat.zero_le _) i.isLt
  have hc : 0 < cnt := Nat.lt_of_le_of_lt (Nat.zero_le _) hi
  simp only [hq, hc, and_self, dif_pos]
  have := le_maxFin (vabs (v[0]'hq)) q (fun j => if j.val = 0 ∨ cnt ≤ j.val then vabs (v[0]'hq) else vabs v[j]) i
  by_cases h0 : i.val = 0
  · simp only [h0, true_or, if_true] at this
    have e : v[i] = v[0]'hq := by simp only [Fin.getElem_fin, h0]
    rw [e]; exact this
  · have : ¬ (i.val = 0 ∨ cnt ≤ i.val) := by omega
    rename_i h1
    simp only [this, if_false] at h1; exact h1

theorem vabs_neg (a : K) : vabs (-a) = vabs a := by
  unfold vabs
  by_cases h : a < 0
  · have : ¬ (-a < 0) := by simp; exact le_of_lt h
    simp [h, this]
  · by_cases h2 : -a < 0
    · simp [h, h2]
    · have : a = 0 := le_antisymm (by simpa using h2) (not_lt.mp h)
      simp [this]
end norms

section certificate
variable [IsStrictOrderedRing K]

/-- **C01, SOLVED implies a certificate for the user's problem (exact arithmetic).**
    For every back end (the numeric operations are those of `realOps e`, whose inner factorisation `e.inner` is arbitrary),
    every factorisation-failure pattern, refinement on or off: if the preconditioner state is a coherent change of variables
    of the user's data `d0` (`Scaled` + `InvFull`, which C15 proves `scale_data` establishes) and the main loop started at
    iteration 0 returns SOLVED, then at the returned iterate, **unscaled**,
    * every entry of the stationarity residual of the user's problem is below `ε_abs + ε_rel·dual_rel_inf`,
    * every equality/inequality row and every packed bound slot of the user's primal residual is below
      `ε_abs + ε_rel·primal_rel_inf`,
    * if requested, the reported duality gap is below its tolerance,
    * and the reported objectives are the user's primal and dual objectives at that point. -/
theorem solved_certificate (e : Env K n p m) (d0 : Data K n p m) (hk : e.pk ≠ .identity)
    (hs : Scaled d0 e.data e.pre) (hi : InvFull e.pre) (ls : LoopState K n p m) (h0 : ls.c.iter = 0)
    (hsolved : (mainLoop e ls).2 = Status.solved) :
    let w := (mainLoop e ls).1.w
    let info := (mainLoop e ls).1.info
    let x := e.pre.unscalePrimal e.pk w.x
    let y := e.pre.unscaleDualEq e.pk w.y
    let z := e.pre.unscaleDualIneq e.pk w.z
    let zl := e.pre.unscaleDualLb e.pk w.z_lb
    let zu := e.pre.unscaleDualUb e.pk w.z_ub
    (∀ i : Fin n, vabs (userDualRes d0 x y z zl zu i) < e.st.epsAbs + e.st.epsRel * info.dualRelInf) ∧
    (∀ t : Fin p, vabs (d0.b[t] - ∑ i : Fin n, d0.AT[i][t] * x[i]) < e.st.epsAbs + e.st.epsRel * info.primalRelInf) ∧
    (∀ t : Fin m, vabs (d0.h[t] - (∑ i : Fin n, d0.GT[i][t] * x[i]) - (e.pre.unscaleSlackIneq e.pk w.s)[t])
        < e.st.epsAbs + e.st.epsRel * info.primalRelInf) ∧
    (∀ a : Fin n, a.val < d0.lb.cnt →
        vabs (d0.lb.sc[a] * x[d0.lb.idx[a]] + d0.lb.val[a] - (e.pre.unscaleSlackLb e.pk w.s_lb)[a])
          < e.st.epsAbs + e.st.epsRel * info.primalRelInf) ∧
    (∀ a : Fin n, a.val < d0.ub.cnt →
        vabs (-d0.ub.sc[a] * x[d0.ub.idx[a]] + d0.ub.val[a] - (e.pre.unscaleSlackUb e.pk w.s_ub)[a])
          < e.st.epsAbs + e.st.epsRel * info.primalRelInf) ∧
    (e.st.checkDualityGap = true → info.dualityGap < e.st.epsGapAbs + e.st.epsGapRel * info.dualityGapRel) ∧
    info.primalObj = e.cs.c0_5 * userQuad d0 x + ∑ i : Fin n, d0.c[i] * x[i] := by
  intro w info x y z zl zu
  have hloop : (loopG e.st e.cs (realOps e) ls.c (ls.w, ls.kkt) ls.info).2 = Status.solved := hsolved
  obtain ⟨hfresh, hpinf, hdinf⟩ := loop_solved_fresh e ls.c (ls.w, ls.kkt) ls.info (Or.inl h0) hloop
  have htest := solved_diagnostics_within_tolerance e.st e.cs (realOps e) ls.c (ls.w, ls.kkt) ls.info hloop
  obtain ⟨t1, t2, t3⟩ := htest
  change Fresh e w info at hfresh
  change info.primalInf = primalInfNr e w at hpinf
  change info.dualInf = dualInfNr e w at hdinf
  change info.primalInf < e.st.epsAbs + e.st.epsRel * info.primalRelInf at t1
  change info.dualInf < e.st.epsAbs + e.st.epsRel * info.dualRelInf at t2
  have hP := primal_residuals_are_users e d0 hk hs hi w info
  obtain ⟨pe, pi, pl, pu⟩ := hP
  refine ⟨fun i => ?_, fun t => ?_, fun t => ?_, fun a ha => ?_, fun a ha => ?_, t3, ?_⟩
  · have := dual_residual_is_users e d0 hk hs hi w info i
    rw [hfresh.nr.rx] at this
    have hle := vabs_le_infNorm (e.pre.unscaleDualRes e.pk w.rx_nr) i
    rw [this, vabs_neg] at hle
    exact lt_of_le_of_lt hle (by rw [← show info.dualInf = Vec.infNorm (e.pre.unscaleDualRes e.pk w.rx_nr) from hdinf]; exact t2)
  · have := pe t
    rw [hfresh.nr.ry] at this
    have hle := vabs_le_infNorm (e.pre.unscalePrimalResEq e.pk w.ry_nr) t
    rw [this] at hle
    refine lt_of_le_of_lt (le_trans hle ?_) (hpinf ▸ t1)
    unfold primalInfNr primalInfOf
    exact le_trans (le_trans (le_vmax_left' _ _) (le_vmax_left' _ _)) (le_vmax_left' _ _)
  · have := pi t
    rw [hfresh.nr.rz] at this
    have hle := vabs_le_infNorm (e.pre.unscalePrimalResIneq e.pk w.rz_nr) t
    rw [this] at hle
    refine lt_of_le_of_lt (le_trans hle ?_) (hpinf ▸ t1)
    unfold primalInfNr primalInfOf
    exact le_trans (le_trans (le_vmax_right' _ _) (le_vmax_left' _ _)) (le_vmax_left' _ _)
  · have := pl a ha
    rw [hfresh.nr.rzl] at this
    have ha' : a.val < e.data.lb.cnt := by rw [hs.lbcnt]; exact ha
    have hle := vabs_le_headInfNorm e.data.lb.cnt (e.pre.unscalePrimalResLb e.pk w.rz_lb_nr) a ha'
    rw [this] at hle
    refine lt_of_le_of_lt (le_trans hle ?_) (hpinf ▸ t1)
    unfold primalInfNr primalInfOf
    exact le_trans (le_vmax_right' _ _) (le_vmax_left' _ _)
  · have := pu a ha
    rw [hfresh.nr.rzu] at this
    have ha' : a.val < e.data.ub.cnt := by rw [hs.ubcnt]; exact ha
    have hle := vabs_le_headInfNorm e.data.ub.cnt (e.pre.unscalePrimalResUb e.pk w.rz_ub_nr) a ha'
    rw [this] at hle
    refine lt_of_le_of_lt (le_trans hle ?_) (hpinf ▸ t1)
    unfold primalInfNr primalInfOf
    exact le_vmax_right' _ _
  · rw [← hfresh.diag.2.2.1]
    exact (objectives_are_users e d0 hk hs hi w info).1
end certificate

end algebra
end Piqp.C01

/-! ## the identity preconditioner

`IdentityPreconditioner` is the other preconditioner type the templates accept. In exact arithmetic it is the Ruiz
preconditioner with all scalings equal to 1: `realOps_asRuiz` shows that every numeric operation of the loop coincides, so
the certificate theorem transfers. -/

namespace Piqp.C01
section identity
open Finset Piqp.C13 Piqp.C15
variable {K : Type} [Field K] [LinearOrder K]
variable {n p m : Nat}

/-- the preconditioner state that scales nothing -/
def unitPre (d : Data K n p m) : Precond K n p m :=
  { nlb := d.lb.cnt, nub := d.ub.cnt, c := 1, dx := Vec.const n 1, dy := Vec.const p 1, dz := Vec.const m 1,
    dlb := Vec.const n 1, dub := Vec.const n 1, cInv := 1, dxInv := Vec.const n 1, dyInv := Vec.const p 1,
    dzInv := Vec.const m 1, dlbInv := Vec.const n 1, dubInv := Vec.const n 1 }

/-- the same environment, seen as a Ruiz-preconditioned one whose scalings are all 1 -/
def asRuiz (e : Env K n p m) : Env K n p m := { e with pk := .denseRuiz, pre := unitPre e.data }

variable (d : Data K n p m) (pre : Precond K n p m)

theorem u_cost (v : K) : (unitPre d).unscaleCost .denseRuiz v = pre.unscaleCost .identity v := by
  simp [Precond.unscaleCost, unitPre]
theorem u_dualRes (v : Vec K n) : (unitPre d).unscaleDualRes .denseRuiz v = pre.unscaleDualRes .identity v := by
  simp only [Precond.unscaleDualRes, unitPre, if_true, reduceCtorEq, if_false]
  apply Vector.ext; intro i hi
  simp [Vec.const]
theorem u_primal (v : Vec K n) : (unitPre d).unscalePrimal .denseRuiz v = pre.unscalePrimal .identity v := by
  simp only [Precond.unscalePrimal, unitPre, if_true, reduceCtorEq, if_false]
  apply Vector.ext; intro i hi
  simp [Vec.const]
theorem u_resEq (v : Vec K p) : (unitPre d).unscalePrimalResEq .denseRuiz v = pre.unscalePrimalResEq .identity v := by
  simp only [Precond.unscalePrimalResEq, unitPre, if_true, reduceCtorEq, if_false]
  apply Vector.ext; intro i hi
  simp [Vec.const]
theorem u_resIneq (v : Vec K m) : (unitPre d).unscalePrimalResIneq .denseRuiz v = pre.unscalePrimalResIneq .identity v := by
  simp only [Precond.unscalePrimalResIneq, unitPre, if_true, reduceCtorEq, if_false]
  apply Vector.ext; intro i hi
  simp [Vec.const]
theorem u_dualEq (v : Vec K p) : (unitPre d).unscaleDualEq .denseRuiz v = pre.unscaleDualEq .identity v := by
  simp only [Precond.unscaleDualEq, unitPre, if_true, reduceCtorEq, if_false]
  apply Vector.ext; intro i hi
  simp [Vec.const]
theorem u_dualIneq (v : Vec K m) : (unitPre d).unscaleDualIneq .denseRuiz v = pre.unscaleDualIneq .identity v := by
  simp only [Precond.unscaleDualIneq, unitPre, if_true, reduceCtorEq, if_false]
  apply Vector.ext; intro i hi
  simp [Vec.const]
theorem u_head (cnt : Nat) (v : Vec K n) (f : Fin n → K) (hf : ∀ i, f i = v[i]) : headMap cnt v f = v := by
  apply Vector.ext; intro i hi
  have := C15.headMap_get cnt v f ⟨i, hi⟩
  simp only [Fin.getElem_fin] at this
  rw [this]; split
  · exact hf ⟨i, hi⟩
  · rfl
theorem u_resLb (v : Vec K n) : (unitPre d).unscalePrimalResLb .denseRuiz v = pre.unscalePrimalResLb .identity v := by
  simp only [Precond.unscalePrimalResLb, unitPre, if_true, reduceCtorEq, if_false]
  exact u_head _ _ _ (fun i => by simp [Vec.const])
theorem u_resUb (v : Vec K n) : (unitPre d).unscalePrimalResUb .denseRuiz v = pre.unscalePrimalResUb .identity v := by
  simp only [Precond.unscalePrimalResUb, unitPre, if_true, reduceCtorEq, if_false]
  exact u_head _ _ _ (fun i => by simp [Vec.const])
theorem u_dualLb (v : Vec K n) : (unitPre d).unscaleDualLb .denseRuiz v = pre.unscaleDualLb .identity v := by
  simp only [Precond.unscaleDualLb, unitPre, if_true, reduceCtorEq, if_false]
  exact u_head _ _ _ (fun i => by simp [Vec.const])
theorem u_dualUb (v : Vec K n) : (unitPre d).unscaleDualUb .denseRuiz v = pre.unscaleDualUb .identity v := by
  simp only [Precond.unscaleDualUb, unitPre, if_true, reduceCtorEq, if_false]
  exact u_head _ _ _ (fun i => by simp [Vec.const])
theorem u_slackIneq (v : Vec K m) : (unitPre d).unscaleSlackIneq .denseRuiz v = v := by
  simp only [Precond.unscaleSlackIneq, unitPre, reduceCtorEq, if_false]
  apply Vector.ext; intro i hi
  simp [Vec.const]
theorem u_slackLb (v : Vec K n) : (unitPre d).unscaleSlackLb .denseRuiz v = v := by
  simp only [Precond.unscaleSlackLb, unitPre, reduceCtorEq, if_false]
  exact u_head _ _ _ (fun i => by simp [Vec.const])
theorem u_slackUb (v : Vec K n) : (unitPre d).unscaleSlackUb .denseRuiz v = v := by
  simp only [Precond.unscaleSlackUb, unitPre, reduceCtorEq, if_false]
  exact u_head _ _ _ (fun i => by simp [Vec.const])
theorem id_primal (v : Vec K n) : pre.unscalePrimal .identity v = v := by simp [Precond.unscalePrimal]
theorem id_dualEq (v : Vec K p) : pre.unscaleDualEq .identity v = v := by simp [Precond.unscaleDualEq]
theorem id_dualIneq (v : Vec K m) : pre.unscaleDualIneq .identity v = v := by simp [Precond.unscaleDualIneq]
theorem id_dualLb (v : Vec K n) : pre.unscaleDualLb .identity v = v := by simp [Precond.unscaleDualLb]
theorem id_dualUb (v : Vec K n) : pre.unscaleDualUb .identity v = v := by simp [Precond.unscaleDualUb]

omit d pre in
theorem realOps_asRuiz (e : Env K n p m) (hk : e.pk = .identity) : realOps (asRuiz e) = realOps e := by
  have e1 : ∀ w info, updateNrResiduals (asRuiz e) w info = updateNrResiduals e w info := by
    intro w info
    unfold updateNrResiduals
    simp only [asRuiz, hk, u_cost e.data e.pre, u_dualRes e.data e.pre, u_resEq e.data e.pre, u_resIneq e.data e.pre,
      u_resLb e.data e.pre, u_resUb e.data e.pre]
  have e2 : ∀ ry rz rzl rzu, primalInfOf (asRuiz e) ry rz rzl rzu = primalInfOf e ry rz rzl rzu := by
    intro ry rz rzl rzu
    unfold primalInfOf
    simp only [asRuiz, hk, u_resEq e.data e.pre, u_resIneq e.data e.pre, u_resLb e.data e.pre, u_resUb e.data e.pre]
  have e3 : ∀ w, dualInfNr (asRuiz e) w = dualInfNr e w := by
    intro w; unfold dualInfNr; simp only [asRuiz, hk, u_dualRes e.data e.pre]
  have e4 : ∀ w, dualInfR (asRuiz e) w = dualInfR e w := by
    intro w; unfold dualInfR; simp only [asRuiz, hk, u_dualRes e.data e.pre]
  have e5 : ∀ w, primalProxInf (asRuiz e) w = primalProxInf e w := by
    intro w; unfold primalProxInf
    simp only [asRuiz, hk, u_dualEq e.data e.pre, u_dualIneq e.data e.pre, u_dualLb e.data e.pre, u_dualUb e.data e.pre]
  have e6 : ∀ w, dualProxInf (asRuiz e) w = dualProxInf e w := by
    intro w; unfold dualProxInf; simp only [asRuiz, hk, u_primal e.data e.pre]
  have e7 : ∀ w, primalInfNr (asRuiz e) w = primalInfNr e w := fun w => e2 _ _ _ _
  have e8 : ∀ w, primalInfR (asRuiz e) w = primalInfR e w := fun w => e2 _ _ _ _
  have e9 : ∀ b w info, headInfo (asRuiz e) b w info = headInfo e b w info := by
    intro b w info
    unfold headInfo
    simp only [e1, e7, e3]
  have e10 : ∀ b k w info, stepNumOp (asRuiz e) b k w info = stepNumOp e b k w info := by
    intro b k w info
    unfold stepNumOp
    simp only [e1, e7, e3, e5, e6]
    rfl
  unfold realOps
  simp only [e9, e10, e5, e6, e8, e4]
  rfl

omit pre in
theorem scaled_unit : Scaled d d (unitPre d) := by
  refine { toApplied := applied_init d (unitPre d) rfl ?_ ?_ ?_ ?_ ?_, b := ?_, h := ?_, lbval := ?_, ubval := ?_, nlb := rfl, nub := rfl }
  all_goals intro i
  all_goals simp [unitPre, Vec.const]

omit pre in
theorem invFull_unit : InvFull (unitPre d) := by
  refine ⟨?_, ?_, ?_, ?_, ?_, ?_⟩
  all_goals simp [unitPre, Vec.const]

omit d pre in
theorem mainLoop_asRuiz (e : Env K n p m) (hk : e.pk = .identity) (ls : LoopState K n p m) : mainLoop (asRuiz e) ls = mainLoop e ls := by
  unfold mainLoop
  rw [realOps_asRuiz e hk]
  rfl

variable [IsStrictOrderedRing K]

omit d pre in
/-- **C01 for the identity preconditioner** (`DenseSolver<T, IdentityPreconditioner>` and the sparse analogue): SOLVED
    certifies the stored — i.e. the user's — problem directly; obtained from `solved_certificate` by viewing the identity
    preconditioner as a Ruiz preconditioner whose scalings are all 1 (`realOps_asRuiz`: the numeric operations coincide). -/
theorem solved_certificate_identity (e : Env K n p m) (hk : e.pk = .identity) (ls : LoopState K n p m) (h0 : ls.c.iter = 0)
    (hsolved : (mainLoop e ls).2 = Status.solved) :
    let w := (mainLoop e ls).1.w
    let info := (mainLoop e ls).1.info
    (∀ i : Fin n, vabs (userDualRes e.data w.x w.y w.z w.z_lb w.z_ub i) < e.st.epsAbs + e.st.epsRel * info.dualRelInf) ∧
    (∀ t : Fin p, vabs (e.data.b[t] - ∑ i : Fin n, e.data.AT[i][t] * w.x[i]) < e.st.epsAbs + e.st.epsRel * info.primalRelInf) ∧
    (∀ t : Fin m, vabs (e.data.h[t] - (∑ i : Fin n, e.data.GT[i][t] * w.x[i]) - w.s[t]) < e.st.epsAbs + e.st.epsRel * info.primalRelInf) ∧
    (∀ a : Fin n, a.val < e.data.lb.cnt →
        vabs (e.data.lb.sc[a] * w.x[e.data.lb.idx[a]] + e.data.lb.val[a] - w.s_lb[a]) < e.st.epsAbs + e.st.epsRel * info.primalRelInf) ∧
    (∀ a : Fin n, a.val < e.data.ub.cnt →
        vabs (-e.data.ub.sc[a] * w.x[e.data.ub.idx[a]] + e.data.ub.val[a] - w.s_ub[a]) < e.st.epsAbs + e.st.epsRel * info.primalRelInf) ∧
    (e.st.checkDualityGap = true → info.dualityGap < e.st.epsGapAbs + e.st.epsGapRel * info.dualityGapRel) ∧
    info.primalObj = e.cs.c0_5 * userQuad e.data w.x + ∑ i : Fin n, e.data.c[i] * w.x[i] := by
  have h := solved_certificate (asRuiz e) e.data (by simp [asRuiz]) (scaled_unit e.data) (invFull_unit e.data) ls h0
    (by rw [mainLoop_asRuiz e hk]; exact hsolved)
  rw [mainLoop_asRuiz e hk] at h
  simp only [asRuiz, u_primal e.data e.pre, u_dualEq e.data e.pre, u_dualIneq e.data e.pre, u_dualLb e.data e.pre,
    u_dualUb e.data e.pre, u_slackIneq, u_slackLb, u_slackUb, id_primal, id_dualEq, id_dualIneq, id_dualLb, id_dualUb] at h
  exact h
end identity
end Piqp.C01
