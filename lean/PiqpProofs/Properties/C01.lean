import PiqpProofs.Basic
import PiqpModel.Solver

/-!
# C01 — SOLVED implies a valid optimality certificate

Theorems about the control skeleton (`PiqpModel/Control.lean`), valid for **every** numeric back end
(`LoopOps`): all five KKT formulations, refinement on or off, every pattern of factorisation failures.
-/

namespace Piqp.C01

variable {K : Type}
variable [Add K] [Sub K] [Mul K] [Div K] [Neg K] [Zero K] [One K] [LT K] [DecidableLT K] [LE K] [DecidableLE K] [BEq K]
variable {σ : Type}

omit [Neg K] [LE K] [DecidableLE K] in
/-- Whenever the main loop returns SOLVED, the termination test holds for the diagnostics it returns — whatever the
    numeric operations do (any search direction, any factorisation failures, any iteration count). -/
theorem solved_implies_termination_test (st : Settings K) (cs : Consts K) (ops : LoopOps K σ) (c : Ctrl) (s : σ) (info : Info K)
    (h : (loopG st cs ops c s info).2 = Status.solved) :
    termTest st (loopG st cs ops c s info).1.2.2 = true := by
  fun_induction loopG st cs ops c s info <;> simp_all [termTest]

omit [Sub K] [Div K] [Neg K] [Zero K] [One K] [LE K] [DecidableLE K] [BEq K] in
/-- what the termination test says, clause by clause -/
theorem termTest_iff (st : Settings K) (info : Info K) :
    termTest st info = true ↔
      info.primalInf < st.epsAbs + st.epsRel * info.primalRelInf ∧
      info.dualInf < st.epsAbs + st.epsRel * info.dualRelInf ∧
      (st.checkDualityGap = true → info.dualityGap < st.epsGapAbs + st.epsGapRel * info.dualityGapRel) := by
  unfold termTest
  cases st.checkDualityGap <;> simp [and_assoc]

omit [Neg K] [LE K] [DecidableLE K] in
/-- corollary: a SOLVED return carries `primal_inf < ε_abs + ε_rel·primal_rel_inf`, the same for the dual residual
    and, if enabled, for the duality gap, for the diagnostics of the returned iterate -/
theorem solved_diagnostics_within_tolerance (st : Settings K) (cs : Consts K) (ops : LoopOps K σ) (c : Ctrl) (s : σ) (info : Info K)
    (h : (loopG st cs ops c s info).2 = Status.solved) :
    let i := (loopG st cs ops c s info).1.2.2
    i.primalInf < st.epsAbs + st.epsRel * i.primalRelInf ∧
    i.dualInf < st.epsAbs + st.epsRel * i.dualRelInf ∧
    (st.checkDualityGap = true → i.dualityGap < st.epsGapAbs + st.epsGapRel * i.dualityGapRel) :=
  (termTest_iff st _).mp (solved_implies_termination_test st cs ops c s info h)

end Piqp.C01
