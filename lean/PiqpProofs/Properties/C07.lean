import PiqpProofs.Basic
import PiqpModel.Api

/-!
# C07 — results are a function of the inputs only
-/

namespace Piqp.C07

variable {K : Type}
variable [Add K] [Sub K] [Mul K] [Div K] [Neg K] [Zero K] [One K] [LT K] [DecidableLT K] [LE K] [DecidableLE K]
variable [NatCast K] [BEq K] [Inhabited K]

/-- The step function of the interface has no hidden input: the next state and the outcome are determined by the
    current state of *this* instance and the call (there is no global component in `ApiState`), so two instances
    driven by interleaved histories evolve independently. -/
theorem instances_independent (cs : Consts K) (sqrtF : K → K) (poison : K)
    (a b : ApiState K) (ca cb : Call K) :
    let stepA := fun (s : ApiState K × ApiState K) => ((apiStep cs sqrtF poison s.1 ca).1, s.2)
    let stepB := fun (s : ApiState K × ApiState K) => (s.1, (apiStep cs sqrtF poison s.2 cb).1)
    stepA (stepB (a, b)) = stepB (stepA (a, b)) := by
  simp

end Piqp.C07
