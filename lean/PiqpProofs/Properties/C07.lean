import PiqpProofs.Basic
import PiqpModel.Api
import PiqpProofs.Garbage
import PiqpProofs.Generated.Statics

/-!
# C07 — results are a function of the inputs only
-/

namespace Piqp.C07

variable {K : Type}
variable [Add K] [Sub K] [Mul K] [Div K] [Neg K] [Zero K] [One K] [LT K] [DecidableLT K] [LE K] [DecidableLE K]
variable [NatCast K] [BEq K] [Inhabited K]

/-- The step function of the interface has no hidden input: the next state and the outcome are determined by the
    current state of *this* instance and the call (there is no global component in `ApiState`), so two instances
    driven by interleaved histories evolve independently. -/
theorem instances_independent (cs : Consts K) (sqrtF : K → K) (poison : K)
    (a b : ApiState K) (ca cb : Call K) :
    let stepA := fun (s : ApiState K × ApiState K) => ((apiStep cs sqrtF poison s.1 ca).1, s.2)
    let stepB := fun (s : ApiState K × ApiState K) => (s.1, (apiStep cs sqrtF poison s.2 cb).1)
    stepA (stepB (a, b)) = stepB (stepA (a, b)) := by
  simp


/-- **no hidden static state in the source** (tie C, regenerated on every run by `translate/statics.py`): every mutable
    variable with static storage duration in `include/piqp` and `interfaces/c` lives in the `PIQP_VERIF` hook header.  This is
    what makes the model's shape — `apiStep` reads the state of *this* instance and nothing else — faithful to the code, and
    with it `instances_independent` (other instances, before or concurrently, cannot influence a result). -/
theorem no_hidden_static_state :
    Piqp.Gen.mutableStatics.all (fun e => e.1 == Piqp.Gen.staticsHookHeader) = true := by decide

/-! ## results do not depend on the content of uninitialised memory

The model makes "previous contents of heap and stack memory" explicit: every buffer slot the C++ code leaves unwritten
(`x_lb_n`/`x_ub_n` beyond `n_lb`/`n_ub`, the residual and step workspaces before their first use, `h` and `b` when absent)
is filled from the parameter `poison` of `apiStep`.  `ApiRel st st'` (PiqpProofs/Garbage.lean) says two interface states
are equal **except** in exactly those slots, whose content is arbitrary — per slot, not just a uniform fill.  The theorems
below show that such a difference is never observable: whatever the garbage is, at whichever call it changes, every
outcome, status, result vector and diagnostic is the same.
-/

/-- everything a caller can read back after a call: dimensions, the 13 result vectors, `info` -/
structure Obs (K : Type) where
  n : Nat
  p : Nat
  m : Nat
  x : Array K
  y : Array K
  z : Array K
  z_lb : Array K
  z_ub : Array K
  s : Array K
  s_lb : Array K
  s_ub : Array K
  zeta : Array K
  lambda : Array K
  nu : Array K
  nu_lb : Array K
  nu_ub : Array K
  info : Info K

def observe (st : ApiState K) : Option (Obs K) :=
  st.sol.map fun a =>
    { n := a.n, p := a.p, m := a.m, x := a.s.w.x.toArray, y := a.s.w.y.toArray, z := a.s.w.z.toArray,
      z_lb := a.s.w.z_lb.toArray, z_ub := a.s.w.z_ub.toArray, s := a.s.w.s.toArray, s_lb := a.s.w.s_lb.toArray,
      s_ub := a.s.w.s_ub.toArray, zeta := a.s.w.zeta.toArray, lambda := a.s.w.lambda.toArray, nu := a.s.w.nu.toArray,
      nu_lb := a.s.w.nu_lb.toArray, nu_ub := a.s.w.nu_ub.toArray, info := a.s.info }

/-- the observable trace of a call history; call number `k` finds the garbage `garbage k` in every slot it does not write -/
def trace (cs : Consts K) (sqrtF : K → K) (garbage : Nat → K) : Nat → ApiState K → List (Call K) → List (Outcome × Option (Obs K))
  | _, _, [] => []
  | k, st, c :: rest =>
    let r := apiStep cs sqrtF (garbage k) st c
    (r.2, observe r.1) :: trace cs sqrtF garbage (k + 1) r.1 rest

/-- states that differ only in dead slots look the same to the caller -/
theorem observe_rel {st st' : ApiState K} (h : ApiRel st st') : observe st = observe st' := by
  obtain ⟨set, sol⟩ := st
  obtain ⟨set', sol'⟩ := st'
  obtain ⟨_, hsol⟩ := h
  simp only at hsol
  rcases hsol with ⟨rfl, rfl⟩ | ⟨a, a', rfl, rfl, n, p, m, hn, s, s', mP, mA, mG, perm, rfl, rfl, hrel⟩
  · rfl
  · obtain ⟨vl, vu, r, d, rx, ry, rz, rzl, rzu, rfl, hl, hu⟩ := hrel
    rfl

/-- a state is related to itself -/
theorem apiRel_refl (st : ApiState K) : ApiRel st st := by
  obtain ⟨set, sol⟩ := st
  refine ⟨rfl, ?_⟩
  cases sol with
  | none => exact Or.inl ⟨rfl, rfl⟩
  | some a =>
    obtain ⟨n, p, m, hn, s, mP, mA, mG, perm⟩ := a
    exact Or.inr ⟨_, _, rfl, rfl, n, p, m, hn, s, s, mP, mA, mG, perm, rfl, rfl,
      ⟨s.data.lb.val, s.data.ub.val, s.w.r, s.w.d, s.w.rx_nr, s.w.ry_nr, s.w.rz_nr, s.w.rz_lb_nr, s.w.rz_ub_nr, rfl,
        HeadEq.rfl' _ _, HeadEq.rfl' _ _⟩⟩

/-- **C07, memory-content half.** Two executions of the same call history whose states differ only in the content of
    never-written slots (arbitrary, per slot), and which meet different garbage at every call, return the same outcomes,
    statuses, result vectors and diagnostics after every call. -/
theorem garbage_independent_rel (cs : Consts K) (sqrtF : K → K) (g g' : Nat → K) (calls : List (Call K)) :
    ∀ (k : Nat) (st st' : ApiState K), ApiRel st st' → trace cs sqrtF g k st calls = trace cs sqrtF g' k st' calls := by
  induction calls with
  | nil => intro k st st' _; rfl
  | cons c rest ih =>
    intro k st st' h
    have hstep := apiStep_rel cs sqrtF (g k) (g' k) st st' c h
    simp only [trace]
    rw [hstep.2, observe_rel hstep.1, ih (k + 1) _ _ hstep.1]

/-- **C07**: from any state, the observable trace of a call history does not depend on what uninitialised memory
    contains at any of the calls. -/
theorem garbage_independent (cs : Consts K) (sqrtF : K → K) (g g' : Nat → K) (st : ApiState K) (calls : List (Call K)) :
    trace cs sqrtF g 0 st calls = trace cs sqrtF g' 0 st calls :=
  garbage_independent_rel cs sqrtF g g' calls 0 st st (apiRel_refl st)

end Piqp.C07
