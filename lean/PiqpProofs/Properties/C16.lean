/-
C16 (static half) -- The C API is a faithful projection of the C++ solver.

`piqp_set_default_settings` reproduces the C++ defaults, `piqp_update_settings` transfers every field
(dense and sparse branch), `piqp_update_result` copies every Info/Result member to the like-named C
member, and the C status enum equals the C++ one: finite statements about the tables that
`translate/tables.py` regenerates from `interfaces/c/src/piqp.cpp`, `interfaces/c/include/piqp_typedef.h`,
`include/piqp/settings.hpp` and `include/piqp/results.hpp` on every check.  Closed by `decide`.

(The dynamic half -- bitwise C-vs-C++ differential runs -- lives in `vlib/props/c16.py`.)
-/
import PiqpProofs.TableLogic

namespace Piqp.C16
open Piqp.Gen Piqp.Tab

/-- interfaces/c/src/piqp.cpp piqp_update_result: result->X = solver_result.X.data() -/
theorem c_result_wired :
    Wired cUpdateResultPairs = true := by decide

/-- every Vec member of Result<T> is copied exactly once -/
theorem c_result_complete :
    Covers (keys cUpdateResultPairs) resultVecFields = true := by decide

/-- interfaces/c/src/piqp.cpp piqp_update_result: result->info.X = solver_result.info.X -/
theorem c_result_info_wired :
    Wired cUpdateResultInfoPairs = true := by decide

/-- every member of Info<T> is copied exactly once -/
theorem c_result_info_complete :
    Covers (keys cUpdateResultInfoPairs) coreInfoFields = true := by decide

/-- interfaces/c/src/piqp.cpp piqp_set_default_settings: settings->X = default_settings.X -/
theorem c_defaults_wired :
    Wired cDefaultsPairs = true := by decide

/-- every Settings member receives its default exactly once -/
theorem c_defaults_complete :
    Covers (keys cDefaultsPairs) coreSettingsFields = true := by decide

/-- defaults come from a default-constructed piqp::Settings<piqp_float> -/
theorem c_defaults_source :
    cDefaultsSourceType = "piqp::Settings<piqp_float>" := by decide

/-- interfaces/c/src/piqp.cpp piqp_update_settings, dense branch -/
theorem c_settings_wired_dense :
    Wired cUpdateSettingsDensePairs = true := by decide

/-- every Settings member is transferred exactly once -/
theorem c_settings_complete_dense :
    Covers (keys cUpdateSettingsDensePairs) coreSettingsFields = true := by decide

/-- interfaces/c/src/piqp.cpp piqp_update_settings, sparse branch -/
theorem c_settings_wired_sparse :
    Wired cUpdateSettingsSparsePairs = true := by decide

/-- every Settings member is transferred exactly once -/
theorem c_settings_complete_sparse :
    Covers (keys cUpdateSettingsSparsePairs) coreSettingsFields = true := by decide

/-- the is_dense branch writes the DenseSolver, the else branch the SparseSolver -/
theorem c_settings_branch_solvers :
    (cUpdateSettingsSolvers == [("dense", "DenseSolver"), ("sparse", "SparseSolver")] && cSolverAliases == [("DenseSolver", "piqp::DenseSolver<piqp_float>"), ("SparseSolver", "piqp::SparseSolver<piqp_float,piqp_int>")]) = true := by decide

/-- piqp_status enumerators and values = piqp::Status -/
theorem c_status_values_equal :
    SameTable cStatus coreStatus = true := by decide

end Piqp.C16
