import PiqpProofs.Basic
import PiqpModel.Solver
import PiqpModel.Checkers

/-!
# C09 — reported diagnostics describe the returned point
-/

namespace Piqp.C09

variable {K : Type}
variable [Add K] [Sub K] [Mul K] [Div K] [Neg K] [Zero K] [One K] [LT K] [DecidableLT K] [LE K] [DecidableLE K] [BEq K]
variable {σ : Type}

omit [Neg K] [LE K] [DecidableLE K] in
/-- `info.status` equals the returned status, for every numeric back end and every run of the main loop -/
theorem status_eq_info_status (st : Settings K) (cs : Consts K) (ops : LoopOps K σ) (c : Ctrl) (s : σ) (info : Info K) :
    (loopG st cs ops c s info).1.2.2.status = (loopG st cs ops c s info).2 := by
  fun_induction loopG st cs ops c s info <;> simp_all

omit [Neg K] [LE K] [DecidableLE K] in
/-- the iteration counter never exceeds `max_iter` -/
theorem iter_le_max_iter (st : Settings K) (cs : Consts K) (ops : LoopOps K σ) (c : Ctrl) (s : σ) (info : Info K)
    (h : (c.iter : Int) ≤ st.maxIter) :
    ((loopG st cs ops c s info).1.1.iter : Int) ≤ st.maxIter := by
  fun_induction loopG st cs ops c s info <;> simp_all <;> omega

end Piqp.C09
