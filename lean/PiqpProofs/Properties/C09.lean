import PiqpProofs.Basic
import PiqpModel.Solver
import PiqpModel.Checkers

/-!
# C09 — reported diagnostics describe the returned point
-/

namespace Piqp.C09

variable {K : Type}
variable [Add K] [Sub K] [Mul K] [Div K] [Neg K] [Zero K] [One K] [LT K] [DecidableLT K] [LE K] [DecidableLE K]
variable [NatCast K] [BEq K]
variable {n p m : Nat}

/-- whenever the loop head returns a status, `info.status` is that status -/
theorem phaseA_status_eq_info (e : Env K n p m) (iter0 : Bool) (w : Work K n p m) (info : Info K) (s : Status)
    (h : (phaseA e iter0 w info).2.2 = some s) : (phaseA e iter0 w info).2.1.status = s := by
  unfold phaseA at h ⊢
  by_cases hc : termTest e.st (headInfo e iter0 w info).2 = true
  · simp only [hc, ↓reduceIte] at h ⊢
    simpa using h
  · simp only [hc, Bool.false_eq_true, ↓reduceIte] at h ⊢
    split
    · rename_i h1
      simp only [h1, ↓reduceIte] at h
      simpa using h
    · rename_i h1
      simp only [h1, Bool.false_eq_true, ↓reduceIte] at h
      split
      · rename_i h2
        simp only [h2, ↓reduceIte] at h
        simpa using h
      · rename_i h2
        simp only [h2, Bool.false_eq_true, ↓reduceIte] at h
        simp at h

end Piqp.C09
