import PiqpProofs.Basic
import PiqpModel.Solver
import PiqpModel.Checkers
import PiqpProofs.Properties.C01
import PiqpProofs.Properties.C02

/-!
# C09 — reported diagnostics describe the returned point
-/

namespace Piqp.C09

variable {K : Type}
variable [Add K] [Sub K] [Mul K] [Div K] [Neg K] [Zero K] [One K] [LT K] [DecidableLT K] [LE K] [DecidableLE K] [BEq K]
variable {σ : Type}

omit [Neg K] [LE K] [DecidableLE K] in
/-- `info.status` equals the returned status, for every numeric back end and every run of the main loop -/
theorem status_eq_info_status (st : Settings K) (cs : Consts K) (ops : LoopOps K σ) (c : Ctrl) (s : σ) (info : Info K) :
    (loopG st cs ops c s info).1.2.2.status = (loopG st cs ops c s info).2 := by
  fun_induction loopG st cs ops c s info <;> simp_all

omit [Neg K] [LE K] [DecidableLE K] in
/-- the iteration counter never exceeds `max_iter` -/
theorem iter_le_max_iter (st : Settings K) (cs : Consts K) (ops : LoopOps K σ) (c : Ctrl) (s : σ) (info : Info K)
    (h : (c.iter : Int) ≤ st.maxIter) :
    ((loopG st cs ops c s info).1.1.iter : Int) ≤ st.maxIter := by
  fun_induction loopG st cs ops c s info <;> simp_all <;> omega

end Piqp.C09

/-!
## The reported objectives are those of the returned point

`C01.objectives_are_users` says what `update_nr_residuals` computes; `C01.loop_solved_fresh` says that at a SOLVED return the
stored diagnostics belong to the returned iterate. Together: for every back end and every failure pattern, at SOLVED the
reported `primal_obj` and `dual_obj` are exactly the primal and dual objectives of the *unscaled* returned point for the
*user's* data (cost scaling included), and `primal_inf`, `dual_inf` are the norms the solver formed from the residuals of that
same point (whose entries are the user's residuals by `C01.dual_residual_is_users` / `primal_residuals_are_users`).
-/

namespace Piqp.C09
section objectives
open Finset Piqp.C13 Piqp.C15 Piqp.C01
variable {K : Type} [Field K] [LinearOrder K] [IsStrictOrderedRing K]
variable {n p m : Nat}

theorem solved_objectives (e : Env K n p m) (d0 : Data K n p m) (hk : e.pk ≠ .identity)
    (hs : Scaled d0 e.data e.pre) (hi : InvFull e.pre) (ls : LoopState K n p m) (h0 : ls.c.iter = 0)
    (hsolved : (mainLoop e ls).2 = Status.solved) :
    let w := (mainLoop e ls).1.w
    let info := (mainLoop e ls).1.info
    let x := e.pre.unscalePrimal e.pk w.x
    let y := e.pre.unscaleDualEq e.pk w.y
    let z := e.pre.unscaleDualIneq e.pk w.z
    let zl := e.pre.unscaleDualLb e.pk w.z_lb
    let zu := e.pre.unscaleDualUb e.pk w.z_ub
    info.status = Status.solved ∧
    info.primalObj = e.cs.c0_5 * userQuad d0 x + ∑ i : Fin n, d0.c[i] * x[i] ∧
    info.dualObj = -e.cs.c0_5 * userQuad d0 x - (∑ t : Fin p, d0.b[t] * y[t]) - (∑ t : Fin m, d0.h[t] * z[t])
        - (∑ a : Fin n, if a.val < d0.lb.cnt then d0.lb.val[a] * zl[a] else 0)
        - (∑ a : Fin n, if a.val < d0.ub.cnt then d0.ub.val[a] * zu[a] else 0) ∧
    info.primalInf = primalInfNr e w ∧ info.dualInf = dualInfNr e w := by
  intro w info x y z zl zu
  have hloop : (loopG e.st e.cs (realOps e) ls.c (ls.w, ls.kkt) ls.info).2 = Status.solved := hsolved
  obtain ⟨hfresh, hpinf, hdinf⟩ := loop_solved_fresh e ls.c (ls.w, ls.kkt) ls.info (Or.inl h0) hloop
  have hst := status_eq_info_status e.st e.cs (realOps e) ls.c (ls.w, ls.kkt) ls.info
  change Fresh e w info at hfresh
  have ho := objectives_are_users e d0 hk hs hi w info
  refine ⟨?_, ?_, ?_, hpinf, hdinf⟩
  · show (loopG e.st e.cs (realOps e) ls.c (ls.w, ls.kkt) ls.info).1.2.2.status = Status.solved
    rw [hst]; exact hloop
  · rw [← hfresh.diag.2.2.1]; exact ho.1
  · rw [← hfresh.diag.2.2.2.1]; exact ho.2
end objectives
end Piqp.C09

namespace Piqp.C09
section identity
open Finset Piqp.C13 Piqp.C15 Piqp.C01
variable {K : Type} [Field K] [LinearOrder K] [IsStrictOrderedRing K]
variable {n p m : Nat}

/-- the same for the identity preconditioner: at SOLVED the reported objectives are those of the stored (= the user's)
    problem at the returned point -/
theorem solved_objectives_identity (e : Env K n p m) (hk : e.pk = .identity) (ls : LoopState K n p m) (h0 : ls.c.iter = 0)
    (hsolved : (mainLoop e ls).2 = Status.solved) :
    let w := (mainLoop e ls).1.w
    let info := (mainLoop e ls).1.info
    info.status = Status.solved ∧
    info.primalObj = e.cs.c0_5 * userQuad e.data w.x + ∑ i : Fin n, e.data.c[i] * w.x[i] ∧
    info.dualObj = -e.cs.c0_5 * userQuad e.data w.x - (∑ t : Fin p, e.data.b[t] * w.y[t]) - (∑ t : Fin m, e.data.h[t] * w.z[t])
        - (∑ a : Fin n, if a.val < e.data.lb.cnt then e.data.lb.val[a] * w.z_lb[a] else 0)
        - (∑ a : Fin n, if a.val < e.data.ub.cnt then e.data.ub.val[a] * w.z_ub[a] else 0) := by
  have h := solved_objectives (asRuiz e) e.data (by simp [asRuiz]) (scaled_unit e.data) (invFull_unit e.data) ls h0
    (by rw [mainLoop_asRuiz e hk]; exact hsolved)
  rw [mainLoop_asRuiz e hk] at h
  simp only [asRuiz, u_primal e.data e.pre, u_dualEq e.data e.pre, u_dualIneq e.data e.pre, u_dualLb e.data e.pre,
    u_dualUb e.data e.pre, id_primal, id_dualEq, id_dualIneq, id_dualLb, id_dualUb] at h
  exact ⟨h.1, h.2.1, h.2.2.1⟩
end identity
end Piqp.C09

/-! ## Every exit, not only SOLVED (when no factorisation fails) -/

namespace Piqp.C09
section everyExit
open Finset Piqp.C13 Piqp.C15 Piqp.C01 Piqp.C02
variable {K : Type} [Field K] [LinearOrder K] [IsStrictOrderedRing K] [Inhabited K]
variable {n p m : Nat}

/-- the head of an iteration leaves the diagnostics those of its iterate, whether it recomputes them (first iteration) or they
    were fresh already -/
theorem head_fresh (e : Env K n p m) (b : Bool) (w : Work K n p m) (info : Info K) (hJ : b = true ∨ Fresh e w info) :
    Fresh e (headInfo e b w info).1 (headInfo e b w info).2 := by
  cases b
  · rcases hJ with h | h
    · exact absurd h (by simp)
    · exact h.congr ⟨rfl, rfl, rfl, rfl, rfl, rfl, rfl, rfl, rfl, rfl⟩ ⟨rfl, rfl, rfl, rfl, rfl⟩ ⟨rfl, rfl, rfl, rfl, rfl, rfl⟩
  · exact (fresh_upd e w info).congr ⟨rfl, rfl, rfl, rfl, rfl, rfl, rfl, rfl, rfl, rfl⟩ ⟨rfl, rfl, rfl, rfl, rfl⟩ ⟨rfl, rfl, rfl, rfl, rfl, rfl⟩

/-- when no factorisation fails (an `OpsInv` invariant holds, as on every convex problem), the diagnostics returned at *every*
    exit — SOLVED, either infeasibility verdict, MAX_ITER — are the ones `update_nr_residuals` computes for the returned iterate -/
theorem loop_exit_fresh (e : Env K n p m) (Inv : NumState K n p m → Info K → Prop) (ho : OpsInv e.st e.cs (realOps e) Inv)
    (hmax : (0 : Int) < e.st.maxIter) (c : Ctrl) (s : NumState K n p m) (info : Info K) (h : Inv s info)
    (hJ : c.iter = 0 ∨ Fresh e s.1 info) :
    Fresh e (loopG e.st e.cs (realOps e) c s info).1.2.1.1 (loopG e.st e.cs (realOps e) c s info).1.2.2 := by
  fun_induction loopG e.st e.cs (realOps e) c s info
  case case1 c s info hlt hi htest =>
    have hb : (c.iter == 0) = true ∨ Fresh e s.1 info := by
      rcases hJ with h | h
      · left; simp [h]
      · right; exact h
    exact (head_fresh e (c.iter == 0) s.1 info hb).congr ⟨rfl, rfl, rfl, rfl, rfl, rfl, rfl, rfl, rfl, rfl⟩ ⟨rfl, rfl, rfl, rfl, rfl⟩ ⟨rfl, rfl, rfl, rfl, rfl, rfl⟩
  case case2 c s info hlt hi htest s1 hp =>
    have hb : (c.iter == 0) = true ∨ Fresh e s.1 info := by
      rcases hJ with h | h
      · left; simp [h]
      · right; exact h
    exact (head_fresh e (c.iter == 0) s.1 info hb).congr ⟨rfl, rfl, rfl, rfl, rfl, rfl, rfl, rfl, rfl, rfl⟩ ⟨rfl, rfl, rfl, rfl, rfl⟩ ⟨rfl, rfl, rfl, rfl, rfl, rfl⟩
  case case3 c s info hlt hi htest s1 hp hd =>
    have hb : (c.iter == 0) = true ∨ Fresh e s.1 info := by
      rcases hJ with h | h
      · left; simp [h]
      · right; exact h
    exact (head_fresh e (c.iter == 0) s.1 info hb).congr ⟨rfl, rfl, rfl, rfl, rfl, rfl, rfl, rfl, rfl, rfl⟩ ⟨rfl, rfl, rfl, rfl, rfl⟩ ⟨rfl, rfl, rfl, rfl, rfl, rfl⟩
  case case4 c s info hlt hi htest s1 hp hd iter1 sh info2 s2 fa hfa sn info3 ru s4 ih =>
    have h1 := ho.head (c.iter == 0) s info h
    have h2 := ho.reg _ _ h1
    have h3 := ho.shift _ _ h2
    have h4 := ho.finetune _ _ h3
    have h5 := (ho.rescale c.refineOn _ _ h4).2
    refine ih (ho.step c.refineOn _ _ iter1 h5) (Or.inr ?_)
    have hf := stepNum_fresh e c.refineOn fa.1.2 fa.1.1 { info2 with iter := iter1, factorRetires := 0 }
    have ha := applyFlags_same e sn.1.1 ru.2.1 ru.2.2
    have hd : DiagEq info3 ru.1 := by
      simp only [ru]
      split
      · exact regUpdateIneq_diag _ _ _ _ _ _ _ _ _
      · exact regUpdateEq_diag _ _ _ _
    exact hf.congr ha.1 ha.2 hd
  case case5 c s info hlt hi hterm s1 hp hd iter1 sh info2 s2 fa hfa hr ih =>
    have h1 := ho.head (c.iter == 0) s info h
    have h2 := ho.reg _ _ h1
    have h3 := ho.shift _ _ h2
    have h4 := ho.finetune _ _ h3
    exact absurd (ho.rescale c.refineOn _ _ h4).1 hfa
  case case6 c s info hlt hi hterm s1 hp hd sh info2 s2 fa hfa hr hf ih =>
    have h1 := ho.head (c.iter == 0) s info h
    have h2 := ho.reg _ _ h1
    have h3 := ho.shift _ _ h2
    have h4 := ho.finetune _ _ h3
    exact absurd (ho.rescale c.refineOn _ _ h4).1 hfa
  case case7 c s info hlt hi hterm s1 hp hd iter1 sh info2 s2 fa hfa hr hf =>
    have h1 := ho.head (c.iter == 0) s info h
    have h2 := ho.reg _ _ h1
    have h3 := ho.shift _ _ h2
    have h4 := ho.finetune _ _ h3
    exact absurd (ho.rescale c.refineOn _ _ h4).1 hfa
  case case8 c s info hlt =>
    rcases hJ with h0 | hF
    · exact absurd (by rw [h0]; exact hmax) hlt
    · exact hF.congr ⟨rfl, rfl, rfl, rfl, rfl, rfl, rfl, rfl, rfl, rfl⟩ ⟨rfl, rfl, rfl, rfl, rfl⟩ ⟨rfl, rfl, rfl, rfl, rfl, rfl⟩

theorem upd_gap (e : Env K n p m) (hk : e.pk ≠ .identity) (hc : 0 < e.pre.cInv) (w : Work K n p m) (info : Info K) :
    (updateNrResiduals e w info).2.dualityGap =
      vabs ((updateNrResiduals e w info).2.primalObj - (updateNrResiduals e w info).2.dualObj) := by
  unfold updateNrResiduals
  simp only [Precond.unscaleCost, hk, if_false]
  rw [← mul_sub]
  generalize (_ - _ : K) = t
  unfold vabs
  by_cases ht : t < 0
  · have : e.pre.cInv * t < 0 := mul_neg_of_pos_of_neg hc ht
    simp only [ht, this, if_true]; ring
  · have : ¬ e.pre.cInv * t < 0 := not_lt.mpr (mul_nonneg (le_of_lt hc) (not_lt.mp ht))
    simp only [ht, this, if_false]

/-- **C09 at every exit of a convex problem.** When no factorisation fails — `hfac`, which C02/C14 prove for every back end on convex
    data — the objectives reported at SOLVED, at either infeasibility verdict and at MAX_ITER (after at least one iteration:
    `0 < max_iter`) are exactly the primal and dual objectives of the unscaled returned point for the *user's* data, the reported
    gap is their distance, and `info.status` is the returned status. -/
theorem convex_objectives_every_exit (e : Env K n p m) (d0 : Data K n p m) (hk : e.pk ≠ .identity)
    (hs : Scaled d0 e.data e.pre) (hi : InvFull e.pre) (hc : 0 < e.pre.cInv)
    (hfac : ∀ (b : Bool) (s : NumState K n p m) (i : Info K), ConvInv e s i → ((realOps e).factor b ((realOps e).rescale s i)).2 = true)
    (hτ0 : 0 < e.st.tau) (hτ1 : e.st.tau < 1) (heps : 0 ≤ e.cs.machEps) (hft : 0 < e.st.regFinetuneLowerLimit)
    (hmax : (0 : Int) < e.st.maxIter)
    (ls : LoopState K n p m) (h0 : ls.c.iter = 0) (hinv : ConvInv e (ls.w, ls.kkt) ls.info) :
    let w := (mainLoop e ls).1.w
    let info := (mainLoop e ls).1.info
    let x := e.pre.unscalePrimal e.pk w.x
    let y := e.pre.unscaleDualEq e.pk w.y
    let z := e.pre.unscaleDualIneq e.pk w.z
    let zl := e.pre.unscaleDualLb e.pk w.z_lb
    let zu := e.pre.unscaleDualUb e.pk w.z_ub
    info.status = (mainLoop e ls).2 ∧
    info.primalObj = e.cs.c0_5 * userQuad d0 x + ∑ i : Fin n, d0.c[i] * x[i] ∧
    info.dualObj = -e.cs.c0_5 * userQuad d0 x - (∑ t : Fin p, d0.b[t] * y[t]) - (∑ t : Fin m, d0.h[t] * z[t])
        - (∑ a : Fin n, if a.val < d0.lb.cnt then d0.lb.val[a] * zl[a] else 0)
        - (∑ a : Fin n, if a.val < d0.ub.cnt then d0.ub.val[a] * zu[a] else 0) ∧
    info.dualityGap = vabs (info.primalObj - info.dualObj) := by
  intro w info x y z zl zu
  have hfresh := loop_exit_fresh e (ConvInv e) (realOps_convInv e hfac hτ0 hτ1 heps hft) hmax ls.c (ls.w, ls.kkt) ls.info hinv (Or.inl h0)
  have hst := status_eq_info_status e.st e.cs (realOps e) ls.c (ls.w, ls.kkt) ls.info
  change Fresh e w info at hfresh
  have ho := objectives_are_users e d0 hk hs hi w info
  have hg := upd_gap e hk hc w info
  refine ⟨hst, ?_, ?_, ?_⟩
  · rw [← hfresh.diag.2.2.1]; exact ho.1
  · rw [← hfresh.diag.2.2.2.1]; exact ho.2
  · rw [← hfresh.diag.2.2.2.2.1, ← hfresh.diag.2.2.1, ← hfresh.diag.2.2.2.1]; exact hg
end everyExit
end Piqp.C09

namespace Piqp.C09
section verdictNorms
open Finset Piqp.C13 Piqp.C15 Piqp.C01 Piqp.C02
variable {K : Type} [Field K] [LinearOrder K] [IsStrictOrderedRing K] [Inhabited K]
variable {n p m : Nat}

theorem head_norms (e : Env K n p m) (b : Bool) (w : Work K n p m) (info : Info K) :
    (headInfo e b w info).2.primalInf = primalInfNr e (headInfo e b w info).1 ∧
    (headInfo e b w info).2.dualInf = dualInfNr e (headInfo e b w info).1 := by
  cases b <;> exact ⟨rfl, rfl⟩

/-- **C09, residual norms at a verdict** (no assumption on the data or on factorisation failures): whenever the loop returns
    SOLVED or an infeasibility verdict, `info.primal_inf` and `info.dual_inf` are the norms of the non-regularised residuals
    stored with the returned iterate (whose entries are the user's residuals, `C01.primal_residuals_are_users` /
    `dual_residual_is_users`) -/
theorem verdict_residual_norms (e : Env K n p m) (c : Ctrl) (s : NumState K n p m) (info : Info K)
    (h : (loopG e.st e.cs (realOps e) c s info).2 = Status.solved ∨ (loopG e.st e.cs (realOps e) c s info).2 = Status.primalInfeasible ∨
      (loopG e.st e.cs (realOps e) c s info).2 = Status.dualInfeasible) :
    (loopG e.st e.cs (realOps e) c s info).1.2.2.primalInf = primalInfNr e (loopG e.st e.cs (realOps e) c s info).1.2.1.1 ∧
    (loopG e.st e.cs (realOps e) c s info).1.2.2.dualInf = dualInfNr e (loopG e.st e.cs (realOps e) c s info).1.2.1.1 := by
  fun_induction loopG e.st e.cs (realOps e) c s info
  case case1 c s info hlt hi htest => exact head_norms e (c.iter == 0) s.1 info
  case case2 c s info hlt hi htest s1 hp =>
    have hn := head_norms e (c.iter == 0) s.1 info
    have hs : SameNr (headInfo e (c.iter == 0) s.1 info).1 (regResiduals e (headInfo e (c.iter == 0) s.1 info).1 (headInfo e (c.iter == 0) s.1 info).2) :=
      ⟨rfl, rfl, rfl, rfl, rfl⟩
    exact ⟨hn.1.trans (primalInfNr_congr e hs), hn.2.trans (dualInfNr_congr e hs)⟩
  case case3 c s info hlt hi htest s1 hp hd =>
    have hn := head_norms e (c.iter == 0) s.1 info
    have hs : SameNr (headInfo e (c.iter == 0) s.1 info).1 (regResiduals e (headInfo e (c.iter == 0) s.1 info).1 (headInfo e (c.iter == 0) s.1 info).2) :=
      ⟨rfl, rfl, rfl, rfl, rfl⟩
    exact ⟨hn.1.trans (primalInfNr_congr e hs), hn.2.trans (dualInfNr_congr e hs)⟩
  case case4 ih => exact ih h
  case case5 ih => exact ih h
  case case6 ih => exact ih h
  case case7 => rcases h with h | h | h <;> exact absurd h (by simp)
  case case8 => rcases h with h | h | h <;> exact absurd h (by simp)
end verdictNorms
end Piqp.C09
