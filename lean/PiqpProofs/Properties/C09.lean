import PiqpProofs.Basic
import PiqpModel.Solver
import PiqpModel.Checkers
import PiqpProofs.Properties.C01

/-!
# C09 — reported diagnostics describe the returned point
-/

namespace Piqp.C09

variable {K : Type}
variable [Add K] [Sub K] [Mul K] [Div K] [Neg K] [Zero K] [One K] [LT K] [DecidableLT K] [LE K] [DecidableLE K] [BEq K]
variable {σ : Type}

omit [Neg K] [LE K] [DecidableLE K] in
/-- `info.status` equals the returned status, for every numeric back end and every run of the main loop -/
theorem status_eq_info_status (st : Settings K) (cs : Consts K) (ops : LoopOps K σ) (c : Ctrl) (s : σ) (info : Info K) :
    (loopG st cs ops c s info).1.2.2.status = (loopG st cs ops c s info).2 := by
  fun_induction loopG st cs ops c s info <;> simp_all

omit [Neg K] [LE K] [DecidableLE K] in
/-- the iteration counter never exceeds `max_iter` -/
theorem iter_le_max_iter (st : Settings K) (cs : Consts K) (ops : LoopOps K σ) (c : Ctrl) (s : σ) (info : Info K)
    (h : (c.iter : Int) ≤ st.maxIter) :
    ((loopG st cs ops c s info).1.1.iter : Int) ≤ st.maxIter := by
  fun_induction loopG st cs ops c s info <;> simp_all <;> omega

end Piqp.C09

/-!
## The reported objectives are those of the returned point

`C01.objectives_are_users` says what `update_nr_residuals` computes; `C01.loop_solved_fresh` says that at a SOLVED return the
stored diagnostics belong to the returned iterate. Together: for every back end and every failure pattern, at SOLVED the
reported `primal_obj` and `dual_obj` are exactly the primal and dual objectives of the *unscaled* returned point for the
*user's* data (cost scaling included), and `primal_inf`, `dual_inf` are the norms the solver formed from the residuals of that
same point (whose entries are the user's residuals by `C01.dual_residual_is_users` / `primal_residuals_are_users`).
-/

namespace Piqp.C09
section objectives
open Finset Piqp.C13 Piqp.C15 Piqp.C01
variable {K : Type} [Field K] [LinearOrder K] [IsStrictOrderedRing K]
variable {n p m : Nat}

theorem solved_objectives (e : Env K n p m) (d0 : Data K n p m) (hk : e.pk ≠ .identity)
    (hs : Scaled d0 e.data e.pre) (hi : InvFull e.pre) (ls : LoopState K n p m) (h0 : ls.c.iter = 0)
    (hsolved : (mainLoop e ls).2 = Status.solved) :
    let w := (mainLoop e ls).1.w
    let info := (mainLoop e ls).1.info
    let x := e.pre.unscalePrimal e.pk w.x
    let y := e.pre.unscaleDualEq e.pk w.y
    let z := e.pre.unscaleDualIneq e.pk w.z
    let zl := e.pre.unscaleDualLb e.pk w.z_lb
    let zu := e.pre.unscaleDualUb e.pk w.z_ub
    info.status = Status.solved ∧
    info.primalObj = e.cs.c0_5 * userQuad d0 x + ∑ i : Fin n, d0.c[i] * x[i] ∧
    info.dualObj = -e.cs.c0_5 * userQuad d0 x - (∑ t : Fin p, d0.b[t] * y[t]) - (∑ t : Fin m, d0.h[t] * z[t])
        - (∑ a : Fin n, if a.val < d0.lb.cnt then d0.lb.val[a] * zl[a] else 0)
        - (∑ a : Fin n, if a.val < d0.ub.cnt then d0.ub.val[a] * zu[a] else 0) ∧
    info.primalInf = primalInfNr e w ∧ info.dualInf = dualInfNr e w := by
  intro w info x y z zl zu
  have hloop : (loopG e.st e.cs (realOps e) ls.c (ls.w, ls.kkt) ls.info).2 = Status.solved := hsolved
  obtain ⟨hfresh, hpinf, hdinf⟩ := loop_solved_fresh e ls.c (ls.w, ls.kkt) ls.info (Or.inl h0) hloop
  have hst := status_eq_info_status e.st e.cs (realOps e) ls.c (ls.w, ls.kkt) ls.info
  change Fresh e w info at hfresh
  have ho := objectives_are_users e d0 hk hs hi w info
  refine ⟨?_, ?_, ?_, hpinf, hdinf⟩
  · show (loopG e.st e.cs (realOps e) ls.c (ls.w, ls.kkt) ls.info).1.2.2.status = Status.solved
    rw [hst]; exact hloop
  · rw [← hfresh.diag.2.2.1]; exact ho.1
  · rw [← hfresh.diag.2.2.2.1]; exact ho.2
end objectives
end Piqp.C09

namespace Piqp.C09
section identity
open Finset Piqp.C13 Piqp.C15 Piqp.C01
variable {K : Type} [Field K] [LinearOrder K] [IsStrictOrderedRing K]
variable {n p m : Nat}

/-- the same for the identity preconditioner: at SOLVED the reported objectives are those of the stored (= the user's)
    problem at the returned point -/
theorem solved_objectives_identity (e : Env K n p m) (hk : e.pk = .identity) (ls : LoopState K n p m) (h0 : ls.c.iter = 0)
    (hsolved : (mainLoop e ls).2 = Status.solved) :
    let w := (mainLoop e ls).1.w
    let info := (mainLoop e ls).1.info
    info.status = Status.solved ∧
    info.primalObj = e.cs.c0_5 * userQuad e.data w.x + ∑ i : Fin n, e.data.c[i] * w.x[i] ∧
    info.dualObj = -e.cs.c0_5 * userQuad e.data w.x - (∑ t : Fin p, e.data.b[t] * w.y[t]) - (∑ t : Fin m, e.data.h[t] * w.z[t])
        - (∑ a : Fin n, if a.val < e.data.lb.cnt then e.data.lb.val[a] * w.z_lb[a] else 0)
        - (∑ a : Fin n, if a.val < e.data.ub.cnt then e.data.ub.val[a] * w.z_ub[a] else 0) := by
  have h := solved_objectives (asRuiz e) e.data (by simp [asRuiz]) (scaled_unit e.data) (invFull_unit e.data) ls h0
    (by rw [mainLoop_asRuiz e hk]; exact hsolved)
  rw [mainLoop_asRuiz e hk] at h
  simp only [asRuiz, u_primal e.data e.pre, u_dualEq e.data e.pre, u_dualIneq e.data e.pre, u_dualLb e.data e.pre,
    u_dualUb e.data e.pre, id_primal, id_dualEq, id_dualIneq, id_dualLb, id_dualUb] at h
  exact ⟨h.1, h.2.1, h.2.2.1⟩
end identity
end Piqp.C09
