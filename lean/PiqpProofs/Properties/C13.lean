import PiqpProofs.Basic
import PiqpModel.KKT
import Mathlib.Tactic.Ring
import Mathlib.Tactic.FieldSimp
import Mathlib.Tactic.Linarith
import Mathlib.Tactic.LinearCombination
import Mathlib.Algebra.BigOperators.Fin
import Mathlib.Algebra.BigOperators.Ring.Finset
import Mathlib.Algebra.Order.Field.Basic
import Mathlib.Tactic.NormNum
import Mathlib.Data.Rat.Defs

/-!
# C13 — every KKT back end solves the same full regularised Newton system

`KKT.solve` (PiqpModel/KKT.lean) reduces the right-hand side, applies the stored inner factorisation and recovers the
eliminated variables; `KKT.multiply` is the full un-eliminated operator of the regularised Newton system.  The main
theorem `solve_solves_full_system` says, for **every** back end (dense, sparse full / eq-eliminated / ineq-eliminated /
all-eliminated), every dimension, every data, every box pattern and every interior scaling: if the reduced matrix is
coherent with the data (`Coherent`, established for `init`, `update_scalings` and `update_data` below) and the inner
factorisation solves the reduced system it was given (`InnerExact`; C14 proves this for the LDLᵀ recursion), then
`multiply (solve rhs) = rhs` on every row, and the inactive box tails are left as they were.
-/

set_option linter.unusedSectionVars false
set_option linter.unusedSimpArgs false
set_option linter.unusedVariables false

namespace Piqp.C13
open Finset
variable {K : Type} [Field K] [LinearOrder K]
variable {n p m : Nat}

@[simp] theorem ofFn_get {α : Type} {n : Nat} (f : Fin n → α) (i : Fin n) : (Vector.ofFn f)[i] = f i := by simp

@[simp] theorem mulVec_get {r c : Nat} (A : Mat K r c) (x : Vec K c) (i : Fin r) :
    (Mat.mulVec A x)[i] = ∑ j : Fin c, A[i][j] * x[j] := by
  simp [Mat.mulVec, sumFin_eq_sum]

@[simp] theorem mulVecT_get {r c : Nat} (A : Mat K r c) (y : Vec K r) (j : Fin c) :
    (Mat.mulVecT A y)[j] = ∑ i : Fin r, A[i][j] * y[i] := by
  simp [Mat.mulVecT, sumFin_eq_sum]

@[simp] theorem scatter_get (b : BoxSide K n) (f : Fin n → K) (j : Fin n) :
    (b.scatter f)[j] = ∑ i : Fin n, if b.act i ∧ b.idx[i] = j then f i else 0 := by
  simp [BoxSide.scatter, sumFin_eq_sum]

@[simp] theorem headUpd_get (b : BoxSide K n) (old : Vec K n) (f : Fin n → K) (i : Fin n) :
    (b.headUpd old f)[i] = if b.act i then f i else old[i] := by
  simp [BoxSide.headUpd]

theorem scatter_idx (b : BoxSide K n) (f : Fin n → K → K) (x : Vec K n) (j : Fin n) :
    (∑ i : Fin n, if b.act i ∧ b.idx[i] = j then f i (x[b.idx[i]]) else 0) =
    ∑ i : Fin n, if b.act i ∧ b.idx[i] = j then f i (x[j]) else 0 := by
  apply Finset.sum_congr rfl
  intro i _
  split
  · rename_i h; simp [h.2]
  · rfl

/-- the inner factorisation solves the reduced system it was given, on the blocks the back end keeps -/
def InnerExact (be : Backend) (kb : KBlocks K n p m) (slv : SolveFn K n p m) : Prop :=
  ∀ (rx : Vec K n) (ry : Vec K p) (rz : Vec K m),
    (∀ j : Fin n, (∑ c : Fin n, kb.xx[j][c] * (slv rx ry rz).1[c])
        + (if be.keepY then ∑ t : Fin p, kb.xy[j][t] * (slv rx ry rz).2.1[t] else 0)
        + (if be.keepZ then ∑ t : Fin m, kb.xz[j][t] * (slv rx ry rz).2.2[t] else 0) = rx[j]) ∧
    (be.keepY = true → ∀ t : Fin p, (∑ j : Fin n, kb.xy[j][t] * (slv rx ry rz).1[j]) + kb.yy[t] * (slv rx ry rz).2.1[t] = ry[t]) ∧
    (be.keepZ = true → ∀ t : Fin m, (∑ j : Fin n, kb.xz[j][t] * (slv rx ry rz).1[j]) + kb.zz[t] * (slv rx ry rz).2.2[t] = rz[t])

/-- what `update_kkt_box_scalings` adds to the diagonal entry of variable `j` -/
def boxTerm (d : Data K n p m) (k : KKT K n p m) (j : Fin n) : K :=
  (∑ a : Fin n, if d.lb.act a ∧ d.lb.idx[a] = j then d.lb.sc[a] * d.lb.sc[a] / (k.zinv_lb[a] * k.s_lb[a] + k.delta) else 0) +
  (∑ a : Fin n, if d.ub.act a ∧ d.ub.idx[a] = j then d.ub.sc[a] * d.ub.sc[a] / (k.zinv_ub[a] * k.s_ub[a] + k.delta) else 0)

/-- the assembled reduced matrix is the Schur complement of the full regularised Newton matrix for the current data and
    scalings, and it is what was factorised (no static regularisation) -/
structure Coherent (be : Backend) (d : Data K n p m) (k : KKT K n p m) : Prop where
  xx : ∀ i j : Fin n, k.k.xx[i][j] =
      d.Psym[i][j] + (if i = j then k.rho else 0)
      + (if be.keepY then 0 else (1 / k.delta) * ∑ t : Fin p, d.AT[i][t] * d.AT[j][t])
      + (if be.keepZ then 0 else ∑ t : Fin m, d.GT[i][t] * d.GT[j][t] / (k.s[t] * k.zinv[t] + k.delta))
      + (if i = j then boxTerm d k i else 0)
  xy : be.keepY = true → k.k.xy = d.AT
  yy : be.keepY = true → ∀ t : Fin p, k.k.yy[t] = -k.delta
  xz : be.keepZ = true → k.k.xz = d.GT
  zz : be.keepZ = true → ∀ t : Fin m, k.k.zz[t] = -(k.s[t] * k.zinv[t]) - k.delta

/-- the scalings are in the interior: nothing the formulas divide by vanishes -/
structure Interior (d : Data K n p m) (k : KKT K n p m) : Prop where
  delta : k.delta ≠ 0
  zinv : ∀ t : Fin m, k.zinv[t] ≠ 0
  s : ∀ t : Fin m, k.s[t] ≠ 0
  w : ∀ t : Fin m, k.s[t] * k.zinv[t] + k.delta ≠ 0
  zinv_lb : ∀ a : Fin n, d.lb.act a → k.zinv_lb[a] ≠ 0
  s_lb : ∀ a : Fin n, d.lb.act a → k.s_lb[a] ≠ 0
  w_lb : ∀ a : Fin n, d.lb.act a → k.s_lb[a] * k.zinv_lb[a] + k.delta ≠ 0
  zinv_ub : ∀ a : Fin n, d.ub.act a → k.zinv_ub[a] ≠ 0
  s_ub : ∀ a : Fin n, d.ub.act a → k.s_ub[a] ≠ 0
  w_ub : ∀ a : Fin n, d.ub.act a → k.s_ub[a] * k.zinv_ub[a] + k.delta ≠ 0


/-- `KKT.solve` without refinement is: build the reduced right-hand side, apply the stored factorisation, recover -/
theorem solve_eq_recover (be : Backend) (st : KKTSettings K) (d : Data K n p m) (k : KKT K n p m)
    (r old out : Step K n p m) (slv : SolveFn K n p m) (hf : k.fsol = some slv)
    (h : KKT.solve be st d k r old false = some out) :
    out = recover be d k r old (slv (rxOf be d k r) r.y (zbarOf be k r)) := by
  unfold KKT.solve at h
  simp only [hf, Bool.false_and, Bool.false_eq_true, ↓reduceIte, Option.some.injEq] at h
  exact h.symm

theorem recover_rows_yzs (be : Backend) (d : Data K n p m) (k : KKT K n p m)
    (r old : Step K n p m) (slv : SolveFn K n p m)
    (hcoh : Coherent be d k) (hex : InnerExact be k.k slv) (hin : Interior d k) :
    let out := recover be d k r old (slv (rxOf be d k r) r.y (zbarOf be k r))
    let back := KKT.multiply d k out old
    (∀ t : Fin p, back.y[t] = r.y[t]) ∧ (∀ t : Fin m, back.z[t] = r.z[t]) ∧ (∀ t : Fin m, back.s[t] = r.s[t]) := by
  have hw := hin.w; have hzi := hin.zinv; have hs := hin.s; have hd := hin.delta
  obtain ⟨hx1, hy1, hz1⟩ := hex (rxOf be d k r) r.y (zbarOf be k r)
  generalize slv (rxOf be d k r) r.y (zbarOf be k r) = sol at *
  simp only [KKT.multiply, recover]
  refine ⟨?_, ?_, ?_⟩
  · intro t
    simp only [ofFn_get, mulVecT_get]
    rcases Bool.eq_false_or_eq_true be.keepY with hY | hY
    swap
    · simp only [hY, Bool.false_eq_true, ↓reduceIte, ofFn_get, mulVecT_get]
      field_simp
      ring
    · have h1 := hy1 hY t
      rw [hcoh.xy hY, hcoh.yy hY t] at h1
      simp only [hY, ↓reduceIte]
      linear_combination h1
  · intro t
    simp only [ofFn_get, mulVecT_get]
    rcases Bool.eq_false_or_eq_true be.keepZ with hZ | hZ
    swap
    · simp only [zbarOf, hZ, Bool.false_eq_true, ↓reduceIte, ofFn_get, mulVecT_get]
      have := hw t; have := hzi t; have := hs t
      by_cases hD : be.isDense = true <;> simp only [hD, if_true, if_false, Bool.false_eq_true] <;> field_simp <;> ring
    · have h1 := hz1 hZ t
      rw [hcoh.xz hZ, hcoh.zz hZ t] at h1
      simp only [zbarOf, hZ, ↓reduceIte, ofFn_get] at h1 ⊢
      have := hw t; have := hzi t; have := hs t
      by_cases hD : be.isDense = true <;> simp only [hD, if_true, if_false, Bool.false_eq_true] <;> field_simp <;> linear_combination h1
  · intro t
    simp only [ofFn_get]
    have := hzi t; have := hs t
    by_cases hD : be.isDense = true <;> simp only [hD, if_true, if_false, Bool.false_eq_true] <;> field_simp <;> ring

theorem recover_rows_box (be : Backend) (d : Data K n p m) (k : KKT K n p m)
    (r old : Step K n p m) (sol : Vec K n × Vec K p × Vec K m) (hin : Interior d k) :
    let out := recover be d k r old sol
    let back := KKT.multiply d k out old
    (∀ a : Fin n, back.z_lb[a] = if d.lb.act a then r.z_lb[a] else old.z_lb[a]) ∧
    (∀ a : Fin n, back.s_lb[a] = if d.lb.act a then r.s_lb[a] else old.s_lb[a]) ∧
    (∀ a : Fin n, back.z_ub[a] = if d.ub.act a then r.z_ub[a] else old.z_ub[a]) ∧
    (∀ a : Fin n, back.s_ub[a] = if d.ub.act a then r.s_ub[a] else old.s_ub[a]) := by
  simp only [KKT.multiply, recover]
  refine ⟨?_, ?_, ?_, ?_⟩ <;> intro a <;> simp only [headUpd_get]
  · by_cases ha : d.lb.act a <;> simp only [ha, if_true, if_false]
    have := hin.zinv_lb a ha; have := hin.s_lb a ha; have := hin.w_lb a ha; have := hin.delta
    have : k.zinv_lb[a] * k.s_lb[a] + k.delta ≠ 0 := by rw [mul_comm]; exact hin.w_lb a ha
    by_cases hD : be.isDense = true <;> simp only [hD, if_true, if_false, Bool.false_eq_true] <;> field_simp <;> ring
  · by_cases ha : d.lb.act a <;> simp only [ha, if_true, if_false]
    have := hin.zinv_lb a ha; have := hin.s_lb a ha; have := hin.w_lb a ha; have := hin.delta
    have : k.zinv_lb[a] * k.s_lb[a] + k.delta ≠ 0 := by rw [mul_comm]; exact hin.w_lb a ha
    by_cases hD : be.isDense = true <;> simp only [hD, if_true, if_false, Bool.false_eq_true] <;> field_simp <;> ring
  · by_cases ha : d.ub.act a <;> simp only [ha, if_true, if_false]
    have := hin.zinv_ub a ha; have := hin.s_ub a ha; have := hin.w_ub a ha; have := hin.delta
    have : k.zinv_ub[a] * k.s_ub[a] + k.delta ≠ 0 := by rw [mul_comm]; exact hin.w_ub a ha
    by_cases hD : be.isDense = true <;> simp only [hD, if_true, if_false, Bool.false_eq_true] <;> field_simp <;> ring
  · by_cases ha : d.ub.act a <;> simp only [ha, if_true, if_false]
    have := hin.zinv_ub a ha; have := hin.s_ub a ha; have := hin.w_ub a ha; have := hin.delta
    have : k.zinv_ub[a] * k.s_ub[a] + k.delta ≠ 0 := by rw [mul_comm]; exact hin.w_ub a ha
    by_cases hD : be.isDense = true <;> simp only [hD, if_true, if_false, Bool.false_eq_true] <;> field_simp <;> ring

theorem gram_sum {q : Nat} (A : Mat K n q) (c : Fin q → K) (x : Vec K n) (j : Fin n) :
    (∑ c' : Fin n, (∑ t : Fin q, A[j][t] * A[c'][t] * c t) * x[c']) =
    ∑ t : Fin q, A[j][t] * (c t * ∑ c' : Fin n, A[c'][t] * x[c']) := by
  simp only [Finset.sum_mul, Finset.mul_sum]
  rw [Finset.sum_comm]
  exact Finset.sum_congr rfl fun t _ => Finset.sum_congr rfl fun c' _ => by ring

theorem sum_ite_affine (c : Fin n → Prop) [DecidablePred c] (g u v : Fin n → K) (x σ τ : K)
    (h : ∀ a, c a → g a = σ * (u a * x) + τ * v a) :
    (∑ a : Fin n, if c a then g a else 0) =
      σ * ((∑ a : Fin n, if c a then u a else 0) * x) + τ * ∑ a : Fin n, if c a then v a else 0 := by
  rw [Finset.sum_mul, Finset.mul_sum, Finset.mul_sum, ← Finset.sum_add_distrib]
  refine Finset.sum_congr rfl fun a _ => ?_
  by_cases hc : c a
  · simp only [hc, if_true, h a hc]
  · simp only [hc, if_false]; ring

theorem xx_apply (be : Backend) (d : Data K n p m) (k : KKT K n p m) (hcoh : Coherent be d k) (x : Vec K n) (j : Fin n) :
    (∑ c : Fin n, k.k.xx[j][c] * x[c]) =
      (∑ c : Fin n, d.Psym[j][c] * x[c]) + k.rho * x[j]
      + (if be.keepY then 0 else (1 / k.delta) * ∑ t : Fin p, d.AT[j][t] * ∑ c : Fin n, d.AT[c][t] * x[c])
      + (if be.keepZ then 0 else ∑ t : Fin m, d.GT[j][t] * ((1 / (k.s[t] * k.zinv[t] + k.delta)) * ∑ c : Fin n, d.GT[c][t] * x[c]))
      + boxTerm d k j * x[j] := by
  have hA := gram_sum d.AT (fun _ => 1) x j
  have hG := gram_sum d.GT (fun t => 1 / (k.s[t] * k.zinv[t] + k.delta)) x j
  simp only [mul_one_div] at hG
  simp only [mul_one, one_mul] at hA
  simp only [hcoh.xx, add_mul, Finset.sum_add_distrib, ite_mul, zero_mul, Finset.sum_ite_eq, Finset.mem_univ, if_true]
  rcases Bool.eq_false_or_eq_true be.keepY with hY | hY <;> rcases Bool.eq_false_or_eq_true be.keepZ with hZ | hZ <;>
    simp only [hY, hZ, if_true, if_false, Bool.false_eq_true, Finset.sum_const_zero, add_zero,
      mul_assoc (1 / k.delta), ← Finset.mul_sum, hA, hG]

theorem box_lb_sum (be : Backend) (d : Data K n p m) (k : KKT K n p m) (r old : Step K n p m) (x : Vec K n)
    (hin : Interior d k) (j : Fin n) :
    (∑ a : Fin n, if d.lb.act a ∧ d.lb.idx[a] = j then
        d.lb.sc[a] * (if d.lb.act a then
        (if be.isDense then
          (-d.lb.sc[a] * x[d.lb.idx[a]] - r.z_lb[a] + k.zinv_lb[a] * r.s_lb[a]) / (k.s_lb[a] * k.zinv_lb[a] + k.delta)
        else
          ((-d.lb.sc[a] * x[d.lb.idx[a]] - r.z_lb[a]) / k.zinv_lb[a] + r.s_lb[a]) / (k.s_lb[a] + k.delta / k.zinv_lb[a]))
        else old.z_lb[a]) else 0) =
    -1 * ((∑ a : Fin n, if d.lb.act a ∧ d.lb.idx[a] = j then d.lb.sc[a] * d.lb.sc[a] / (k.zinv_lb[a] * k.s_lb[a] + k.delta) else 0) * x[j])
    + -1 * ∑ a : Fin n, if d.lb.act a ∧ d.lb.idx[a] = j then
        d.lb.sc[a] * (r.z_lb[a] - k.zinv_lb[a] * r.s_lb[a]) / (k.s_lb[a] * k.zinv_lb[a] + k.delta) else 0 := by
  refine sum_ite_affine (fun a => d.lb.act a ∧ d.lb.idx[a] = j) _
    (fun a => d.lb.sc[a] * d.lb.sc[a] / (k.zinv_lb[a] * k.s_lb[a] + k.delta))
    (fun a => d.lb.sc[a] * (r.z_lb[a] - k.zinv_lb[a] * r.s_lb[a]) / (k.s_lb[a] * k.zinv_lb[a] + k.delta))
    x[j] (-1) (-1) ?_
  intro a ⟨ha, hj⟩
  have := hin.zinv_lb a ha; have := hin.s_lb a ha; have := hin.w_lb a ha
  have : k.zinv_lb[a] * k.s_lb[a] + k.delta ≠ 0 := by rw [mul_comm]; exact hin.w_lb a ha
  simp only [ha, if_true, hj]
  by_cases hD : be.isDense = true <;> simp only [hD, if_true, if_false, Bool.false_eq_true] <;> field_simp <;> ring

theorem box_ub_sum (be : Backend) (d : Data K n p m) (k : KKT K n p m) (r old : Step K n p m) (x : Vec K n)
    (hin : Interior d k) (j : Fin n) :
    (∑ a : Fin n, if d.ub.act a ∧ d.ub.idx[a] = j then
        d.ub.sc[a] * (if d.ub.act a then
        (if be.isDense then
          (d.ub.sc[a] * x[d.ub.idx[a]] - r.z_ub[a] + k.zinv_ub[a] * r.s_ub[a]) / (k.s_ub[a] * k.zinv_ub[a] + k.delta)
        else
          ((d.ub.sc[a] * x[d.ub.idx[a]] - r.z_ub[a]) / k.zinv_ub[a] + r.s_ub[a]) / (k.s_ub[a] + k.delta / k.zinv_ub[a]))
        else old.z_ub[a]) else 0) =
    1 * ((∑ a : Fin n, if d.ub.act a ∧ d.ub.idx[a] = j then d.ub.sc[a] * d.ub.sc[a] / (k.zinv_ub[a] * k.s_ub[a] + k.delta) else 0) * x[j])
    + -1 * ∑ a : Fin n, if d.ub.act a ∧ d.ub.idx[a] = j then
        d.ub.sc[a] * (r.z_ub[a] - k.zinv_ub[a] * r.s_ub[a]) / (k.s_ub[a] * k.zinv_ub[a] + k.delta) else 0 := by
  refine sum_ite_affine (fun a => d.ub.act a ∧ d.ub.idx[a] = j) _
    (fun a => d.ub.sc[a] * d.ub.sc[a] / (k.zinv_ub[a] * k.s_ub[a] + k.delta))
    (fun a => d.ub.sc[a] * (r.z_ub[a] - k.zinv_ub[a] * r.s_ub[a]) / (k.s_ub[a] * k.zinv_ub[a] + k.delta))
    x[j] 1 (-1) ?_
  intro a ⟨ha, hj⟩
  have := hin.zinv_ub a ha; have := hin.s_ub a ha; have := hin.w_ub a ha
  have : k.zinv_ub[a] * k.s_ub[a] + k.delta ≠ 0 := by rw [mul_comm]; exact hin.w_ub a ha
  simp only [ha, if_true, hj]
  by_cases hD : be.isDense = true <;> simp only [hD, if_true, if_false, Bool.false_eq_true] <;> field_simp <;> ring

theorem recover_row_x (be : Backend) (d : Data K n p m) (k : KKT K n p m)
    (r old : Step K n p m) (slv : SolveFn K n p m)
    (hcoh : Coherent be d k) (hex : InnerExact be k.k slv) (hin : Interior d k) :
    let out := recover be d k r old (slv (rxOf be d k r) r.y (zbarOf be k r))
    let back := KKT.multiply d k out old
    ∀ j : Fin n, back.x[j] = r.x[j] := by
  have hw := hin.w; have hd := hin.delta
  obtain ⟨hx1, hy1, hz1⟩ := hex (rxOf be d k r) r.y (zbarOf be k r)
  generalize slv (rxOf be d k r) r.y (zbarOf be k r) = sol at *
  intro out back j
  have hx := hx1 j
  clear hx1
  simp only [rxOf, ofFn_get, mulVec_get, scatter_get] at hx
  simp only [back, out, KKT.multiply, recover, ofFn_get, mulVec_get, scatter_get, headUpd_get]
  rw [box_lb_sum be d k r old sol.1 hin j, box_ub_sum be d k r old sol.1 hin j]
  have hxx := xx_apply be d k hcoh sol.1 j
  simp only [boxTerm] at hxx
  rcases Bool.eq_false_or_eq_true be.keepY with hY | hY <;> rcases Bool.eq_false_or_eq_true be.keepZ with hZ | hZ <;>
    simp only [hY, hZ, if_true, if_false, Bool.false_eq_true, add_zero, ofFn_get, mulVecT_get] at hx hxx ⊢
  · rw [hcoh.xy hY, hcoh.xz hZ] at hx
    linear_combination hx - hxx
  · rw [hcoh.xy hY] at hx
    have e : (∑ x : Fin m, d.GT[j][x] * ((∑ i : Fin n, d.GT[i][x] * sol.1[i]) / (k.s[x] * k.zinv[x] + k.delta) - (zbarOf be k r)[x]))
        = (∑ t : Fin m, d.GT[j][t] * (1 / (k.s[t] * k.zinv[t] + k.delta) * ∑ c : Fin n, d.GT[c][t] * sol.1[c]))
          - ∑ t : Fin m, d.GT[j][t] * (zbarOf be k r)[t] := by
      rw [← Finset.sum_sub_distrib]
      exact Finset.sum_congr rfl fun x _ => by ring
    rw [e]
    linear_combination hx - hxx
  · rw [hcoh.xz hZ] at hx
    have e : (∑ x : Fin p, d.AT[j][x] * (1 / k.delta * (∑ i : Fin n, d.AT[i][x] * sol.1[i]) - 1 / k.delta * r.y[x]))
        = (1 / k.delta * ∑ t : Fin p, d.AT[j][t] * ∑ c : Fin n, d.AT[c][t] * sol.1[c])
          - 1 / k.delta * ∑ t : Fin p, d.AT[j][t] * r.y[t] := by
      rw [Finset.mul_sum, Finset.mul_sum, ← Finset.sum_sub_distrib]
      exact Finset.sum_congr rfl fun x _ => by ring
    rw [e]
    linear_combination hx - hxx
  · have e : (∑ x : Fin m, d.GT[j][x] * ((∑ i : Fin n, d.GT[i][x] * sol.1[i]) / (k.s[x] * k.zinv[x] + k.delta) - (zbarOf be k r)[x]))
        = (∑ t : Fin m, d.GT[j][t] * (1 / (k.s[t] * k.zinv[t] + k.delta) * ∑ c : Fin n, d.GT[c][t] * sol.1[c]))
          - ∑ t : Fin m, d.GT[j][t] * (zbarOf be k r)[t] := by
      rw [← Finset.sum_sub_distrib]
      exact Finset.sum_congr rfl fun x _ => by ring
    have e2 : (∑ x : Fin p, d.AT[j][x] * (1 / k.delta * (∑ i : Fin n, d.AT[i][x] * sol.1[i]) - 1 / k.delta * r.y[x]))
        = (1 / k.delta * ∑ t : Fin p, d.AT[j][t] * ∑ c : Fin n, d.AT[c][t] * sol.1[c])
          - 1 / k.delta * ∑ t : Fin p, d.AT[j][t] * r.y[t] := by
      rw [Finset.mul_sum, Finset.mul_sum, ← Finset.sum_sub_distrib]
      exact Finset.sum_congr rfl fun x _ => by ring
    rw [e, e2]
    linear_combination hx - hxx

/-- **C13, elimination is exact.**  For every back end: the step returned by `KKT.solve` (no refinement), pushed through
    the full regularised Newton operator `KKT.multiply`, reproduces the right-hand side on every row; inactive box
    tails keep their old content. -/
theorem solve_solves_full_system (be : Backend) (st : KKTSettings K) (d : Data K n p m) (k : KKT K n p m)
    (r old out : Step K n p m) (slv : SolveFn K n p m)
    (hf : k.fsol = some slv) (hcoh : Coherent be d k) (hex : InnerExact be k.k slv) (hin : Interior d k)
    (h : KKT.solve be st d k r old false = some out) :
    let back := KKT.multiply d k out old
    (∀ j : Fin n, back.x[j] = r.x[j]) ∧ (∀ t : Fin p, back.y[t] = r.y[t]) ∧ (∀ t : Fin m, back.z[t] = r.z[t]) ∧
    (∀ t : Fin m, back.s[t] = r.s[t]) ∧
    (∀ a : Fin n, back.z_lb[a] = if d.lb.act a then r.z_lb[a] else old.z_lb[a]) ∧
    (∀ a : Fin n, back.s_lb[a] = if d.lb.act a then r.s_lb[a] else old.s_lb[a]) ∧
    (∀ a : Fin n, back.z_ub[a] = if d.ub.act a then r.z_ub[a] else old.z_ub[a]) ∧
    (∀ a : Fin n, back.s_ub[a] = if d.ub.act a then r.s_ub[a] else old.s_ub[a]) := by
  have e := solve_eq_recover be st d k r old out slv hf h
  subst e
  have hx := recover_row_x be d k r old slv hcoh hex hin
  have hyzs := recover_rows_yzs be d k r old slv hcoh hex hin
  have hb := recover_rows_box be d k r old (slv (rxOf be d k r) r.y (zbarOf be k r)) hin
  exact ⟨hx, hyzs.1, hyzs.2.1, hyzs.2.2, hb.1, hb.2.1, hb.2.2.1, hb.2.2.2⟩


/-! ## Caches: refreshing in place yields the same system as building it anew -/


@[simp] theorem matOfFn_get {r c : Nat} (f : Fin r → Fin c → K) (i : Fin r) (j : Fin c) : (Mat.ofFn f)[i][j] = f i j := by
  simp [Mat.ofFn]

@[simp] theorem vecConst_get {q : Nat} (a : K) (i : Fin q) : (Vec.const q a)[i] = a := by
  simp [Vec.const]

@[simp] theorem transpose_get {r c : Nat} (A : Mat K r c) (i : Fin r) (j : Fin c) : (Mat.transpose A)[j][i] = A[i][j] := by
  simp only [Mat.transpose, matOfFn_get]

theorem boxDiag_get (d : Data K n p m) (k : KKT K n p m) (j : Fin n) :
    (boxDiag d k.zinv_lb k.s_lb k.zinv_ub k.s_ub k.delta)[j] = boxTerm d k j := by
  simp only [boxDiag, boxDiagSide, boxTerm, ofFn_get, scatter_get]

theorem mkATA_get (ac : Mat K p n) (AT : Mat K n p) (h : ∀ (t : Fin p) (j : Fin n), ac[t][j] = AT[j][t]) (i j : Fin n) :
    (mkATA ac AT)[i][j] = ∑ t : Fin p, AT[i][t] * AT[j][t] := by
  simp only [mkATA, symUpper, matOfFn_get, sumFin_eq_sum, h]
  split
  · exact Finset.sum_congr rfl fun t _ => by ring
  · rfl

theorem mkGWG_get (gc : Mat K m n) (GT : Mat K n m) (s zinv : Vec K m) (delta : K)
    (h : ∀ (t : Fin m) (j : Fin n), gc[t][j] = GT[j][t]) (i j : Fin n) :
    (mkGWG gc GT s zinv delta)[i][j] = ∑ t : Fin m, GT[i][t] * GT[j][t] / (s[t] * zinv[t] + delta) := by
  simp only [mkGWG, symUpper, matOfFn_get, sumFin_eq_sum, h]
  split
  · exact Finset.sum_congr rfl fun t _ => by ring
  · exact Finset.sum_congr rfl fun t _ => by ring

/-- the caches a back end keeps between calls agree with the current data -/
structure CachesOk (be : Backend) (d : Data K n p m) (k : KKT K n p m) : Prop where
  ata : be.keepY = false → ∀ i j : Fin n, k.ata[i][j] = ∑ t : Fin p, d.AT[i][t] * d.AT[j][t]
  gc : be.keepZ = false → be.isDense = false → ∀ (t : Fin m) (j : Fin n), k.gc[t][j] = d.GT[j][t]
  full_pdiag : be = .full → ∀ j : Fin n, k.pdiag[j] = d.P[j][j]
  full_off : be = .full → ∀ i j : Fin n, i ≠ j → k.k.xx[i][j] = d.Psym[i][j]
  full_xy : be = .full → k.k.xy = d.AT
  full_xz : be = .full → k.k.xz = d.GT

theorem refresh_coherent (be : Backend) (d : Data K n p m) (k : KKT K n p m) (hc : CachesOk be d k) :
    Coherent be d (KKT.refresh be d k) := by
  have hbox := boxDiag_get d k
  simp only [boxTerm] at hbox
  cases be
  · -- dense
    have hata := hc.ata rfl
    refine ⟨?_, fun h => by simp [Backend.keepY] at h, fun h => by simp [Backend.keepY] at h,
      fun h => by simp [Backend.keepZ] at h, fun h => by simp [Backend.keepZ] at h⟩
    intro i j
    have hG : (∑ t : Fin m, d.GT[i][t] * (1 / (k.zinv[t] * k.s[t] + k.delta) * d.GT[j][t])) =
        ∑ t : Fin m, d.GT[i][t] * d.GT[j][t] / (k.s[t] * k.zinv[t] + k.delta) :=
      Finset.sum_congr rfl fun t _ => by ring
    simp only [KKT.refresh, denseKxx, Backend.keepY, Backend.keepZ, Bool.false_eq_true, if_false, boxTerm]
    have hA0 : p = 0 → (∑ t : Fin p, d.AT[i][t] * d.AT[j][t]) = 0 := by intro h; subst h; simp
    have hG0 : m = 0 → (∑ t : Fin m, d.GT[i][t] * d.GT[j][t] / (k.s[t] * k.zinv[t] + k.delta)) = 0 := by intro h; subst h; simp
    by_cases hp : p = 0 <;> by_cases hm : m = 0 <;>
      simp only [hp, hm, if_true, if_false, addDiag, matAdd, matScale, matOfFn_get, vecConst_get, sumFin_eq_sum, hata, hbox,
        hG] <;>
      (try rw [hA0 hp]) <;> (try rw [hG0 hm]) <;>
      by_cases hij : i = j <;> simp only [hij, if_true, if_false] <;> ring
  · -- full
    have hpd := hc.full_pdiag rfl; have hoff := hc.full_off rfl; have hxy := hc.full_xy rfl; have hxz := hc.full_xz rfl
    refine ⟨?_, fun _ => ?_, fun _ t => ?_, fun _ => ?_, fun _ t => ?_⟩
    · intro i j
      simp only [KKT.refresh, Backend.keepY, Backend.keepZ, if_true, boxTerm, setDiag, matOfFn_get, ofFn_get, hbox, hpd, add_zero]
      by_cases hij : i = j
      · subst hij; simp only [if_true, Data.Psym, matOfFn_get, le_refl]
      · simp only [hij, if_false, hoff i j hij]; ring
    · simpa [KKT.refresh] using hxy
    · simp only [KKT.refresh, negDelta, vecConst_get]
    · simpa [KKT.refresh] using hxz
    · simp only [KKT.refresh, zzDiag, ofFn_get]; ring
  · -- eq eliminated: keeps z
    have hata := hc.ata rfl
    refine ⟨?_, fun h => by simp [Backend.keepY] at h, fun h => by simp [Backend.keepY] at h, fun _ => ?_, fun _ t => ?_⟩
    · intro i j
      simp only [KKT.refresh, topLeft, Backend.keepY, Backend.keepZ, Bool.false_eq_true, if_true, if_false, addDiag, matAdd, matScale,
        matOfFn_get, vecConst_get, hata, hbox, boxTerm]
      by_cases hij : i = j <;> simp only [hij, if_true, if_false] <;> ring
    · simp [KKT.refresh, Backend.keepZ]
    · simp only [KKT.refresh, zzDiag, ofFn_get]; ring
  · -- ineq eliminated: keeps y
    have hgc := hc.gc rfl rfl
    refine ⟨?_, fun _ => ?_, fun _ t => ?_, fun h => by simp [Backend.keepZ] at h, fun h => by simp [Backend.keepZ] at h⟩
    · intro i j
      simp only [KKT.refresh, topLeft, Backend.keepY, Backend.keepZ, Bool.false_eq_true, if_true, if_false, addDiag, matAdd, matScale,
        matOfFn_get, vecConst_get, mkGWG_get _ _ _ _ _ hgc, hbox, boxTerm]
      by_cases hij : i = j <;> simp only [hij, if_true, if_false] <;> ring
    · simp [KKT.refresh, Backend.keepY]
    · simp only [KKT.refresh, negDelta, vecConst_get]
  · -- all eliminated
    have hata := hc.ata rfl
    have hgc := hc.gc rfl rfl
    refine ⟨?_, fun h => by simp [Backend.keepY] at h, fun h => by simp [Backend.keepY] at h,
      fun h => by simp [Backend.keepZ] at h, fun h => by simp [Backend.keepZ] at h⟩
    intro i j
    simp only [KKT.refresh, topLeft, Backend.keepY, Backend.keepZ, Bool.false_eq_true, if_true, if_false, addDiag, matAdd, matScale,
      matOfFn_get, vecConst_get, hata, mkGWG_get _ _ _ _ _ hgc, hbox, boxTerm]
    by_cases hij : i = j <;> simp only [hij, if_true, if_false] <;> ring

theorem CachesOk.transfer {be : Backend} {d : Data K n p m} {k k' : KKT K n p m} (hc : CachesOk be d k)
    (h1 : k'.ata = k.ata) (h2 : k'.gc = k.gc) (h3 : k'.pdiag = k.pdiag)
    (h4 : be = .full → ∀ i j : Fin n, i ≠ j → k'.k.xx[i][j] = k.k.xx[i][j])
    (h5 : be = .full → k'.k.xy = k.k.xy) (h6 : be = .full → k'.k.xz = k.k.xz) : CachesOk be d k' where
  ata := by rw [h1]; exact hc.ata
  gc := by rw [h2]; exact hc.gc
  full_pdiag := by rw [h3]; exact hc.full_pdiag
  full_off := fun hb i j hij => by rw [h4 hb i j hij]; exact hc.full_off hb i j hij
  full_xy := fun hb => by rw [h5 hb]; exact hc.full_xy hb
  full_xz := fun hb => by rw [h6 hb]; exact hc.full_xz hb

theorem refresh_cachesOk (be : Backend) (d : Data K n p m) (k : KKT K n p m) (hc : CachesOk be d k) :
    CachesOk be d (KKT.refresh be d k) := by
  cases be
  · exact hc.transfer rfl rfl rfl (fun h => by cases h) (fun h => by cases h) (fun h => by cases h)
  · refine hc.transfer rfl rfl rfl (fun _ i j hij => ?_) (fun _ => rfl) (fun _ => rfl)
    simp only [KKT.refresh, setDiag, matOfFn_get, hij, if_false]
  · exact hc.transfer rfl rfl rfl (fun h => by cases h) (fun h => by cases h) (fun h => by cases h)
  · exact hc.transfer rfl rfl rfl (fun h => by cases h) (fun h => by cases h) (fun h => by cases h)
  · exact hc.transfer rfl rfl rfl (fun h => by cases h) (fun h => by cases h) (fun h => by cases h)

/-- `update_scalings` never touches what `CachesOk` talks about, so it re-establishes coherence for the new scalings -/
theorem updateScalings_coherent (be : Backend) (d : Data K n p m) (k : KKT K n p m) (rho delta : K)
    (s : Vec K m) (s_lb s_ub : Vec K n) (z : Vec K m) (z_lb z_ub : Vec K n) (hc : CachesOk be d k) :
    Coherent be d (KKT.updateScalings be d k rho delta s s_lb s_ub z z_lb z_ub) ∧
    CachesOk be d (KKT.updateScalings be d k rho delta s s_lb s_ub z z_lb z_ub) := by
  unfold KKT.updateScalings
  exact ⟨refresh_coherent be d _ (hc.transfer rfl rfl rfl (fun _ _ _ _ => rfl) (fun _ => rfl) (fun _ => rfl)),
         refresh_cachesOk be d _ (hc.transfer rfl rfl rfl (fun _ _ _ _ => rfl) (fun _ => rfl) (fun _ => rfl))⟩

theorem denseATA_get (d : Data K n p m) (i j : Fin n) : (denseATA d)[i][j] = ∑ t : Fin p, d.AT[i][t] * d.AT[j][t] := by
  simp only [denseATA, matOfFn_get, sumFin_eq_sum]

/-- `init` builds caches that agree with the data -/
theorem init_cachesOk (be : Backend) (d : Data K n p m) (rho delta : K) (o1 o2 o3 o4 : Vec K n) :
    CachesOk be d (KKT.init be d rho delta o1 o2 o3 o4) := by
  cases be
  · refine ⟨fun _ i j => ?_, fun _ h => by simp [Backend.isDense] at h, (fun h => by cases h), (fun h => by cases h),
      (fun h => by cases h), (fun h => by cases h)⟩
    simp only [KKT.init]
    by_cases hp : p = 0
    · subst hp; simp only [if_true, matOfFn_get, Finset.univ_eq_empty, Finset.sum_empty]
    · simp only [hp, if_false, denseATA_get]
  · refine ⟨fun h => by simp [Backend.keepY] at h, fun h => by simp [Backend.keepZ] at h, fun _ j => ?_, fun _ i j hij => ?_,
      fun _ => rfl, fun _ => rfl⟩
    · simp only [KKT.init, ofFn_get]
    · simp only [KKT.init, topLeft, Backend.keepY, Backend.keepZ, if_true, addDiag, matOfFn_get, hij, if_false]
  · refine ⟨fun _ i j => ?_, fun h => by simp [Backend.keepZ] at h, (fun h => by cases h), (fun h => by cases h),
      (fun h => by cases h), (fun h => by cases h)⟩
    simp only [KKT.init, Backend.keepY, Bool.false_eq_true, if_false]
    exact mkATA_get _ _ (fun t j => transpose_get d.AT j t) i j
  · refine ⟨fun h => by simp [Backend.keepY] at h, fun _ _ t j => ?_, (fun h => by cases h), (fun h => by cases h),
      (fun h => by cases h), (fun h => by cases h)⟩
    simp only [KKT.init]; exact transpose_get d.GT j t
  · refine ⟨fun _ i j => ?_, fun _ _ t j => ?_, (fun h => by cases h), (fun h => by cases h),
      (fun h => by cases h), (fun h => by cases h)⟩
    · simp only [KKT.init, Backend.keepY, Bool.false_eq_true, if_false]
      exact mkATA_get _ _ (fun t j => transpose_get d.AT j t) i j
    · simp only [KKT.init]; exact transpose_get d.GT j t

theorem boxDiag_get' (d : Data K n p m) (zl sl zu su : Vec K n) (delta : K) (j : Fin n) :
    (boxDiag d zl sl zu su delta)[j] =
      (∑ a : Fin n, if d.lb.act a ∧ d.lb.idx[a] = j then d.lb.sc[a] * d.lb.sc[a] / (zl[a] * sl[a] + delta) else 0) +
      (∑ a : Fin n, if d.ub.act a ∧ d.ub.idx[a] = j then d.ub.sc[a] * d.ub.sc[a] / (zu[a] * su[a] + delta) else 0) := by
  simp only [boxDiag, boxDiagSide, ofFn_get, scatter_get]

/-- `init` assembles a coherent reduced matrix (for the unit scalings it installs) -/
theorem init_coherent (be : Backend) (d : Data K n p m) (rho delta : K) (o1 o2 o3 o4 : Vec K n) :
    Coherent be d (KKT.init be d rho delta o1 o2 o3 o4) := by
  have hata : ∀ i j : Fin n, (mkATA (Mat.transpose d.AT) d.AT)[i][j] = ∑ t : Fin p, d.AT[i][t] * d.AT[j][t] :=
    mkATA_get _ _ (fun t j => transpose_get d.AT j t)
  have hgwg : ∀ i j : Fin n, (mkGWG (Mat.transpose d.GT) d.GT (Vec.const m 1) (Vec.const m 1) 0)[i][j] =
      ∑ t : Fin m, d.GT[i][t] * d.GT[j][t] / ((Vec.const m (1:K))[t] * (Vec.const m (1:K))[t] + 0) :=
    mkGWG_get _ _ _ _ _ (fun t j => transpose_get d.GT j t)
  cases be
  · refine ⟨?_, fun h => by simp [Backend.keepY] at h, fun h => by simp [Backend.keepY] at h,
      fun h => by simp [Backend.keepZ] at h, fun h => by simp [Backend.keepZ] at h⟩
    intro i j
    have hG : (∑ t : Fin m, d.GT[i][t] * (1 / ((1:K) * 1 + delta) * d.GT[j][t])) =
        ∑ t : Fin m, d.GT[i][t] * d.GT[j][t] / ((1:K) * 1 + delta) :=
      Finset.sum_congr rfl fun t _ => by ring
    have hA0 : p = 0 → (∑ t : Fin p, d.AT[i][t] * d.AT[j][t]) = 0 := by intro h; subst h; simp
    have hG0 : m = 0 → (∑ t : Fin m, d.GT[i][t] * d.GT[j][t] / ((1:K) * 1 + delta)) = 0 := by intro h; subst h; simp
    simp only [KKT.init, denseKxx, Backend.keepY, Backend.keepZ, Bool.false_eq_true, if_false, boxTerm]
    by_cases hp : p = 0 <;> by_cases hm : m = 0 <;>
      simp only [hp, hm, if_true, if_false, addDiag, matAdd, matScale, matOfFn_get, vecConst_get, sumFin_eq_sum, denseATA_get,
        boxDiag_get', hG] <;>
      (try rw [hA0 hp]) <;> (try rw [hG0 hm]) <;>
      by_cases hij : i = j <;> simp only [hij, if_true, if_false] <;> ring
  · refine ⟨?_, fun _ => rfl, fun _ t => ?_, fun _ => rfl, fun _ t => ?_⟩
    · intro i j
      simp only [KKT.init, topLeft, Backend.keepY, Backend.keepZ, if_true, boxTerm, addDiag, matOfFn_get, vecConst_get,
        boxDiag_get', add_zero]
      by_cases hij : i = j <;> simp only [hij, if_true, if_false] <;> ring
    · simp only [KKT.init, negDelta, vecConst_get]
    · simp only [KKT.init, ofFn_get, vecConst_get]; ring
  · -- eq eliminated
    refine ⟨?_, fun h => by simp [Backend.keepY] at h, fun h => by simp [Backend.keepY] at h, fun _ => rfl, fun _ t => ?_⟩
    · intro i j
      simp only [KKT.init, topLeft, Backend.keepY, Backend.keepZ, Bool.false_eq_true, if_true, if_false, addDiag, matAdd, matScale,
        matOfFn_get, vecConst_get, hata, boxDiag_get', boxTerm]
      by_cases hij : i = j <;> simp only [hij, if_true, if_false] <;> ring
    · simp only [KKT.init, ofFn_get, vecConst_get]; ring
  · -- ineq eliminated
    refine ⟨?_, fun _ => rfl, fun _ t => ?_, fun h => by simp [Backend.keepZ] at h, fun h => by simp [Backend.keepZ] at h⟩
    · intro i j
      have hG : (1 / (1 + delta)) * (∑ t : Fin m, d.GT[i][t] * d.GT[j][t] / ((1:K) * 1 + 0)) =
          ∑ t : Fin m, d.GT[i][t] * d.GT[j][t] / ((1:K) * 1 + delta) := by
        rw [Finset.mul_sum]; exact Finset.sum_congr rfl fun t _ => by ring
      simp only [KKT.init, topLeft, Backend.keepY, Backend.keepZ, Bool.false_eq_true, if_true, if_false, addDiag, matAdd, matScale,
        matOfFn_get, vecConst_get, hgwg, hG, boxDiag_get', boxTerm]
      by_cases hij : i = j <;> simp only [hij, if_true, if_false] <;> ring
    · simp only [KKT.init, negDelta, vecConst_get]
  · -- all eliminated
    refine ⟨?_, fun h => by simp [Backend.keepY] at h, fun h => by simp [Backend.keepY] at h,
      fun h => by simp [Backend.keepZ] at h, fun h => by simp [Backend.keepZ] at h⟩
    intro i j
    have hG : (1 / (1 + delta)) * (∑ t : Fin m, d.GT[i][t] * d.GT[j][t] / ((1:K) * 1 + 0)) =
        ∑ t : Fin m, d.GT[i][t] * d.GT[j][t] / ((1:K) * 1 + delta) := by
      rw [Finset.mul_sum]; exact Finset.sum_congr rfl fun t _ => by ring
    simp only [KKT.init, topLeft, Backend.keepY, Backend.keepZ, Bool.false_eq_true, if_true, if_false, addDiag, matAdd, matScale,
      matOfFn_get, vecConst_get, hata, hgwg, hG, boxDiag_get', boxTerm]
    by_cases hij : i = j <;> simp only [hij, if_true, if_false] <;> ring

/-- `Coherent` and `CachesOk` read only `P`, `AT`, `GT` and the box packing of the data -/
theorem Coherent.congr_data {be : Backend} {d d0 : Data K n p m} {k : KKT K n p m}
    (h1 : d.P = d0.P) (h2 : d.AT = d0.AT) (h3 : d.GT = d0.GT) (h4 : d.lb = d0.lb) (h5 : d.ub = d0.ub)
    (h : Coherent be d0 k) : Coherent be d k := by
  cases d; cases d0
  simp only at h1 h2 h3 h4 h5
  subst h1 h2 h3 h4 h5
  exact ⟨h.xx, h.xy, h.yy, h.xz, h.zz⟩

/-- what a caller of `update_data(options)` owes: every block that changed is flagged -/
structure Flagged (d d0 : Data K n p m) (optP optA optG : Bool) : Prop where
  hP : optP = false → d.P = d0.P
  hA : optA = false → d.AT = d0.AT
  hG : optG = false → d.GT = d0.GT

theorem updateData_ok (be : Backend) (d d0 : Data K n p m) (k : KKT K n p m) (optP optA optG : Bool)
    (hf : Flagged d d0 optP optA optG) (hc : CachesOk be d0 k) :
    CachesOk be d (KKT.updateData be d k optP optA optG) ∧
    (d.lb = d0.lb → d.ub = d0.ub → Coherent be d0 k → Coherent be d (KKT.updateData be d k optP optA optG)) := by
  have hnone : ∀ {x : KKT K n p m}, Coherent be d0 x → (optP || optA || optG) = false → d.lb = d0.lb → d.ub = d0.ub → Coherent be d x := by
    intro x hx hany hl hu
    simp only [Bool.or_eq_false_iff] at hany
    exact hx.congr_data (hf.hP hany.1.1) (hf.hA hany.1.2) (hf.hG hany.2) hl hu
  have sumA : optA = false → ∀ i j : Fin n, (∑ t : Fin p, d0.AT[i][t] * d0.AT[j][t]) = ∑ t : Fin p, d.AT[i][t] * d.AT[j][t] := by
    intro h i j; rw [hf.hA h]
  cases be
  · -- dense
    have h1 : CachesOk .dense d (if (optA && decide (p ≠ 0)) = true then { k with ata := denseATA d } else k) := by
      refine ⟨fun _ i j => ?_, fun _ h => by simp [Backend.isDense] at h, (fun h => by cases h), (fun h => by cases h),
        (fun h => by cases h), (fun h => by cases h)⟩
      by_cases hp : p = 0
      · subst hp
        have := hc.ata rfl i j
        simp only [ne_eq, not_true, decide_false, Bool.and_false, Bool.false_eq_true, if_false, this,
          Finset.univ_eq_empty, Finset.sum_empty]
      · cases optA
        · simp only [Bool.false_and, Bool.false_eq_true, if_false, hc.ata rfl i j, sumA rfl i j]
        · simp only [ne_eq, hp, not_false_eq_true, decide_true, Bool.and_true, if_true, denseATA_get]
    simp only [KKT.updateData]
    split
    · exact ⟨refresh_cachesOk _ _ _ h1, fun _ _ _ => refresh_coherent _ _ _ h1⟩
    · rename_i hany
      have hany' : (optP || optA || optG) = false := by simpa using hany
      refine ⟨h1, fun hl hu hco => ?_⟩
      have hA : optA = false := by simp only [Bool.or_eq_false_iff] at hany'; exact hany'.1.2
      have hG : optG = false := by simp only [Bool.or_eq_false_iff] at hany'; exact hany'.2
      subst hA hG
      simpa using hnone hco hany' hl hu
  · -- full
    have hPs : optP = false → d.Psym = d0.Psym := fun h => by simp only [Data.Psym, hf.hP h]
    have hpd := hc.full_pdiag rfl; have hoff := hc.full_off rfl; have hxy := hc.full_xy rfl; have hxz := hc.full_xz rfl
    refine ⟨⟨fun h => by simp [Backend.keepY] at h, fun h => by simp [Backend.keepZ] at h, fun _ j => ?_, fun _ i j hij => ?_,
      fun _ => ?_, fun _ => ?_⟩, fun hl hu hco => ⟨fun i j => ?_, fun _ => ?_, fun _ t => ?_, fun _ => ?_, fun _ t => ?_⟩⟩
    · cases optP <;> cases optA <;> cases optG <;>
        simp only [KKT.updateData, Bool.false_eq_true, if_false, if_true, ofFn_get, hpd] <;>
        rw [hf.hP rfl]
    · cases optP <;> cases optA <;> cases optG <;>
        simp only [KKT.updateData, Bool.false_eq_true, if_false, if_true, setDiag, matOfFn_get, hij, hoff i j hij] <;>
        rw [hPs rfl]
    · cases optP <;> cases optA <;> cases optG <;>
        simp only [KKT.updateData, Bool.false_eq_true, if_false, if_true, hxy] <;>
        rw [hf.hA rfl]
    · cases optP <;> cases optA <;> cases optG <;>
        simp only [KKT.updateData, Bool.false_eq_true, if_false, if_true, hxz] <;>
        rw [hf.hG rfl]
    · -- xx
      have hx0 := hco.xx i j
      simp only [boxTerm, ← hl, ← hu, Backend.keepY, Backend.keepZ, if_true, add_zero] at hx0
      cases optP
      · have e : (KKT.updateData Backend.full d k false optA optG).k.xx = k.k.xx := by
          cases optA <;> cases optG <;> simp only [KKT.updateData, Bool.false_eq_true, if_false, if_true]
        have e2 : boxTerm d (KKT.updateData Backend.full d k false optA optG) i = boxTerm d k i := by
          cases optA <;> cases optG <;> simp only [KKT.updateData, Bool.false_eq_true, if_false, if_true, boxTerm]
        have e3 : (KKT.updateData Backend.full d k false optA optG).rho = k.rho := by
          cases optA <;> cases optG <;> simp only [KKT.updateData, Bool.false_eq_true, if_false, if_true]
        rw [e, e2, e3, hx0, hPs rfl]
        simp only [boxTerm, Backend.keepY, Backend.keepZ, if_true, add_zero]
      · have e : (KKT.updateData Backend.full d k true optA optG).k.xx =
            setDiag d.Psym (Vector.ofFn fun j => (Vector.ofFn fun j => d.P[j][j])[j] + k.rho +
              (boxDiag d k.zinv_lb k.s_lb k.zinv_ub k.s_ub k.delta)[j]) := by
          cases optA <;> cases optG <;> simp only [KKT.updateData, Bool.false_eq_true, if_false, if_true]
        have e2 : boxTerm d (KKT.updateData Backend.full d k true optA optG) i = boxTerm d k i := by
          cases optA <;> cases optG <;> simp only [KKT.updateData, Bool.false_eq_true, if_false, if_true, boxTerm]
        have e3 : (KKT.updateData Backend.full d k true optA optG).rho = k.rho := by
          cases optA <;> cases optG <;> simp only [KKT.updateData, Bool.false_eq_true, if_false, if_true]
        rw [e, e2, e3]
        simp only [setDiag, matOfFn_get, ofFn_get, boxDiag_get, Backend.keepY, Backend.keepZ, if_true, add_zero]
        by_cases hij : i = j
        · subst hij; simp only [if_true, Data.Psym, matOfFn_get, le_refl]
        · simp only [hij, if_false, add_zero]
    · cases optP <;> cases optA <;> cases optG <;>
        simp only [KKT.updateData, Bool.false_eq_true, if_false, if_true, hxy] <;>
        rw [hf.hA rfl]
    · have := hco.yy rfl t
      cases optP <;> cases optA <;> cases optG <;>
        simpa only [KKT.updateData, Bool.false_eq_true, if_false, if_true] using this
    · cases optP <;> cases optA <;> cases optG <;>
        simp only [KKT.updateData, Bool.false_eq_true, if_false, if_true, hxz] <;>
        rw [hf.hG rfl]
    · have := hco.zz rfl t
      cases optP <;> cases optA <;> cases optG <;>
        simpa only [KKT.updateData, Bool.false_eq_true, if_false, if_true] using this
  · -- eq eliminated
    have h1 : CachesOk .eqElim d (if optA = true then { k with ac := Mat.transpose d.AT, ata := mkATA (Mat.transpose d.AT) d.AT } else k) := by
      refine ⟨fun _ i j => ?_, fun h => by simp [Backend.keepZ] at h, (fun h => by cases h), (fun h => by cases h),
        (fun h => by cases h), (fun h => by cases h)⟩
      cases optA
      · simp only [Bool.false_eq_true, if_false, hc.ata rfl i j, sumA rfl i j]
      · simp only [if_true]; exact mkATA_get _ _ (fun t j => transpose_get d.AT j t) i j
    simp only [KKT.updateData, Backend.keepY, Backend.keepZ, Bool.not_false, Bool.and_true, Bool.not_true, Bool.and_false,
      Bool.false_eq_true, if_false]
    split
    · exact ⟨refresh_cachesOk _ _ _ h1, fun _ _ _ => refresh_coherent _ _ _ h1⟩
    · rename_i hany
      have hany' : (optP || optA || optG) = false := by simpa using hany
      refine ⟨h1, fun hl hu hco => ?_⟩
      have hA : optA = false := by simp only [Bool.or_eq_false_iff] at hany'; exact hany'.1.2
      have hG : optG = false := by simp only [Bool.or_eq_false_iff] at hany'; exact hany'.2
      subst hA hG
      simpa using hnone hco hany' hl hu
  · -- ineq eliminated
    have h1 : CachesOk .ineqElim d (if optG = true then { k with gc := Mat.transpose d.GT } else k) := by
      refine ⟨fun h => by simp [Backend.keepY] at h, fun _ _ t j => ?_, (fun h => by cases h), (fun h => by cases h),
        (fun h => by cases h), (fun h => by cases h)⟩
      cases optG
      · simp only [Bool.false_eq_true, if_false, hc.gc rfl rfl t j, hf.hG rfl]
      · simp only [if_true]; exact transpose_get d.GT j t
    simp only [KKT.updateData, Backend.keepY, Backend.keepZ, Bool.not_false, Bool.and_true, Bool.not_true, Bool.and_false,
      Bool.false_eq_true, if_false]
    split
    · exact ⟨refresh_cachesOk _ _ _ h1, fun _ _ _ => refresh_coherent _ _ _ h1⟩
    · rename_i hany
      have hany' : (optP || optA || optG) = false := by simpa using hany
      refine ⟨h1, fun hl hu hco => ?_⟩
      have hA : optA = false := by simp only [Bool.or_eq_false_iff] at hany'; exact hany'.1.2
      have hG : optG = false := by simp only [Bool.or_eq_false_iff] at hany'; exact hany'.2
      subst hA hG
      simpa using hnone hco hany' hl hu
  · -- all eliminated
    have h1 : CachesOk .allElim d
        (if optG = true then
          { (if optA = true then { k with ac := Mat.transpose d.AT, ata := mkATA (Mat.transpose d.AT) d.AT } else k) with
            gc := Mat.transpose d.GT }
         else (if optA = true then { k with ac := Mat.transpose d.AT, ata := mkATA (Mat.transpose d.AT) d.AT } else k)) := by
      refine ⟨fun _ i j => ?_, fun _ _ t j => ?_, (fun h => by cases h), (fun h => by cases h),
        (fun h => by cases h), (fun h => by cases h)⟩
      · cases optA <;> cases optG <;> simp only [Bool.false_eq_true, if_false, if_true, hc.ata rfl i j]
        · exact sumA rfl i j
        · exact sumA rfl i j
        · exact mkATA_get _ _ (fun t j => transpose_get d.AT j t) i j
        · exact mkATA_get _ _ (fun t j => transpose_get d.AT j t) i j
      · cases optA <;> cases optG <;> simp only [Bool.false_eq_true, if_false, if_true, hc.gc rfl rfl t j]
        · rw [hf.hG rfl]
        · exact transpose_get d.GT j t
        · rw [hf.hG rfl]
        · exact transpose_get d.GT j t
    simp only [KKT.updateData, Backend.keepY, Backend.keepZ, Bool.not_false, Bool.and_true, Bool.not_true, Bool.and_false,
      Bool.false_eq_true, if_false]
    split
    · exact ⟨refresh_cachesOk _ _ _ h1, fun _ _ _ => refresh_coherent _ _ _ h1⟩
    · rename_i hany
      have hany' : (optP || optA || optG) = false := by simpa using hany
      refine ⟨h1, fun hl hu hco => ?_⟩
      have hA : optA = false := by simp only [Bool.or_eq_false_iff] at hany'; exact hany'.1.2
      have hG : optG = false := by simp only [Bool.or_eq_false_iff] at hany'; exact hany'.2
      subst hA hG
      simpa using hnone hco hany' hl hu

/-! ## Iterative refinement -/

section refinement
variable [IsStrictOrderedRing K]


theorem vabs_nonneg (a : K) : 0 ≤ vabs a := by
  unfold vabs; split
  · rename_i h; exact le_of_lt (neg_pos.mpr h)
  · rename_i h; exact not_lt.mp h

theorem le_vmax_left (a b : K) : a ≤ vmax a b := by
  unfold vmax; split
  · rename_i h; exact le_of_lt h
  · exact le_refl a

theorem maxFin_ge_init (init : K) : ∀ (q : Nat) (f : Fin q → K), init ≤ maxFin init q f
  | 0, _ => le_refl _
  | q + 1, f => le_trans (maxFin_ge_init init q _) (le_vmax_left _ _)

theorem infNorm_nonneg {q : Nat} (v : Vec K q) : 0 ≤ Vec.infNorm v := by
  unfold Vec.infNorm; split
  · exact le_trans (vabs_nonneg _) (maxFin_ge_init _ _ _)
  · exact le_refl 0

theorem redNorm_nonneg (be : Backend) (x : Vec K n) (y : Vec K p) (z : Vec K m) : 0 ≤ redNorm be x y z := by
  unfold redNorm
  have h0 := infNorm_nonneg x
  cases be.keepY <;> cases be.keepZ <;> simp only [Bool.false_eq_true, if_false, if_true]
  · exact h0
  · exact le_trans h0 (le_vmax_left _ _)
  · exact le_trans h0 (le_vmax_left _ _)
  · exact le_trans (le_trans h0 (le_vmax_left _ _)) (le_vmax_left _ _)

/-- norm of the reduced residual of a candidate solution -/
def resNorm (be : Backend) (ku : KBlocks K n p m) (rx : Vec K n) (ry : Vec K p) (rz : Vec K m)
    (sol : Vec K n × Vec K p × Vec K m) : K :=
  let e := redResidual be ku rx ry rz sol.1 sol.2.1 sol.2.2
  redNorm be e.1 e.2.1 e.2.2

/-- **C13, refinement.**  With a verified setting (`min_improvement_rate ≥ 1`) the refinement loop never returns a
    candidate whose reduced residual is larger than that of the candidate it was started from. -/
theorem refineLoop_not_worse (be : Backend) (st : KKTSettings K) (slv : SolveFn K n p m) (ku : KBlocks K n p m)
    (rx : Vec K n) (ry : Vec K p) (rz : Vec K m) (rhsNorm : K) (hmin : 1 ≤ st.refMinRate) :
    ∀ (fuel : Nat) (sol err : Vec K n × Vec K p × Vec K m) (errNorm : K),
      errNorm = resNorm be ku rx ry rz sol →
      resNorm be ku rx ry rz (refineLoop be st slv ku rx ry rz rhsNorm fuel sol err errNorm) ≤ errNorm := by
  intro fuel
  induction fuel with
  | zero => intro sol err errNorm h; simp only [refineLoop]; exact le_of_eq h.symm
  | succ fuel ih =>
    intro sol err errNorm h
    simp only [refineLoop]
    split
    · exact le_of_eq h.symm
    · -- one refinement step
      set ref : Vec K n × Vec K p × Vec K m :=
        (Vector.ofFn fun i => sol.1[i] + (slv err.1 err.2.1 err.2.2).1[i],
         Vector.ofFn fun i => sol.2.1[i] + (slv err.1 err.2.1 err.2.2).2.1[i],
         Vector.ofFn fun i => sol.2.2[i] + (slv err.1 err.2.1 err.2.2).2.2[i]) with href
      have hn' : 0 ≤ resNorm be ku rx ry rz ref := redNorm_nonneg _ _ _ _
      have key : 1 ≤ errNorm / resNorm be ku rx ry rz ref → resNorm be ku rx ry rz ref ≤ errNorm := by
        intro h1
        rcases eq_or_lt_of_le hn' with h0 | hpos
        · rw [← h0, div_zero] at h1; exact absurd h1 (by norm_num)
        · exact (one_le_div hpos).mp h1
      show resNorm be ku rx ry rz (if errNorm / resNorm be ku rx ry rz ref < st.refMinRate then
          (if 1 < errNorm / resNorm be ku rx ry rz ref then ref else sol)
        else refineLoop be st slv ku rx ry rz rhsNorm fuel ref (redResidual be ku rx ry rz ref.1 ref.2.1 ref.2.2)
          (resNorm be ku rx ry rz ref)) ≤ errNorm
      split
      · split
        · rename_i h1; exact key (le_of_lt h1)
        · exact le_of_eq h.symm
      · rename_i hr
        have h1 : 1 ≤ errNorm / resNorm be ku rx ry rz ref := le_trans hmin (not_lt.mp hr)
        exact le_trans (ih ref _ _ rfl) (key h1)

/-- at the level of `KKT.solve`: the reduced solution the refined solve recovers from is never worse (in the
    ∞-norm of the reduced residual) than the unrefined one -/
theorem solve_refined_not_worse (be : Backend) (st : KKTSettings K) (d : Data K n p m) (k : KKT K n p m)
    (r old out : Step K n p m) (slv : SolveFn K n p m) (hf : k.fsol = some slv) (hmin : 1 ≤ st.refMinRate)
    (h : KKT.solve be st d k r old true = some out) :
    ∃ sol, out = recover be d k r old sol ∧
      resNorm be k.k (rxOf be d k r) r.y (zbarOf be k r) sol ≤
        resNorm be k.k (rxOf be d k r) r.y (zbarOf be k r) (slv (rxOf be d k r) r.y (zbarOf be k r)) := by
  unfold KKT.solve at h
  simp only [hf, Bool.true_and, Option.some.injEq] at h
  by_cases hmi : st.refMaxIter ≠ 0
  · have hd : decide (st.refMaxIter ≠ 0) = true := by simpa using hmi
    simp only [hd, if_true] at h
    exact ⟨_, h.symm, refineLoop_not_worse be st slv k.k _ _ _ _ hmin _ _ _ _ rfl⟩
  · have hd : decide (st.refMaxIter ≠ 0) = false := by simpa using hmi
    simp only [hd, Bool.false_eq_true, if_false] at h
    exact ⟨_, h.symm, le_refl _⟩

/-- an inner factorisation routine that, whenever it succeeds, solves the system it was given -/
def ExactInner (be : Backend) (inner : Inner K n p m) : Prop :=
  ∀ kb slv, inner kb = some slv → InnerExact be kb slv

/-- **C13, end to end at the KKT-class level.** factorise (no static regularisation) then solve: the step solves the
    full system for the current data and scalings, for every back end and every exact inner factorisation. -/
theorem factor_then_solve_exact (be : Backend) (st : KKTSettings K) (d : Data K n p m) (k : KKT K n p m)
    (r old out : Step K n p m) (inner : Inner K n p m)
    (hcoh : Coherent be d k) (hin : Interior d k) (hinner : ExactInner be inner)
    (h : KKT.solve be st d (KKT.regFactor be st d k false inner) r old false = some out) :
    let back := KKT.multiply d k out old
    (∀ j : Fin n, back.x[j] = r.x[j]) ∧ (∀ t : Fin p, back.y[t] = r.y[t]) ∧ (∀ t : Fin m, back.z[t] = r.z[t]) ∧
    (∀ t : Fin m, back.s[t] = r.s[t]) ∧
    (∀ a : Fin n, back.z_lb[a] = if d.lb.act a then r.z_lb[a] else old.z_lb[a]) ∧
    (∀ a : Fin n, back.s_lb[a] = if d.lb.act a then r.s_lb[a] else old.s_lb[a]) ∧
    (∀ a : Fin n, back.z_ub[a] = if d.ub.act a then r.z_ub[a] else old.z_ub[a]) ∧
    (∀ a : Fin n, back.s_ub[a] = if d.ub.act a then r.s_ub[a] else old.s_ub[a]) := by
  cases hs : inner k.k with
  | none =>
    have : (KKT.regFactor be st d k false inner).fsol = none := by simp [KKT.regFactor, hs]
    unfold KKT.solve at h
    simp [this] at h
  | some slv =>
    have hf : (KKT.regFactor be st d k false inner).fsol = some slv := by simp [KKT.regFactor, hs]
    have hcoh' : Coherent be d (KKT.regFactor be st d k false inner) := ⟨hcoh.xx, hcoh.xy, hcoh.yy, hcoh.xz, hcoh.zz⟩
    have hin' : Interior d (KKT.regFactor be st d k false inner) :=
      ⟨hin.delta, hin.zinv, hin.s, hin.w, hin.zinv_lb, hin.s_lb, hin.w_lb, hin.zinv_ub, hin.s_ub, hin.w_ub⟩
    have res := solve_solves_full_system be st d (KKT.regFactor be st d k false inner) r old out slv hf hcoh' (hinner _ _ hs) hin' h
    exact res

end refinement


/-! ## Non-vacuity: a concrete state (one variable with a lower bound, one equality, one inequality, all-eliminated
    back end, exact division as the inner solve) meets every hypothesis of `solve_solves_full_system` -/

def exD : Data ℚ 1 1 1 :=
  { P := #v[#v[2]], AT := #v[#v[1]], GT := #v[#v[3]], c := #v[0], b := #v[0], h := #v[0],
    lb := { cnt := 1, idx := #v[0], sc := #v[1], val := #v[0] },
    ub := { cnt := 0, idx := #v[0], sc := #v[1], val := #v[0] } }

def exK0 : KKT ℚ 1 1 1 := KKT.init .allElim exD 1 1 #v[0] #v[0] #v[0] #v[0]
def exSlv : SolveFn ℚ 1 1 1 := fun rx _ _ => (#v[rx[0] / exK0.k.xx[0][0]], #v[0], #v[0])
def exK : KKT ℚ 1 1 1 := { exK0 with fsol := some exSlv }

example : Coherent .allElim exD exK ∧ Interior exD exK ∧ InnerExact .allElim exK.k exSlv ∧ exK.fsol = some exSlv := by
  have hc : Coherent .allElim exD exK0 := init_coherent _ _ _ _ _ _ _ _
  refine ⟨⟨hc.xx, hc.xy, hc.yy, hc.xz, hc.zz⟩, ?_, ?_, rfl⟩
  · have hub : ∀ a : Fin 1, ¬ exD.ub.act a := by intro a; simp [BoxSide.act, exD]
    refine ⟨?_, ?_, ?_, ?_, ?_, ?_, ?_, fun a ha => absurd ha (hub a), fun a ha => absurd ha (hub a), fun a ha => absurd ha (hub a)⟩
    · show (1:ℚ) ≠ 0; norm_num
    · intro t; simp [exK, exK0, KKT.init, Vec.const]
    · intro t; simp [exK, exK0, KKT.init, Vec.const]
    · intro t; simp [exK, exK0, KKT.init, Vec.const]; norm_num
    · intro a ha; have h0 : a = 0 := Subsingleton.elim _ _; subst h0; simp [exK, exK0, KKT.init, BoxSide.headUpd, ha]
    · intro a ha; have h0 : a = 0 := Subsingleton.elim _ _; subst h0; simp [exK, exK0, KKT.init, BoxSide.headUpd, ha]
    · intro a ha; have h0 : a = 0 := Subsingleton.elim _ _; subst h0; simp [exK, exK0, KKT.init, BoxSide.headUpd, ha]; norm_num
  · have hx := hc.xx 0 0
    simp [exD, Backend.keepY, Backend.keepZ, boxTerm, Fin.sum_univ_one, BoxSide.act, Data.Psym, Mat.ofFn, Vec.const, BoxSide.headUpd] at hx
    have e1 : exK0.rho = 1 := rfl
    have e2 : exK0.delta = 1 := rfl
    have e3 : exK0.s[0] = 1 := by simp [exK0, KKT.init, Vec.const]
    have e4 : exK0.zinv[0] = 1 := by simp [exK0, KKT.init, Vec.const]
    have e5 : exK0.zinv_lb[0] = 1 := by simp [exK0, KKT.init, BoxSide.headUpd, BoxSide.act, exD]
    have e6 : exK0.s_lb[0] = 1 := by simp [exK0, KKT.init, BoxSide.headUpd, BoxSide.act, exD]
    rw [e1, e2, e3, e4, e5, e6] at hx
    have h9 : exK0.k.xx[0][0] = 9 := by rw [hx]; norm_num
    intro rx ry rz
    refine ⟨fun j => ?_, fun h => by simp [Backend.keepY] at h, fun h => by simp [Backend.keepZ] at h⟩
    have h0 : j = 0 := Subsingleton.elim _ _
    subst h0
    simp only [Backend.keepY, Backend.keepZ, Bool.false_eq_true, if_false, add_zero, Fin.sum_univ_one]
    show exK0.k.xx[0][0] * (rx[0] / exK0.k.xx[0][0]) = rx[0]
    rw [h9]; field_simp

end Piqp.C13
