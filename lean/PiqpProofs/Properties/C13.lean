import PiqpProofs.Basic
import PiqpModel.KKT

namespace Piqp.C13

/-- placeholder obligation while the elimination theorems are being written -/
theorem sumFin_is_sum {K : Type} [AddCommMonoid K] (n : Nat) (f : Fin n → K) :
    sumFin n f = Finset.univ.sum f := sumFin_eq_sum n f

end Piqp.C13
