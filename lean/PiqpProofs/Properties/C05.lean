import PiqpProofs.Basic
import PiqpModel.Api

/-!
# C05 — rejected calls leave the solver unchanged and usable
-/

set_option linter.unusedSectionVars false

namespace Piqp.C05

variable {K : Type}
variable [Add K] [Sub K] [Mul K] [Div K] [Neg K] [Zero K] [One K] [LT K] [DecidableLT K] [LE K] [DecidableLE K]
variable [NatCast K] [BEq K] [Inhabited K]

/-- A call that the interface reports as rejected (wrong dimensions, pattern mismatch, not set up) leaves the whole
    state — data, preconditioner, factorisation caches, last solution, settings — exactly as it was. -/
theorem rejected_is_identity (cs : Consts K) (sqrtF : K → K) (poison : K) (st : ApiState K) (call : Call K) (msg : String)
    (h : (apiStep cs sqrtF poison st call).2 = Outcome.rejected msg) :
    (apiStep cs sqrtF poison st call).1 = st := by
  unfold apiStep at h ⊢
  cases call with
  | settings s => simp at h
  | setup be pk P c A b G hh xlb xub =>
    simp only at h ⊢
    split
    · rfl
    · split
      · rename_i hv hn
        simp only [hv, hn, ↓reduceDIte] at h
        simp at h
      · rfl
  | update P c A b G hh xlb xub reuse =>
    simp only at h ⊢
    split
    · rfl
    · split
      · rfl
      · rename_i _ a hs _ hv
        rw [hs] at h
        simp only [hv] at h
        simp at h
  | solve =>
    simp only at h ⊢
    split
    · rfl
    · rename_i _ a hs
      rw [hs] at h
      simp at h

def isRej : Outcome → Bool
  | .rejected _ => true
  | _ => false

/-- run a call history: final state and the outcome of every call -/
def run (cs : Consts K) (sqrtF : K → K) (poison : K) (st : ApiState K) : List (Call K) → ApiState K × List Outcome
  | [] => (st, [])
  | c :: rest =>
    let r := apiStep cs sqrtF poison st c
    let t := run cs sqrtF poison r.1 rest
    (t.1, r.2 :: t.2)

/-- the same history with every call that would be rejected *never made* -/
def runSkip (cs : Consts K) (sqrtF : K → K) (poison : K) (st : ApiState K) : List (Call K) → ApiState K × List Outcome
  | [] => (st, [])
  | c :: rest =>
    let r := apiStep cs sqrtF poison st c
    if isRej r.2 then runSkip cs sqrtF poison st rest
    else
      let t := runSkip cs sqrtF poison r.1 rest
      (t.1, r.2 :: t.2)

/-- **C05, rejected calls are transparent.** For every call history with rejected calls at any positions: the final state
    and the outcomes (statuses, results inside the state) of all the other calls are exactly those of the history in
    which the rejected calls were never made. -/
theorem rejection_transparent (cs : Consts K) (sqrtF : K → K) (poison : K) (calls : List (Call K)) :
    ∀ st : ApiState K,
      (run cs sqrtF poison st calls).1 = (runSkip cs sqrtF poison st calls).1 ∧
      (run cs sqrtF poison st calls).2.filter (fun o => !isRej o) = (runSkip cs sqrtF poison st calls).2 := by
  induction calls with
  | nil => intro st; exact ⟨rfl, rfl⟩
  | cons c rest ih =>
    intro st
    simp only [run, runSkip]
    cases hr : isRej (apiStep cs sqrtF poison st c).2
    · simp only [Bool.false_eq_true, if_false, List.filter_cons, hr, Bool.not_false, if_true]
      obtain ⟨h1, h2⟩ := ih (apiStep cs sqrtF poison st c).1
      exact ⟨h1, by rw [h2]⟩
    · simp only [if_true, List.filter_cons, hr, Bool.not_true, Bool.false_eq_true, if_false]
      have hid : (apiStep cs sqrtF poison st c).1 = st := by
        cases ho : (apiStep cs sqrtF poison st c).2 with
        | rejected msg => exact rejected_is_identity cs sqrtF poison st c msg ho
        | done => rw [ho] at hr; simp [isRej] at hr
        | status s => rw [ho] at hr; simp [isRej] at hr
      rw [hid]
      exact ih st

end Piqp.C05
