import PiqpProofs.Basic
import PiqpModel.Api
import Mathlib.Tactic.SplitIfs

/-!
# C05 — rejected calls leave the solver unchanged and usable
-/

set_option linter.unusedSectionVars false
set_option linter.unusedSimpArgs false
set_option linter.unusedVariables false
set_option linter.unnecessarySimpa false

namespace Piqp.C05

variable {K : Type}
variable [Add K] [Sub K] [Mul K] [Div K] [Neg K] [Zero K] [One K] [LT K] [DecidableLT K] [LE K] [DecidableLE K]
variable [NatCast K] [BEq K] [Inhabited K]

/-- A call that the interface reports as rejected (wrong dimensions, pattern mismatch, not set up) leaves the whole
    state — data, preconditioner, factorisation caches, last solution, settings — exactly as it was. -/
theorem rejected_is_identity (cs : Consts K) (sqrtF : K → K) (poison : K) (st : ApiState K) (call : Call K) (msg : String)
    (h : (apiStep cs sqrtF poison st call).2 = Outcome.rejected msg) :
    (apiStep cs sqrtF poison st call).1 = st := by
  unfold apiStep at h ⊢
  cases call with
  | settings s => simp at h
  | setup be pk P c A b G hh xlb xub =>
    simp only at h ⊢
    split
    · rfl
    · split
      · rename_i hv hn
        simp only [hv, hn, ↓reduceDIte] at h
        simp at h
      · rfl
  | update P c A b G hh xlb xub reuse =>
    simp only at h ⊢
    split
    · rfl
    · split
      · rfl
      · rename_i _ a hs _ hv
        rw [hs] at h
        simp only [hv] at h
        simp at h
  | solve =>
    simp only at h ⊢
    split
    · rfl
    · rename_i _ a hs
      rw [hs] at h
      simp at h

def isRej : Outcome → Bool
  | .rejected _ => true
  | _ => false

/-- run a call history: final state and the outcome of every call -/
def run (cs : Consts K) (sqrtF : K → K) (poison : K) (st : ApiState K) : List (Call K) → ApiState K × List Outcome
  | [] => (st, [])
  | c :: rest =>
    let r := apiStep cs sqrtF poison st c
    let t := run cs sqrtF poison r.1 rest
    (t.1, r.2 :: t.2)

/-- the same history with every call that would be rejected *never made* -/
def runSkip (cs : Consts K) (sqrtF : K → K) (poison : K) (st : ApiState K) : List (Call K) → ApiState K × List Outcome
  | [] => (st, [])
  | c :: rest =>
    let r := apiStep cs sqrtF poison st c
    if isRej r.2 then runSkip cs sqrtF poison st rest
    else
      let t := runSkip cs sqrtF poison r.1 rest
      (t.1, r.2 :: t.2)

/-- **C05, rejected calls are transparent.** For every call history with rejected calls at any positions: the final state
    and the outcomes (statuses, results inside the state) of all the other calls are exactly those of the history in
    which the rejected calls were never made. -/
theorem rejection_transparent (cs : Consts K) (sqrtF : K → K) (poison : K) (calls : List (Call K)) :
    ∀ st : ApiState K,
      (run cs sqrtF poison st calls).1 = (runSkip cs sqrtF poison st calls).1 ∧
      (run cs sqrtF poison st calls).2.filter (fun o => !isRej o) = (runSkip cs sqrtF poison st calls).2 := by
  induction calls with
  | nil => intro st; exact ⟨rfl, rfl⟩
  | cons c rest ih =>
    intro st
    simp only [run, runSkip]
    cases hr : isRej (apiStep cs sqrtF poison st c).2
    · simp only [Bool.false_eq_true, if_false, List.filter_cons, hr, Bool.not_false, if_true]
      obtain ⟨h1, h2⟩ := ih (apiStep cs sqrtF poison st c).1
      exact ⟨h1, by rw [h2]⟩
    · simp only [if_true, List.filter_cons, hr, Bool.not_true, Bool.false_eq_true, if_false]
      have hid : (apiStep cs sqrtF poison st c).1 = st := by
        cases ho : (apiStep cs sqrtF poison st c).2 with
        | rejected msg => exact rejected_is_identity cs sqrtF poison st c msg ho
        | done => rw [ho] at hr; simp [isRej] at hr
        | status s => rw [ho] at hr; simp [isRej] at hr
      rw [hid]
      exact ih st

/-- the dimension conditions `setup` demands, as a plain predicate of the arguments -/
def SetupDimsOk (P : RawMat K) (c : RawVec K) (A : Option (RawMat K)) (b : Option (RawVec K))
    (G : Option (RawMat K)) (h : Option (RawVec K)) (xlb xub : Option (RawVec K)) : Prop :=
  let n := P.rows
  let p := match A with | some A => A.rows | none => 0
  let m := match G with | some G => G.rows | none => 0
  P.cols = n ∧
  (match A with | some A => A.cols = n | none => True) ∧
  (match G with | some G => G.cols = n | none => True) ∧
  c.data.size = n ∧
  (match b with | some b => b.data.size = p | none => p = 0) ∧
  (match h with | some h => h.data.size = m | none => m = 0) ∧
  (match xlb with | some v => v.data.size = n | none => True) ∧
  (match xub with | some v => v.data.size = n | none => True)

/-- **classification of `setup` arguments is complete**: the validation accepts exactly the dimension-consistent
    argument lists (every wrong size of every argument, a missing `b` with `p > 0`, a missing `h` with `m > 0` is rejected,
    and nothing else is) -/
theorem validateSetup_none_iff (P : RawMat K) (c : RawVec K) (A : Option (RawMat K)) (b : Option (RawVec K))
    (G : Option (RawMat K)) (h : Option (RawVec K)) (xlb xub : Option (RawVec K)) :
    validateSetup P c A b G h xlb xub = none ↔ SetupDimsOk P c A b G h xlb xub := by
  unfold validateSetup SetupDimsOk
  simp only
  constructor
  · intro hv
    split_ifs at hv with h1 h2 h3 h4 h5 h6 h7 h8
    refine ⟨Classical.not_not.mp h1, ?_, ?_, Classical.not_not.mp h4, ?_, ?_, ?_, ?_⟩
    · cases A with
      | none => trivial
      | some A => simpa using h2
    · cases G with
      | none => trivial
      | some G => simpa using h3
    · cases A <;> cases b <;> simpa using h5
    · cases G <;> cases h <;> simpa using h6
    · cases xlb with
      | none => trivial
      | some v => simpa using h7
    · cases xub with
      | none => trivial
      | some v => simpa using h8
  · rintro ⟨h1, h2, h3, h4, h5, h6, h7, h8⟩
    cases A <;> cases G <;> cases b <;> cases h <;> cases xlb <;> cases xub <;> simp_all

/-- on an accepted argument the typed view of a vector is the caller's array, entry for entry (no padding, no truncation) -/
theorem toVec_faithful (v : RawVec K) (k : Nat) (h : v.data.size = k) : (v.toVec k).toArray = v.data := by
  subst h
  apply Array.ext
  · simp [RawVec.toVec]
  · intro i h1 h2
    simp [RawVec.toVec, Array.getD, h2]

/-- `setup` succeeds exactly on dimension-consistent arguments with at least one variable; every other argument list is
    rejected (and, by `rejected_is_identity`, changes nothing) -/
theorem setup_done_iff (cs : Consts K) (sqrtF : K → K) (poison : K) (st : ApiState K) (be : Backend) (pk : PrecKind)
    (P : RawMat K) (c : RawVec K) (A : Option (RawMat K)) (b : Option (RawVec K))
    (G : Option (RawMat K)) (h : Option (RawVec K)) (xlb xub : Option (RawVec K)) :
    (apiStep cs sqrtF poison st (.setup be pk P c A b G h xlb xub)).2 = Outcome.done ↔
      SetupDimsOk P c A b G h xlb xub ∧ 0 < P.rows := by
  rw [← validateSetup_none_iff]
  simp only [apiStep]
  cases hv : validateSetup P c A b G h xlb xub with
  | some msg => simp
  | none =>
    by_cases hn : 0 < P.rows
    · simp [hn]
    · simp [hn]
def matOk (M : Option (RawMat K)) (r c : Nat) : Prop := match M with | none => True | some M => M.rows = r ∧ M.cols = c
def vecOk (v : Option (RawVec K)) (k : Nat) : Prop := match v with | none => True | some v => v.data.size = k

/-- the dimension conditions `update` demands of the arguments that are passed (dense back end) -/
def UpdateDimsOk (a : AnySolver K) (P : Option (RawMat K)) (c : Option (RawVec K))
    (A : Option (RawMat K)) (b : Option (RawVec K)) (G : Option (RawMat K)) (h : Option (RawVec K))
    (xlb xub : Option (RawVec K)) : Prop :=
  matOk P a.n a.n ∧ matOk A a.p a.n ∧ matOk G a.m a.n ∧ vecOk c a.n ∧ vecOk b a.p ∧ vecOk h a.m ∧ vecOk xlb a.n ∧ vecOk xub a.n

theorem orElse_none_iff {α : Type} (x y : Option α) : (x <|> y) = none ↔ x = none ∧ y = none := by
  cases x <;> cases y <;> simp

/-- **classification of `update` arguments is complete (dense back end)**: accepted exactly when every argument that is
    passed has the dimensions of the set-up problem -/
theorem validateUpdate_dense_none_iff (a : AnySolver K) (P : Option (RawMat K)) (c : Option (RawVec K))
    (A : Option (RawMat K)) (b : Option (RawVec K)) (G : Option (RawMat K)) (h : Option (RawVec K))
    (xlb xub : Option (RawVec K)) :
    validateUpdate a false P c A b G h xlb xub = none ↔ UpdateDimsOk a P c A b G h xlb xub := by
  unfold validateUpdate UpdateDimsOk
  simp only [orElse_none_iff]
  refine and_congr ?_ (and_congr ?_ (and_congr ?_ (and_congr ?_ (and_congr ?_ (and_congr ?_ (and_congr ?_ ?_))))))
  · cases P with
    | none => simp [matOk]
    | some P => by_cases h1 : P.rows = a.n <;> by_cases h2 : P.cols = a.n <;> simp [matOk, h1, h2]
  · cases A with
    | none => simp [matOk]
    | some M => by_cases h1 : M.rows = a.p <;> by_cases h2 : M.cols = a.n <;> simp [matOk, h1, h2]
  · cases G with
    | none => simp [matOk]
    | some M => by_cases h1 : M.rows = a.m <;> by_cases h2 : M.cols = a.n <;> simp [matOk, h1, h2]
  · cases c with
    | none => simp [vecOk]
    | some v => by_cases h1 : v.data.size = a.n <;> simp [vecOk, h1]
  · cases b with
    | none => simp [vecOk]
    | some v => by_cases h1 : v.data.size = a.p <;> simp [vecOk, h1]
  · cases h with
    | none => simp [vecOk]
    | some v => by_cases h1 : v.data.size = a.m <;> simp [vecOk, h1]
  · cases xlb with
    | none => simp [vecOk]
    | some v => by_cases h1 : v.data.size = a.n <;> simp [vecOk, h1]
  · cases xub with
    | none => simp [vecOk]
    | some v => by_cases h1 : v.data.size = a.n <;> simp [vecOk, h1]

/-- `update` on a set-up dense solver succeeds exactly on dimension-consistent arguments; any other call is rejected
    (and changes nothing: `rejected_is_identity`) -/
theorem update_done_iff_dense (cs : Consts K) (sqrtF : K → K) (poison : K) (st : ApiState K) (a : AnySolver K)
    (hs : st.sol = some a) (hd : a.s.be.isDense = true) (P : Option (RawMat K)) (c : Option (RawVec K))
    (A : Option (RawMat K)) (b : Option (RawVec K)) (G : Option (RawMat K)) (h : Option (RawVec K))
    (xlb xub : Option (RawVec K)) (reuse : Bool) :
    (apiStep cs sqrtF poison st (.update P c A b G h xlb xub reuse)).2 = Outcome.done ↔ UpdateDimsOk a P c A b G h xlb xub := by
  rw [← validateUpdate_dense_none_iff]
  simp only [apiStep, hs, hd, Bool.not_true]
  cases hv : validateUpdate a false P c A b G h xlb xub with
  | some msg => simp
  | none => simp

/-! ## sparse `update`: the classification is complete as well -/

/-- what a sparse `update` demands of a passed `P`: the set-up dimensions, and in every column the stored upper-triangular pattern
    is a prefix of the column's row indices (the code copies the first entries of each column) -/
def sparsePOk (a : AnySolver K) (P : Option (RawMat K)) : Prop :=
  match P with
  | none => True
  | some P => P.rows = a.n ∧ P.cols = a.n ∧ ∀ j, j < a.n → maskColRows a.maskP a.n j <+: colRows P j

/-- ... of a passed `A` / `G`: the set-up dimensions and exactly the set-up sparsity pattern -/
def sparseMOk (M : Option (RawMat K)) (r c : Nat) (mask : Array Bool) : Prop :=
  match M with
  | none => True
  | some M => M.rows = r ∧ M.cols = c ∧ M.nnz = (mask.filter id).size ∧ M.mask = mask

def UpdateSparseOk (a : AnySolver K) (P : Option (RawMat K)) (c : Option (RawVec K))
    (A : Option (RawMat K)) (b : Option (RawVec K)) (G : Option (RawMat K)) (h : Option (RawVec K))
    (xlb xub : Option (RawVec K)) : Prop :=
  sparsePOk a P ∧ sparseMOk A a.p a.n a.maskA ∧ sparseMOk G a.m a.n a.maskG ∧
  vecOk c a.n ∧ vecOk b a.p ∧ vecOk h a.m ∧ vecOk xlb a.n ∧ vecOk xub a.n

theorem prefix_iff_take (w h : List Nat) : w <+: h ↔ ¬ (h.length < w.length) ∧ ¬ ((h.take w.length != w) = true) := by
  constructor
  · intro hp
    refine ⟨Nat.not_lt.mpr hp.length_le, ?_⟩
    have := List.prefix_iff_eq_take.mp hp
    simp [← this]
  · intro ⟨_, h2⟩
    have : h.take w.length = w := by simpa using h2
    rw [← this]
    exact List.take_prefix _ _

theorem chkP_sparse_none_iff (n : Nat) (maskP : Array Bool) (P : RawMat K) :
    (match (List.range n).find? (fun j => decide ((colRows P j).length < (maskColRows maskP n j).length)) with
      | some _ => some "P nonzeros missmatch"
      | none =>
        match (List.range n).find? (fun j => (colRows P j).take (maskColRows maskP n j).length != maskColRows maskP n j) with
        | some _ => some "P sparsity pattern missmatch"
        | none => (none : Option String)) = none ↔ ∀ j, j < n → maskColRows maskP n j <+: colRows P j := by
  constructor
  · intro h j hj
    rw [prefix_iff_take]
    cases h1 : (List.range n).find? (fun j => decide ((colRows P j).length < (maskColRows maskP n j).length)) with
    | some x => rw [h1] at h; cases h
    | none =>
      rw [h1] at h
      cases h2 : (List.range n).find? (fun j => (colRows P j).take (maskColRows maskP n j).length != maskColRows maskP n j) with
      | some x => rw [h2] at h; cases h
      | none =>
        rw [List.find?_eq_none] at h1 h2
        have a1 := h1 j (List.mem_range.mpr hj)
        have a2 := h2 j (List.mem_range.mpr hj)
        exact ⟨by simpa using a1, a2⟩
  · intro h
    have h1 : (List.range n).find? (fun j => decide ((colRows P j).length < (maskColRows maskP n j).length)) = none := by
      rw [List.find?_eq_none]
      intro j hj
      have := ((prefix_iff_take _ _).mp (h j (List.mem_range.mp hj))).1
      simpa using this
    have h2 : (List.range n).find? (fun j => (colRows P j).take (maskColRows maskP n j).length != maskColRows maskP n j) = none := by
      rw [List.find?_eq_none]
      intro j hj
      exact ((prefix_iff_take _ _).mp (h j (List.mem_range.mp hj))).2
    rw [h1, h2]

/-- **classification of `update` arguments is complete (sparse back ends)**: accepted exactly when every argument that is passed has
    the dimensions of the set-up problem, `A`/`G` have exactly the set-up pattern, and in every column of `P` the stored
    upper-triangular pattern is a prefix of the column's rows -/
theorem validateUpdate_sparse_none_iff (a : AnySolver K) (P : Option (RawMat K)) (c : Option (RawVec K))
    (A : Option (RawMat K)) (b : Option (RawVec K)) (G : Option (RawMat K)) (h : Option (RawVec K))
    (xlb xub : Option (RawVec K)) :
    validateUpdate a true P c A b G h xlb xub = none ↔ UpdateSparseOk a P c A b G h xlb xub := by
  unfold validateUpdate UpdateSparseOk
  simp only [orElse_none_iff]
  refine and_congr ?_ (and_congr ?_ (and_congr ?_ (and_congr ?_ (and_congr ?_ (and_congr ?_ (and_congr ?_ ?_))))))
  · cases P with
    | none => simp [sparsePOk]
    | some P =>
      by_cases h1 : P.rows = a.n
      · by_cases h2 : P.cols = a.n
        · simp only [sparsePOk, h1, h2, ne_eq, not_true_eq_false, decide_false, Bool.or_self, Bool.false_eq_true, if_false, if_true, true_and]
          exact chkP_sparse_none_iff a.n a.maskP P
        · simp [sparsePOk, h1, h2]
      · simp [sparsePOk, h1]
  · cases A with
    | none => simp [sparseMOk]
    | some M =>
      by_cases h1 : M.rows = a.p <;> by_cases h2 : M.cols = a.n <;> by_cases h3 : M.nnz = (a.maskA.filter id).size <;>
        by_cases h4 : M.mask = a.maskA <;> simp [sparseMOk, h1, h2, h3, h4]
  · cases G with
    | none => simp [sparseMOk]
    | some M =>
      by_cases h1 : M.rows = a.m <;> by_cases h2 : M.cols = a.n <;> by_cases h3 : M.nnz = (a.maskG.filter id).size <;>
        by_cases h4 : M.mask = a.maskG <;> simp [sparseMOk, h1, h2, h3, h4]
  · cases c with
    | none => simp [vecOk]
    | some v => by_cases h1 : v.data.size = a.n <;> simp [vecOk, h1]
  · cases b with
    | none => simp [vecOk]
    | some v => by_cases h1 : v.data.size = a.p <;> simp [vecOk, h1]
  · cases h with
    | none => simp [vecOk]
    | some v => by_cases h1 : v.data.size = a.m <;> simp [vecOk, h1]
  · cases xlb with
    | none => simp [vecOk]
    | some v => by_cases h1 : v.data.size = a.n <;> simp [vecOk, h1]
  · cases xub with
    | none => simp [vecOk]
    | some v => by_cases h1 : v.data.size = a.n <;> simp [vecOk, h1]

/-- `update` on a set-up sparse solver succeeds exactly on arguments that fit the set-up dimensions and patterns; any other call is
    rejected (and changes nothing: `rejected_is_identity`) -/
theorem update_done_iff_sparse (cs : Consts K) (sqrtF : K → K) (poison : K) (st : ApiState K) (a : AnySolver K)
    (hs : st.sol = some a) (hd : a.s.be.isDense = false) (P : Option (RawMat K)) (c : Option (RawVec K))
    (A : Option (RawMat K)) (b : Option (RawVec K)) (G : Option (RawMat K)) (h : Option (RawVec K))
    (xlb xub : Option (RawVec K)) (reuse : Bool) :
    (apiStep cs sqrtF poison st (.update P c A b G h xlb xub reuse)).2 = Outcome.done ↔ UpdateSparseOk a P c A b G h xlb xub := by
  rw [← validateUpdate_sparse_none_iff]
  simp only [apiStep, hs, hd, Bool.not_false]
  cases hv : validateUpdate a true P c A b G h xlb xub with
  | some msg => simp
  | none => simp
end Piqp.C05
