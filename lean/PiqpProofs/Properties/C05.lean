import PiqpProofs.Basic
import PiqpModel.Api

/-!
# C05 — rejected calls leave the solver unchanged and usable
-/

namespace Piqp.C05

variable {K : Type}
variable [Add K] [Sub K] [Mul K] [Div K] [Neg K] [Zero K] [One K] [LT K] [DecidableLT K] [LE K] [DecidableLE K]
variable [NatCast K] [BEq K] [Inhabited K]

/-- A call that the interface reports as rejected (wrong dimensions, pattern mismatch, not set up) leaves the whole
    state — data, preconditioner, factorisation caches, last solution, settings — exactly as it was. -/
theorem rejected_is_identity (cs : Consts K) (sqrtF : K → K) (poison : K) (st : ApiState K) (call : Call K) (msg : String)
    (h : (apiStep cs sqrtF poison st call).2 = Outcome.rejected msg) :
    (apiStep cs sqrtF poison st call).1 = st := by
  unfold apiStep at h ⊢
  cases call with
  | settings s => simp at h
  | setup be pk P c A b G hh xlb xub =>
    simp only at h ⊢
    split
    · rfl
    · split
      · rename_i hv hn
        simp only [hv, hn, ↓reduceDIte] at h
        simp at h
      · rfl
  | update P c A b G hh xlb xub reuse =>
    simp only at h ⊢
    split
    · rfl
    · split
      · rfl
      · rename_i _ a hs _ hv
        rw [hs] at h
        simp only [hv] at h
        simp at h
  | solve =>
    simp only at h ⊢
    split
    · rfl
    · rename_i _ a hs
      rw [hs] at h
      simp at h

end Piqp.C05
