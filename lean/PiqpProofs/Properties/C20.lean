/-
C20 — "Saved problem files load back identically".

Theorems about the model `PiqpModel/IO.lean` of io_utils.hpp / eigen_matio.hpp over an abstract MAT store
(name ↦ variable; libmatio is the trusted base, compared bit for bit by harness/hio.cpp ↔ IODriver.lean).
Values are opaque tokens, so the statements cover ±inf, denormals, signed zeros and NaN payloads.
-/
import PiqpModel.IO

namespace Piqp.C20
open Piqp.IO

variable {α : Type}

/-! ### the store: `write` replaces, `read` returns the latest -/

theorem read_delete_same (s : Store α) (n : String) : (s.delete n).read n = none := by
  induction s with
  | nil => rfl
  | cons e rest ih =>
    obtain ⟨k, v⟩ := e
    by_cases hk : k = n <;> simp [Store.delete, Store.read, hk, ih]

theorem read_delete_ne (s : Store α) (n n' : String) (h : n' ≠ n) : (s.delete n).read n' = s.read n' := by
  induction s with
  | nil => rfl
  | cons e rest ih =>
    obtain ⟨k, v⟩ := e
    by_cases hk : k = n
    · subst hk
      have hk' : ¬ k = n' := fun e => h e.symm
      simp [Store.delete, Store.read, hk', ih]
    · by_cases hk' : k = n'
      · subst hk'
        simp [Store.delete, Store.read, hk]
      · simp [Store.delete, Store.read, hk, hk', ih]

theorem read_append (s t : Store α) (n : String) :
    Store.read (s ++ t) n = (s.read n).or (t.read n) := by
  induction s with
  | nil => simp [Store.read]
  | cons e rest ih =>
    obtain ⟨k, v⟩ := e
    by_cases hk : k = n <;> simp [Store.read, hk, ih]

theorem read_write_same (s : Store α) (n : String) (v : MatVar α) : (s.write n v).read n = some v := by
  simp [Store.write, read_append, read_delete_same, Store.read]

theorem read_write_ne (s : Store α) (n n' : String) (v : MatVar α) (h : n' ≠ n) :
    (s.write n v).read n' = s.read n' := by
  have h' : ¬ n = n' := fun e => h e.symm
  simp [Store.write, read_append, read_delete_ne s n n' h, Store.read, h']

/-- reading from a file that was never written: every lookup misses -/
theorem read_empty (n : String) : (emptyStore : Store α).read n = none := rfl

/-! ### Eigen's sparse assignment is the identity on valid compressed-column arrays -/

theorem mono_head_le_last : ∀ (rest : List Nat) (a : Nat), monotone (a :: rest) = true → a ≤ rest.getLastD a
  | [], a, _ => by simp
  | b :: r, a, h => by
    simp only [monotone, Bool.and_eq_true, decide_eq_true_eq] at h
    have := mono_head_le_last r b h.2
    simp only [List.getLastD_cons]
    omega

theorem flatten_colSlices {β : Type} (xs : List β) : ∀ (rest : List Nat) (a : Nat),
    monotone (a :: rest) = true →
    (colSlices xs (a :: rest)).flatten = (xs.drop a).take (rest.getLastD a - a)
  | [], a, _ => by simp [colSlices]
  | b :: r, a, h => by
    simp only [monotone, Bool.and_eq_true, decide_eq_true_eq] at h
    have hl := mono_head_le_last r b h.2
    have ih := flatten_colSlices xs r b h.2
    simp only [colSlices, List.flatten_cons, ih, List.getLastD_cons]
    have e1 : r.getLastD b - a = (b - a) + (r.getLastD b - b) := by omega
    have e2 : a + (b - a) = b := by omega
    rw [e1, List.take_add, List.drop_drop, e2]

theorem prefixSums_colSlices {β : Type} (xs : List β) : ∀ (rest : List Nat) (a : Nat),
    monotone (a :: rest) = true → rest.getLastD a ≤ xs.length →
    prefixSums a ((colSlices xs (a :: rest)).map List.length) = a :: rest
  | [], a, _, _ => by simp [colSlices, prefixSums]
  | b :: r, a, h, hl => by
    simp only [monotone, Bool.and_eq_true, decide_eq_true_eq] at h
    simp only [List.getLastD_cons] at hl
    have hb := mono_head_le_last r b h.2
    have ih := prefixSums_colSlices xs r b h.2 hl
    have e : a + min (b - a) (xs.length - a) = b := by omega
    simp only [colSlices, List.map_cons, prefixSums, List.length_take, List.length_drop, e, ih]

theorem getD_length_cons : ∀ (rest : List Nat) (a d : Nat), (a :: rest).getD rest.length d = rest.getLastD a
  | [], a, d => by simp
  | b :: r, a, d => by
    have ih := getD_length_cons r b d
    rw [List.getLastD_cons, ← ih, List.length_cons, List.getD_cons_succ]

/-- `dst = matrix` (and, on the way back, `matrix = map.cast<Scalar>()`) reproduces jc, ir and the values exactly -/
theorem eigenAssign_wf (M : SMat α) (h : M.WF) : eigenAssign M = M := by
  obtain ⟨rows, cols, jc, ir, data⟩ := M
  obtain ⟨hlen, hhead, hmono, hlast, hdata⟩ := h
  simp only at hlen hhead hmono hlast hdata
  cases jc with
  | nil => simp at hhead
  | cons a rest =>
    simp only [List.head?_cons, Option.some.injEq] at hhead
    subst hhead
    simp only [List.getLastD_cons] at hlast
    have htake : List.take (cols + 1) (0 :: rest) = 0 :: rest := List.take_of_length_le (by omega)
    have h1 := flatten_colSlices ir rest 0 hmono
    have h2 := flatten_colSlices data rest 0 hmono
    have h3 := prefixSums_colSlices ir rest 0 hmono (by omega)
    simp only [eigenAssign, htake, h1, h2, h3, hlast, hdata, List.drop_zero, Nat.sub_zero]
    have t1 : List.take ir.length ir = ir := List.take_of_length_le (Nat.le_refl _)
    have t2 : List.take data.length data = data := List.take_of_length_le (Nat.le_refl _)
    rw [← hdata, t1, hdata, t2]

/-- what `write_mat` hands to `Mat_VarCreate` for a valid sparse matrix: its own arrays, untouched -/
theorem sparseVarOf_wf (M : SMat α) (h : M.WF) :
    sparseVarOf M = .sparse M.rows M.cols M.jc M.ir M.data := by
  have hE := eigenAssign_wf M h
  obtain ⟨rows, cols, jc, ir, data⟩ := M
  obtain ⟨hlen, hhead, hmono, hlast, hdata⟩ := h
  simp only at hlen hhead hmono hlast hdata
  cases jc with
  | nil => simp at hhead
  | cons a rest =>
    simp only [List.head?_cons, Option.some.injEq] at hhead
    subst hhead
    simp only [List.getLastD_cons] at hlast
    have hrl : rest.length = cols := by simpa using hlen
    have hnz : (⟨rows, cols, 0 :: rest, ir, data⟩ : SMat α).nonZeros = ir.length := by
      simp only [SMat.nonZeros]
      rw [← hrl, getD_length_cons rest 0 0, hlast]
      simp
    have htake : List.take (cols + 1) (0 :: rest) = 0 :: rest := List.take_of_length_le (by omega)
    have t1 : List.take ir.length ir = ir := List.take_of_length_le (Nat.le_refl _)
    have t2 : List.take ir.length data = data := List.take_of_length_le (by omega)
    simp only [sparseVarOf, hE, hnz, htake, t1, t2]

/-- **sparse_guard_holds_for_saved**: the reader's guard `nir == ndata && njc == dims[1]+1` accepts every variable the
sparse writer produces from a valid compressed-column matrix (including nnz = 0 and empty columns). -/
theorem sparse_guard_holds_for_saved (M : SMat α) (h : M.WF) : sparseGuard (sparseVarOf M) = true := by
  rw [sparseVarOf_wf M h]
  obtain ⟨hlen, _, _, _, hdata⟩ := h
  simp [sparseGuard, hlen, hdata]

/-! ### single-variable round trips -/

theorem readDMat_write_same (s : Store α) (n : String) (M cur : DMat α) (h : M.WF) :
    readDMat (writeDMat s n M) n cur = some (M, []) := by
  obtain ⟨r, c, d⟩ := M
  have ht : List.take (r * c) d = d := List.take_of_length_le (by simp only [DMat.WF] at h; omega)
  simp [readDMat, writeDMat, read_write_same, ht]

theorem readDVec_write_same (s : Store α) (n : String) (v cur : DVec α) :
    readDVec (writeDVec s n v) n cur = some (v, []) := by
  simp [readDVec, writeDVec, read_write_same]

theorem readSMat_write_same (s : Store α) (n : String) (M cur : SMat α) (h : M.WF) :
    readSMat (writeSMat s n M) n cur = some (M, []) := by
  have hg := sparse_guard_holds_for_saved M h
  rw [sparseVarOf_wf M h] at hg
  have hE : eigenAssign (⟨M.rows, M.cols, M.jc, M.ir, M.data⟩ : SMat α) = M := eigenAssign_wf M h
  simp only [readSMat, writeSMat, read_write_same, sparseVarOf_wf M h, hg, hE]
  rfl

theorem readDMat_writeDMat_ne (s : Store α) (n n' : String) (M cur : DMat α) (h : n' ≠ n) :
    readDMat (writeDMat s n M) n' cur = readDMat s n' cur := by
  simp [readDMat, writeDMat, read_write_ne _ _ _ _ h]

theorem readDMat_writeDVec_ne (s : Store α) (n n' : String) (v : DVec α) (cur : DMat α) (h : n' ≠ n) :
    readDMat (writeDVec s n v) n' cur = readDMat s n' cur := by
  simp [readDMat, writeDVec, read_write_ne _ _ _ _ h]

theorem readDVec_writeDMat_ne (s : Store α) (n n' : String) (M : DMat α) (cur : DVec α) (h : n' ≠ n) :
    readDVec (writeDMat s n M) n' cur = readDVec s n' cur := by
  simp [readDVec, writeDMat, read_write_ne _ _ _ _ h]

theorem readDVec_writeDVec_ne (s : Store α) (n n' : String) (v cur : DVec α) (h : n' ≠ n) :
    readDVec (writeDVec s n v) n' cur = readDVec s n' cur := by
  simp [readDVec, writeDVec, read_write_ne _ _ _ _ h]

theorem readSMat_writeSMat_ne (s : Store α) (n n' : String) (M cur : SMat α) (h : n' ≠ n) :
    readSMat (writeSMat s n M) n' cur = readSMat s n' cur := by
  simp [readSMat, writeSMat, read_write_ne _ _ _ _ h]

theorem readSMat_writeDVec_ne (s : Store α) (n n' : String) (v : DVec α) (cur : SMat α) (h : n' ≠ n) :
    readSMat (writeDVec s n v) n' cur = readSMat s n' cur := by
  simp [readSMat, writeDVec, read_write_ne _ _ _ _ h]

theorem readDVec_writeSMat_ne (s : Store α) (n n' : String) (M : SMat α) (cur : DVec α) (h : n' ≠ n) :
    readDVec (writeSMat s n M) n' cur = readDVec s n' cur := by
  simp [readDVec, writeSMat, read_write_ne _ _ _ _ h]

/-! ### whole-model round trips, for any assignment of pairwise distinct names -/

theorem load_save_dense_with (f : FieldNames) (hf : f.toList.Nodup) (m : DenseModel α) (hm : m.WF)
    (s : Store α) : loadDenseWith f (saveDenseWith f m s) = some (m, []) := by
  obtain ⟨_, _, _, _, _, _, _, _, _, hP, hA, hG⟩ := hm
  simp only [FieldNames.toList, List.nodup_cons, List.mem_cons, List.not_mem_nil, not_or, or_false] at hf
  obtain ⟨⟨h01, h02, h03, h04, h05, h06, h07⟩, ⟨h12, h13, h14, h15, h16, h17⟩, ⟨h23, h24, h25, h26, h27⟩,
    ⟨h34, h35, h36, h37⟩, ⟨h45, h46, h47⟩, ⟨h56, h57⟩, h67, _⟩ := hf
  simp [loadDenseWith, saveDenseWith, readDMat_write_same, readDVec_write_same, readDMat_writeDMat_ne,
    readDMat_writeDVec_ne, readDVec_writeDMat_ne, readDVec_writeDVec_ne, *]

theorem load_save_sparse_with (f : FieldNames) (hf : f.toList.Nodup) (m : SparseModel α) (hm : m.WF)
    (s : Store α) : loadSparseWith f (saveSparseWith f m s) = some (m, []) := by
  obtain ⟨_, _, _, _, _, _, _, _, _, hP, hA, hG⟩ := hm
  simp only [FieldNames.toList, List.nodup_cons, List.mem_cons, List.not_mem_nil, not_or, or_false] at hf
  obtain ⟨⟨h01, h02, h03, h04, h05, h06, h07⟩, ⟨h12, h13, h14, h15, h16, h17⟩, ⟨h23, h24, h25, h26, h27⟩,
    ⟨h34, h35, h36, h37⟩, ⟨h45, h46, h47⟩, ⟨h56, h57⟩, h67, _⟩ := hf
  simp [loadSparseWith, saveSparseWith, readSMat_write_same, readDVec_write_same, readSMat_writeSMat_ne,
    readSMat_writeDVec_ne, readDVec_writeSMat_ne, readDVec_writeDVec_ne, *]

/-! ### the registered statements -/

/-- **field_lists_agree**: each `load_*` reads exactly the names its `save_*` writes, member by member and in the same
order, dense and sparse use the same file layout, and the eight names are pairwise distinct (no field overwrites
another one in the store). -/
theorem field_lists_agree :
    saveDenseNames = loadDenseNames ∧ saveSparseNames = loadSparseNames ∧ saveDenseNames = saveSparseNames ∧
    saveDenseNames.toList.Nodup ∧ saveDenseNames.toList = ["P", "c", "A", "b", "G", "h", "x_lb", "x_ub"] := by
  decide

/-- **load_save_dense_any_store**: saving into a file that already holds arbitrary variables (stale fields of another
model, other kinds, rejected variables) and loading returns the saved model, with no diagnostic printed. -/
theorem load_save_dense_any_store (m : DenseModel α) (hm : m.WF) (s : Store α) :
    loadDenseFull (saveDense m s) = some (m, []) := by
  have hn : loadDenseNames = saveDenseNames := field_lists_agree.1.symm
  unfold loadDenseFull saveDense
  rw [hn]
  exact load_save_dense_with saveDenseNames field_lists_agree.2.2.2.1 m hm s

/-- **load_save_sparse_any_store** -/
theorem load_save_sparse_any_store (m : SparseModel α) (hm : m.WF) (s : Store α) :
    loadSparseFull (saveSparse m s) = some (m, []) := by
  have hn : loadSparseNames = saveSparseNames := field_lists_agree.2.1.symm
  have hd : saveSparseNames.toList.Nodup := field_lists_agree.2.2.1 ▸ field_lists_agree.2.2.2.1
  unfold loadSparseFull saveSparse
  rw [hn]
  exact load_save_sparse_with saveSparseNames hd m hm s

/-- **load_save_dense**: for every well-formed dense model (n ≥ 1, p ≥ 0, m ≥ 0, any tokens),
`load_dense_model(save_dense_model(m))` returns `m` field by field, token by token. -/
theorem load_save_dense (m : DenseModel α) (hm : m.WF) : loadDense (saveDense m emptyStore) = some m := by
  simp [loadDense, load_save_dense_any_store m hm]

/-- **load_save_sparse**: for every well-formed sparse model (valid compressed-column arrays incl. empty columns,
explicit zeros, nnz = 0, 0-row blocks), `load_sparse_model(save_sparse_model(m))` returns `m`: dims, jc, ir and
values identical. -/
theorem load_save_sparse (m : SparseModel α) (hm : m.WF) : loadSparse (saveSparse m emptyStore) = some m := by
  simp [loadSparse, load_save_sparse_any_store m hm]

/-- the guard also holds for the three sparse variables as they sit in the saved store -/
theorem sparse_guard_holds_in_saved_store (m : SparseModel α) (hm : m.WF) (s : Store α) :
    ∀ n ∈ [saveSparseNames.P, saveSparseNames.A, saveSparseNames.G],
      ∃ v, (saveSparse m s).read n = some v ∧ sparseGuard v = true := by
  obtain ⟨_, _, _, _, _, _, _, _, _, hP, hA, hG⟩ := hm
  intro n hn
  simp only [List.mem_cons, List.not_mem_nil, or_false] at hn
  rcases hn with rfl | rfl | rfl
  · refine ⟨sparseVarOf m.P, ?_, sparse_guard_holds_for_saved _ hP⟩
    simp [saveSparse, saveSparseWith, saveSparseNames, writeDVec, writeSMat, read_write_same, read_write_ne]
  · refine ⟨sparseVarOf m.A, ?_, sparse_guard_holds_for_saved _ hA⟩
    simp [saveSparse, saveSparseWith, saveSparseNames, writeDVec, writeSMat, read_write_same, read_write_ne]
  · refine ⟨sparseVarOf m.G, ?_, sparse_guard_holds_for_saved _ hG⟩
    simp [saveSparse, saveSparseWith, saveSparseNames, writeDVec, writeSMat, read_write_same, read_write_ne]

/-- loading a file that holds none of the fields does not fail: every `read_mat` returns −1 with a message and the
model is built from the default-constructed (0×0 / empty) targets — the behaviour the harness observes on a fresh file -/
theorem load_dense_empty_store :
    loadDenseFull (emptyStore : Store α) =
      some (⟨DMat.empty, [], DMat.empty, [], DMat.empty, [], [], []⟩,
        loadDenseNames.toList.map msgMissing) := by
  simp [loadDenseFull, loadDenseWith, readDMat, readDVec, read_empty, FieldNames.toList, loadDenseNames]

/-! ### non-vacuity: concrete non-trivial models meet the hypotheses (tokens are IEEE-754 bit patterns) -/

/-- n = 2, p = 0 (a 0×2 block), m = 1, bounds −inf / +inf, a −0.0, the smallest denormal and a NaN payload -/
def exDense : DenseModel UInt64 :=
  { P := ⟨2, 2, [0x3ff0000000000000, 0x8000000000000000, 0x0000000000000001, 0x7ff8000000000001]⟩,
    c := [0x4000000000000000, 0xc000000000000000],
    A := ⟨0, 2, []⟩, b := [],
    G := ⟨1, 2, [0x0000000000000000, 0x3ff0000000000000]⟩, h := [0x7ff0000000000000],
    x_lb := [0xfff0000000000000, 0x8000000000000000],
    x_ub := [0x7ff0000000000000, 0x7fefffffffffffff] }

example : exDense.WF := by decide
example : loadDense (saveDense exDense emptyStore) = some exDense := load_save_dense exDense (by decide)

/-- n = 3: P with an empty middle column and an explicit zero, A = 0×3 with nnz = 0, G = 2×3 with two empty columns -/
def exSparse : SparseModel UInt64 :=
  { P := ⟨3, 3, [0, 2, 2, 3], [0, 2, 1], [0x3ff0000000000000, 0x0000000000000000, 0x8000000000000000]⟩,
    c := [0x0000000000000001, 0x7fefffffffffffff, 0xbff0000000000000],
    A := ⟨0, 3, [0, 0, 0, 0], [], []⟩, b := [],
    G := ⟨2, 3, [0, 0, 2, 2], [0, 1], [0x4000000000000000, 0xfff0000000000000]⟩,
    h := [0x7ff0000000000000, 0x8000000000000000],
    x_lb := [0xfff0000000000000, 0xfff0000000000000, 0x0000000000000000],
    x_ub := [0x7ff0000000000000, 0x3ff0000000000000, 0x7ff0000000000000] }

example : exSparse.WF := by decide
example : exSparse.P.Canonical ∧ exSparse.A.Canonical ∧ exSparse.G.Canonical := by decide
example : loadSparse (saveSparse exSparse emptyStore) = some exSparse := load_save_sparse exSparse (by decide)
example : sparseGuard (sparseVarOf exSparse.A) = true := sparse_guard_holds_for_saved _ (by decide)

/-- the hypotheses are not decoration: an outer index array that does not end at nnz is rejected by `WF`,
and for it the round trip really loses data in the model -/
def exBad : SMat UInt64 := ⟨1, 1, [0, 1], [0, 0], [1, 2]⟩
example : ¬ exBad.WF := by decide
example : eigenAssign exBad ≠ exBad := by decide

end Piqp.C20
