import PiqpModel.Scalar
import Mathlib.Algebra.BigOperators.Fin
import Mathlib.Algebra.Order.Field.Basic

namespace Piqp
open Finset

theorem sumFin_eq_sum {K : Type} [AddCommMonoid K] (n : Nat) (f : Fin n → K) :
    sumFin n f = ∑ i, f i := by
  induction n with
  | zero => simp [sumFin]
  | succ n ih => rw [sumFin, ih, Fin.sum_univ_castSucc]

end Piqp
