import PiqpModel.Api
import Mathlib.Tactic.SplitIfs

/-!
# Garbage independence (C07): helper lemmas

Relational ("two-run") reasoning about the model: two executions that differ only in the content of never-initialised
buffer slots (`poison`) produce equal observable results.  This file has the building blocks: head-equality of buffers,
congruence of the head-only kernels, and the generic two-run lemma for the main loop `loopG` and the retry loop `initLoopG`.
-/
set_option linter.unusedSectionVars false
set_option linter.unusedSimpArgs false
set_option linter.unusedVariables false
namespace Piqp.C07
variable {K : Type}
variable [Add K] [Sub K] [Mul K] [Div K] [Neg K] [Zero K] [One K] [LT K] [DecidableLT K] [LE K] [DecidableLE K]
variable [NatCast K] [BEq K] [Inhabited K]
variable {n p m : Nat}

/-- two buffers agree on their first `cnt` slots (the slots the solver treats as live) -/
def HeadEq (cnt : Nat) (a b : Vec K n) : Prop := ∀ i : Fin n, i.val < cnt → a[i] = b[i]

theorem HeadEq.rfl' (cnt : Nat) (a : Vec K n) : HeadEq cnt a a := fun _ _ => rfl
theorem HeadEq.of_eq {cnt : Nat} {a b : Vec K n} (h : a = b) : HeadEq cnt a b := h ▸ HeadEq.rfl' cnt a

theorem ofFn_get' {α : Type} {k : Nat} (f : Fin k → α) (i : Fin k) : (Vector.ofFn f)[i] = f i := by
  simp [Fin.getElem_fin]

theorem maxFinHead_congr (init : K) (cnt : Nat) : ∀ (k : Nat) (f g : Fin k → K), (∀ i : Fin k, i.val < cnt → f i = g i) →
    maxFinHead init cnt k f = maxFinHead init cnt k g
  | 0, _, _, _ => rfl
  | k+1, f, g, h => by
    simp only [maxFinHead]
    rw [maxFinHead_congr init cnt k _ _ (fun i hi => h i.castSucc hi)]
    split
    · rename_i hk
      rw [h (Fin.last k) hk]
    · rfl

theorem dotHead_congr {cnt : Nat} {a a' b b' : Vec K n} (h : HeadEq cnt a a') (h2 : HeadEq cnt b b') :
    dotHead cnt a b = dotHead cnt a' b' := by
  unfold dotHead
  congr 1; funext i
  split
  · rename_i hi; rw [h i hi, h2 i hi]
  · rfl

theorem sumHead_congr {cnt : Nat} {a a' : Vec K n} (h : HeadEq cnt a a') : sumHead cnt a = sumHead cnt a' := by
  unfold sumHead
  congr 1; funext i
  split
  · rename_i hi; rw [h i hi]
  · rfl

theorem headInfNorm_congr {cnt : Nat} {a a' : Vec K n} (h : HeadEq cnt a a') :
    Vec.headInfNorm cnt a = Vec.headInfNorm cnt a' := by
  unfold Vec.headInfNorm
  split
  · rename_i hc
    have h0 : a[0]'hc.1 = a'[0]'hc.1 := h ⟨0, hc.1⟩ hc.2
    simp only [h0]
    congr 1; funext i
    split
    · rfl
    · rename_i hi
      have : i.val < cnt := by omega
      rw [h i this]
  · rfl

theorem headMap_headEq {cnt c2 : Nat} {a a' : Vec K n} {f g : Fin n → K} (h : HeadEq cnt a a')
    (hf : ∀ i : Fin n, i.val < cnt → i.val < c2 → f i = g i) : HeadEq cnt (headMap c2 a f) (headMap c2 a' g) := by
  intro i hi
  simp only [headMap, ofFn_get']
  split
  · rename_i h2; exact hf i hi h2
  · exact h i hi

theorem headMap_congr {c2 : Nat} {a : Vec K n} {f g : Fin n → K}
    (hf : ∀ i : Fin n, i.val < c2 → f i = g i) : headMap c2 a f = headMap c2 a g := by
  unfold headMap
  congr 1; funext i
  split
  · rename_i h2; exact hf i h2
  · rfl

theorem headUpd_headEq {cnt : Nat} (b : BoxSide K n) {a a' : Vec K n} {f g : Fin n → K} (h : HeadEq cnt a a')
    (hf : ∀ i : Fin n, i.val < cnt → i.val < b.cnt → f i = g i) : HeadEq cnt (b.headUpd a f) (b.headUpd a' g) := by
  intro i hi
  simp only [BoxSide.headUpd, ofFn_get']
  by_cases h2 : b.act i
  · rw [if_pos h2, if_pos h2]; exact hf i hi h2
  · rw [if_neg h2, if_neg h2]; exact h i hi

theorem headUpd_congr (b : BoxSide K n) {a : Vec K n} {f g : Fin n → K}
    (hf : ∀ i : Fin n, i.val < b.cnt → f i = g i) : b.headUpd a f = b.headUpd a g := by
  unfold BoxSide.headUpd
  congr 1; funext i
  by_cases h2 : b.act i
  · rw [if_pos h2, if_pos h2]; exact hf i h2
  · rw [if_neg h2, if_neg h2]

theorem scatter_congr (b : BoxSide K n) {f g : Fin n → K}
    (hf : ∀ i : Fin n, i.val < b.cnt → f i = g i) : b.scatter f = b.scatter g := by
  unfold BoxSide.scatter
  congr 1; funext j
  congr 1; funext i
  by_cases h2 : b.act i ∧ b.idx[i] = j
  · rw [if_pos h2, if_pos h2]; rw [hf i h2.1]
  · rw [if_neg h2, if_neg h2]

theorem minHead_congr {cnt : Nat} (init : K) {a a' : Vec K n} (h : HeadEq cnt a a') : minHead init cnt a = minHead init cnt a' := by
  unfold minHead
  congr 1; funext i
  split
  · rename_i hi; rw [h i hi]
  · rfl

/-- two runs of the loop's numeric operations on related states give related states and **equal** scalars/flags.
    `R0`: relation at loop entry before the first head; `R1`: after the head (non-regularised residuals valid);
    `R2`: after `reg`; `Rf`: after a successful factorisation. -/
structure OpsRel {σ σ' : Type} (R0 R1 R2 Rf : σ → σ' → Prop) (ops : LoopOps K σ) (ops' : LoopOps K σ') : Prop where
  hasIneq : ops.hasIneq = ops'.hasIneq
  r1_r0 : ∀ s s', R1 s s' → R0 s s'
  r2_r1 : ∀ s s', R2 s s' → R1 s s'
  head0 : ∀ s s' info, R0 s s' → R1 (ops.head true s info).1 (ops'.head true s' info).1 ∧ (ops.head true s info).2 = (ops'.head true s' info).2
  head1 : ∀ s s' info, R1 s s' → R1 (ops.head false s info).1 (ops'.head false s' info).1 ∧ (ops.head false s info).2 = (ops'.head false s' info).2
  reg : ∀ s s' info, R1 s s' → R2 (ops.reg s info) (ops'.reg s' info)
  pprox : ∀ s s', R2 s s' → ops.pprox s = ops'.pprox s'
  pinfR : ∀ s s', R2 s s' → ops.pinfR s = ops'.pinfR s'
  dprox : ∀ s s', R2 s s' → ops.dprox s = ops'.dprox s'
  dinfR : ∀ s s', R2 s s' → ops.dinfR s = ops'.dinfR s'
  shift : ∀ s s' info, R2 s s' → R2 (ops.shift s info).1 (ops'.shift s' info).1 ∧ (ops.shift s info).2 = (ops'.shift s' info).2
  rescale : ∀ s s' info, R2 s s' → R2 (ops.rescale s info) (ops'.rescale s' info)
  factor : ∀ b s s', R2 s s' → R2 (ops.factor b s).1 (ops'.factor b s').1 ∧ (ops.factor b s).2 = (ops'.factor b s').2 ∧
    ((ops.factor b s).2 = true → Rf (ops.factor b s).1 (ops'.factor b s').1)
  stepNum : ∀ b s s' info, Rf s s' → R1 (ops.stepNum b s info).1 (ops'.stepNum b s' info).1 ∧ (ops.stepNum b s info).2 = (ops'.stepNum b s' info).2
  applyFlags : ∀ s s' a b, R1 s s' → R1 (ops.applyFlags s a b) (ops'.applyFlags s' a b)

def LoopPost {σ σ' : Type} (R : σ → σ' → Prop) (r : (Ctrl × σ × Info K) × Status) (r' : (Ctrl × σ' × Info K) × Status) : Prop :=
  r.1.1 = r'.1.1 ∧ R r.1.2.1 r'.1.2.1 ∧ r.1.2.2 = r'.1.2.2 ∧ r.2 = r'.2

theorem head_both {σ σ' : Type} {R0 R1 R2 Rf : σ → σ' → Prop} {ops : LoopOps K σ} {ops' : LoopOps K σ'}
    (ho : OpsRel R0 R1 R2 Rf ops ops') (c : Ctrl) (s : σ) (s' : σ') (info : Info K) (h0 : R0 s s') (h1 : c.iter ≠ 0 → R1 s s') :
    R1 (ops.head (c.iter == 0) s info).1 (ops'.head (c.iter == 0) s' info).1 ∧
    (ops'.head (c.iter == 0) s' info).2 = (ops.head (c.iter == 0) s info).2 := by
  by_cases hc : c.iter = 0
  · have : (c.iter == 0) = true := by simp [hc]
    rw [this]; exact ⟨(ho.head0 s s' info h0).1, (ho.head0 s s' info h0).2.symm⟩
  · have : (c.iter == 0) = false := by simp [hc]
    rw [this]; exact ⟨(ho.head1 s s' info (h1 hc)).1, (ho.head1 s s' info (h1 hc)).2.symm⟩

theorem loopG_rel {σ σ' : Type} {R0 R1 R2 Rf : σ → σ' → Prop} (st : Settings K) (cs : Consts K) (ops : LoopOps K σ) (ops' : LoopOps K σ')
    (ho : OpsRel R0 R1 R2 Rf ops ops') (c : Ctrl) (s : σ) (info : Info K) :
    ∀ s', R0 s s' → (c.iter ≠ 0 → R1 s s') → LoopPost R0 (loopG st cs ops c s info) (loopG st cs ops' c s' info) := by
  fun_induction loopG st cs ops c s info
  case case1 c s info hlt hi hterm =>
    intro s' h0 h1
    obtain ⟨hR1, hI⟩ := head_both ho c s s' info h0 h1
    rw [loopG.eq_def st cs ops' c s' info]
    simp only [hi] at hterm ⊢
    simp only [hlt, dite_true, hI, hterm, if_true]
    exact ⟨rfl, ho.r1_r0 _ _ hR1, rfl, rfl⟩
  case case2 c s info hlt hi hterm s1 hp =>
    intro s' h0 h1
    obtain ⟨hR1, hI⟩ := head_both ho c s s' info h0 h1
    have hR2 := ho.reg _ _ (ops.head (c.iter == 0) s info).2 hR1
    rw [loopG.eq_def st cs ops' c s' info]
    simp only [hi, s1] at hterm hp ⊢
    simp only [hlt, dite_true, hI, hterm, if_false, ← ho.pprox _ _ hR2, ← ho.pinfR _ _ hR2, hp, if_true]
    exact ⟨rfl, ho.r1_r0 _ _ (ho.r2_r1 _ _ hR2), rfl, rfl⟩
  case case3 c s info hlt hi hterm s1 hp hd =>
    intro s' h0 h1
    obtain ⟨hR1, hI⟩ := head_both ho c s s' info h0 h1
    have hR2 := ho.reg _ _ (ops.head (c.iter == 0) s info).2 hR1
    rw [loopG.eq_def st cs ops' c s' info]
    simp only [hi, s1] at hterm hp hd ⊢
    simp only [hlt, dite_true, hI, hterm, if_false, ← ho.pprox _ _ hR2, ← ho.pinfR _ _ hR2, hp,
      ← ho.dprox _ _ hR2, ← ho.dinfR _ _ hR2, hd, if_true]
    exact ⟨rfl, ho.r1_r0 _ _ (ho.r2_r1 _ _ hR2), rfl, rfl⟩
  case case4 c s info hlt hi hterm s1 hp hd iter1 sh info2 s2 fa hfa sn info3 ru s4 ih =>
    intro s' h0 h1
    obtain ⟨hR1, hI⟩ := head_both ho c s s' info h0 h1
    have hR2 := ho.reg _ _ (ops.head (c.iter == 0) s info).2 hR1
    have hSh := ho.shift _ _ (ops.head (c.iter == 0) s info).2 hR2
    have hRs := ho.rescale _ _ (finetuneSwitch st (ops.shift (ops.reg (ops.head (c.iter == 0) s info).1 (ops.head (c.iter == 0) s info).2) (ops.head (c.iter == 0) s info).2).2) hSh.1
    have hFa := ho.factor c.refineOn _ _ hRs
    rw [loopG.eq_def st cs ops' c s' info]
    simp only [hi, s1, iter1, sh, info2, s2, fa, sn, info3, ru, s4] at hterm hp hd hfa ih ⊢
    have hSn := ho.stepNum c.refineOn _ _ ({ (finetuneSwitch st (ops.shift (ops.reg (ops.head (c.iter == 0) s info).1 (ops.head (c.iter == 0) s info).2) (ops.head (c.iter == 0) s info).2).2) with iter := c.iter + 1, factorRetires := 0 }) (hFa.2.2 hfa)
    simp only [hlt, dite_true, hI, hterm, if_false, ← ho.pprox _ _ hR2, ← ho.pinfR _ _ hR2, hp,
      ← ho.dprox _ _ hR2, ← ho.dinfR _ _ hR2, hd, ← hSh.2, ← hFa.2.1, hfa, if_true, ← hSn.2, ← ho.hasIneq]
    apply ih
    · exact ho.r1_r0 _ _ (ho.applyFlags _ _ _ _ hSn.1)
    · intro _; exact ho.applyFlags _ _ _ _ hSn.1
  case case5 c s info hlt hi hterm s1 hp hd iter1 sh info2 s2 fa hfa hr ih =>
    intro s' h0 h1
    obtain ⟨hR1, hI⟩ := head_both ho c s s' info h0 h1
    have hR2 := ho.reg _ _ (ops.head (c.iter == 0) s info).2 hR1
    have hSh := ho.shift _ _ (ops.head (c.iter == 0) s info).2 hR2
    have hRs := ho.rescale _ _ (finetuneSwitch st (ops.shift (ops.reg (ops.head (c.iter == 0) s info).1 (ops.head (c.iter == 0) s info).2) (ops.head (c.iter == 0) s info).2).2) hSh.1
    have hFa := ho.factor c.refineOn _ _ hRs
    rw [loopG.eq_def st cs ops' c s' info]
    simp only [hi, s1, iter1, sh, info2, s2, fa] at hterm hp hd hfa ih ⊢
    simp only [hlt, dite_true, hI, hterm, if_false, ← ho.pprox _ _ hR2, ← ho.pinfR _ _ hR2, hp,
      ← ho.dprox _ _ hR2, ← ho.dinfR _ _ hR2, hd, ← hSh.2, ← hFa.2.1, hfa, dif_pos hr]
    apply ih
    · exact ho.r1_r0 _ _ (ho.r2_r1 _ _ hFa.1)
    · intro _; exact ho.r2_r1 _ _ hFa.1
  case case6 c s info hlt hi hterm s1 hp hd sh info2 s2 fa hfa hr hf ih =>
    intro s' h0 h1
    obtain ⟨hR1, hI⟩ := head_both ho c s s' info h0 h1
    have hR2 := ho.reg _ _ (ops.head (c.iter == 0) s info).2 hR1
    have hSh := ho.shift _ _ (ops.head (c.iter == 0) s info).2 hR2
    have hRs := ho.rescale _ _ (finetuneSwitch st (ops.shift (ops.reg (ops.head (c.iter == 0) s info).1 (ops.head (c.iter == 0) s info).2) (ops.head (c.iter == 0) s info).2).2) hSh.1
    have hFa := ho.factor c.refineOn _ _ hRs
    rw [loopG.eq_def st cs ops' c s' info]
    simp only [hi, s1, sh, info2, s2, fa] at hterm hp hd hfa ih ⊢
    simp only [hlt, dite_true, hI, hterm, if_false, ← ho.pprox _ _ hR2, ← ho.pinfR _ _ hR2, hp,
      ← ho.dprox _ _ hR2, ← ho.dinfR _ _ hR2, hd, ← hSh.2, ← hFa.2.1, hfa, dif_neg hr, dif_pos hf]
    apply ih
    · exact ho.r1_r0 _ _ (ho.r2_r1 _ _ hFa.1)
    · intro _; exact ho.r2_r1 _ _ hFa.1
  case case7 c s info hlt hi hterm s1 hp hd iter1 sh info2 s2 fa hfa hr hf =>
    intro s' h0 h1
    obtain ⟨hR1, hI⟩ := head_both ho c s s' info h0 h1
    have hR2 := ho.reg _ _ (ops.head (c.iter == 0) s info).2 hR1
    have hSh := ho.shift _ _ (ops.head (c.iter == 0) s info).2 hR2
    have hRs := ho.rescale _ _ (finetuneSwitch st (ops.shift (ops.reg (ops.head (c.iter == 0) s info).1 (ops.head (c.iter == 0) s info).2) (ops.head (c.iter == 0) s info).2).2) hSh.1
    have hFa := ho.factor c.refineOn _ _ hRs
    rw [loopG.eq_def st cs ops' c s' info]
    simp only [hi, s1, iter1, sh, info2, s2, fa] at hterm hp hd hfa ⊢
    simp only [hlt, dite_true, hI, hterm, if_false, ← ho.pprox _ _ hR2, ← ho.pinfR _ _ hR2, hp,
      ← ho.dprox _ _ hR2, ← ho.dinfR _ _ hR2, hd, ← hSh.2, ← hFa.2.1, hfa, dif_neg hr, dif_neg hf]
    exact ⟨rfl, ho.r1_r0 _ _ (ho.r2_r1 _ _ hFa.1), rfl, rfl⟩
  case case8 c s info hlt =>
    intro s' h0 h1
    rw [loopG.eq_def st cs ops' c s' info]
    simp only [hlt, dite_false]
    exact ⟨rfl, h0, rfl, rfl⟩
/-- the data with the two packed-bound value buffers replaced -/
def setVals (d : Data K n p m) (vl vu : Vec K n) : Data K n p m :=
  { d with lb := { d.lb with val := vl }, ub := { d.ub with val := vu } }

/-- the workspace with its scratch buffers (residuals, step) replaced -/
def setScr (w : Work K n p m) (r d : Step K n p m) (rx : Vec K n) (ry : Vec K p) (rz : Vec K m) (rzl rzu : Vec K n) : Work K n p m :=
  { w with r := r, d := d, rx_nr := rx, ry_nr := ry, rz_nr := rz, rz_lb_nr := rzl, rz_ub_nr := rzu }

section sv
variable (d : Data K n p m) (vl vu : Vec K n)
theorem sv_P : (setVals d vl vu).P = d.P := rfl
theorem sv_AT : (setVals d vl vu).AT = d.AT := rfl
theorem sv_GT : (setVals d vl vu).GT = d.GT := rfl
theorem sv_c : (setVals d vl vu).c = d.c := rfl
theorem sv_b : (setVals d vl vu).b = d.b := rfl
theorem sv_h : (setVals d vl vu).h = d.h := rfl
theorem sv_Psym : (setVals d vl vu).Psym = d.Psym := rfl
theorem sv_lcnt : (setVals d vl vu).lb.cnt = d.lb.cnt := rfl
theorem sv_ucnt : (setVals d vl vu).ub.cnt = d.ub.cnt := rfl
theorem sv_lidx : (setVals d vl vu).lb.idx = d.lb.idx := rfl
theorem sv_uidx : (setVals d vl vu).ub.idx = d.ub.idx := rfl
theorem sv_lsc : (setVals d vl vu).lb.sc = d.lb.sc := rfl
theorem sv_usc : (setVals d vl vu).ub.sc = d.ub.sc := rfl
theorem sv_lval : (setVals d vl vu).lb.val = vl := rfl
theorem sv_uval : (setVals d vl vu).ub.val = vu := rfl
theorem sv_lhu (old : Vec K n) (f : Fin n → K) : (setVals d vl vu).lb.headUpd old f = d.lb.headUpd old f := rfl
theorem sv_uhu (old : Vec K n) (f : Fin n → K) : (setVals d vl vu).ub.headUpd old f = d.ub.headUpd old f := rfl
theorem sv_lsc' (f : Fin n → K) : (setVals d vl vu).lb.scatter f = d.lb.scatter f := rfl
theorem sv_usc' (f : Fin n → K) : (setVals d vl vu).ub.scatter f = d.ub.scatter f := rfl
end sv

/-- same data up to the dead tails of the packed bound values -/
def DataRel (d d' : Data K n p m) : Prop :=
  ∃ vl vu, d' = setVals d vl vu ∧ HeadEq d.lb.cnt d.lb.val vl ∧ HeadEq d.ub.cnt d.ub.val vu

def EnvRel (e e' : Env K n p m) : Prop :=
  ∃ vl vu, e' = { e with data := setVals e.data vl vu } ∧ HeadEq e.data.lb.cnt e.data.lb.val vl ∧ HeadEq e.data.ub.cnt e.data.ub.val vu

/-- two steps agree on everything the solver reads: full `x, y, z, s`, heads of the box blocks -/
structure StepHeq (cl cu : Nat) (a b : Step K n p m) : Prop where
  x : a.x = b.x
  y : a.y = b.y
  z : a.z = b.z
  s : a.s = b.s
  z_lb : HeadEq cl a.z_lb b.z_lb
  z_ub : HeadEq cu a.z_ub b.z_ub
  s_lb : HeadEq cl a.s_lb b.s_lb
  s_ub : HeadEq cu a.s_ub b.s_ub

/-- workspaces equal up to scratch -/
def W0 (w w' : Work K n p m) : Prop := ∃ r d rx ry rz rzl rzu, w' = setScr w r d rx ry rz rzl rzu

/-- … and the non-regularised residuals agree where they are live -/
def W1 (cl cu : Nat) (w w' : Work K n p m) : Prop :=
  ∃ r d rzl rzu, w' = setScr w r d w.rx_nr w.ry_nr w.rz_nr rzl rzu ∧ HeadEq cl w.rz_lb_nr rzl ∧ HeadEq cu w.rz_ub_nr rzu

/-- … and the regularised residuals `r.x, r.y, r.z, r.z_lb, r.z_ub` agree where they are live -/
def W2 (cl cu : Nat) (w w' : Work K n p m) : Prop :=
  ∃ r d rzl rzu, w' = setScr w r d w.rx_nr w.ry_nr w.rz_nr rzl rzu ∧ HeadEq cl w.rz_lb_nr rzl ∧ HeadEq cu w.rz_ub_nr rzu ∧
    w.r.x = r.x ∧ w.r.y = r.y ∧ w.r.z = r.z ∧ HeadEq cl w.r.z_lb r.z_lb ∧ HeadEq cu w.r.z_ub r.z_ub

theorem W1.w0 {cl cu : Nat} {w w' : Work K n p m} (h : W1 cl cu w w') : W0 w w' := by
  obtain ⟨r, d, rzl, rzu, rfl, _, _⟩ := h
  exact ⟨r, d, _, _, _, rzl, rzu, rfl⟩

theorem W2.w1 {cl cu : Nat} {w w' : Work K n p m} (h : W2 cl cu w w') : W1 cl cu w w' := by
  obtain ⟨r, d, rzl, rzu, rfl, h1, h2, _⟩ := h
  exact ⟨r, d, rzl, rzu, rfl, h1, h2⟩

theorem unscaleResLb_headEq (pk : PrecKind) (pre : Precond K n p m) {cnt : Nat} {a a' : Vec K n} (h : HeadEq cnt a a') :
    HeadEq cnt (pre.unscalePrimalResLb pk a) (pre.unscalePrimalResLb pk a') := by
  unfold Precond.unscalePrimalResLb
  split
  · exact h
  · exact headMap_headEq h (fun i hi _ => by rw [h i hi])

theorem unscaleResUb_headEq (pk : PrecKind) (pre : Precond K n p m) {cnt : Nat} {a a' : Vec K n} (h : HeadEq cnt a a') :
    HeadEq cnt (pre.unscalePrimalResUb pk a) (pre.unscalePrimalResUb pk a') := by
  unfold Precond.unscalePrimalResUb
  split
  · exact h
  · exact headMap_headEq h (fun i hi _ => by rw [h i hi])

theorem headUpd_head (b : BoxSide K n) (old old' : Vec K n) {f g : Fin n → K} (hfg : ∀ i : Fin n, i.val < b.cnt → f i = g i) :
    HeadEq b.cnt (b.headUpd old f) (b.headUpd old' g) := by
  intro i hi
  simp only [BoxSide.headUpd, ofFn_get']
  have h2 : b.act i := hi
  rw [if_pos h2, if_pos h2]; exact hfg i hi

section ops
variable (e e' : Env K n p m) (he : EnvRel e e')
include he

theorem primalProxInf_rel {w w' : Work K n p m} (hw : W0 w w') : primalProxInf e w = primalProxInf e' w' := by
  obtain ⟨vl, vu, rfl, _, _⟩ := he
  obtain ⟨r, d, rx, ry, rz, rzl, rzu, rfl⟩ := hw
  rfl

theorem dualProxInf_rel {w w' : Work K n p m} (hw : W0 w w') : dualProxInf e w = dualProxInf e' w' := by
  obtain ⟨vl, vu, rfl, _, _⟩ := he
  obtain ⟨r, d, rx, ry, rz, rzl, rzu, rfl⟩ := hw
  rfl

theorem primalInfOf_rel {ry : Vec K p} {rz : Vec K m} {rzl rzl' rzu rzu' : Vec K n}
    (hl : HeadEq e.data.lb.cnt rzl rzl') (hu : HeadEq e.data.ub.cnt rzu rzu') :
    primalInfOf e ry rz rzl rzu = primalInfOf e' ry rz rzl' rzu' := by
  obtain ⟨vl, vu, rfl, _, _⟩ := he
  unfold primalInfOf
  simp only [setVals, headInfNorm]
  rw [headInfNorm_congr (unscaleResLb_headEq e.pk e.pre hl), headInfNorm_congr (unscaleResUb_headEq e.pk e.pre hu)]

theorem primalInfR_rel {w w' : Work K n p m} (hw : W2 e.data.lb.cnt e.data.ub.cnt w w') : primalInfR e w = primalInfR e' w' := by
  obtain ⟨r, d, rzl, rzu, rfl, h1, h2, hx, hy, hz, hzl, hzu⟩ := hw
  unfold primalInfR
  simp only [setScr]
  rw [← hy, ← hz]
  exact primalInfOf_rel e e' he hzl hzu

theorem dualInfR_rel {w w' : Work K n p m} (hw : W2 e.data.lb.cnt e.data.ub.cnt w w') : dualInfR e w = dualInfR e' w' := by
  obtain ⟨vl, vu, rfl, _, _⟩ := he
  obtain ⟨r, d, rzl, rzu, rfl, h1, h2, hx, hy, hz, hzl, hzu⟩ := hw
  unfold dualInfR
  simp only [setScr]
  rw [← hx]

theorem primalInfNr_rel {w w' : Work K n p m} (hw : W1 e.data.lb.cnt e.data.ub.cnt w w') : primalInfNr e w = primalInfNr e' w' := by
  obtain ⟨r, d, rzl, rzu, rfl, h1, h2⟩ := hw
  unfold primalInfNr
  simp only [setScr]
  exact primalInfOf_rel e e' he h1 h2

theorem dualInfNr_rel {w w' : Work K n p m} (hw : W1 e.data.lb.cnt e.data.ub.cnt w w') : dualInfNr e w = dualInfNr e' w' := by
  obtain ⟨vl, vu, rfl, _, _⟩ := he
  obtain ⟨r, d, rzl, rzu, rfl, h1, h2⟩ := hw
  rfl


theorem updateNr_rel {w w' : Work K n p m} (info : Info K) (hw : W0 w w') :
    W1 e.data.lb.cnt e.data.ub.cnt (updateNrResiduals e w info).1 (updateNrResiduals e' w' info).1 ∧
    (updateNrResiduals e w info).2 = (updateNrResiduals e' w' info).2 := by
  obtain ⟨vl, vu, rfl, hl, hu⟩ := he
  obtain ⟨r, d, rx, ry, rz, rzl, rzu, rfl⟩ := hw
  have ha : dotHead e.data.lb.cnt vl w.z_lb = dotHead e.data.lb.cnt e.data.lb.val w.z_lb :=
    (dotHead_congr hl (HeadEq.rfl' _ _)).symm
  have hb : dotHead e.data.ub.cnt vu w.z_ub = dotHead e.data.ub.cnt e.data.ub.val w.z_ub :=
    (dotHead_congr hu (HeadEq.rfl' _ _)).symm
  have hc : headInfNorm e.data.lb.cnt (e.pre.unscalePrimalResLb e.pk vl) = headInfNorm e.data.lb.cnt (e.pre.unscalePrimalResLb e.pk e.data.lb.val) :=
    (headInfNorm_congr (unscaleResLb_headEq e.pk e.pre hl)).symm
  have hd : headInfNorm e.data.ub.cnt (e.pre.unscalePrimalResUb e.pk vu) = headInfNorm e.data.ub.cnt (e.pre.unscalePrimalResUb e.pk e.data.ub.val) :=
    (headInfNorm_congr (unscaleResUb_headEq e.pk e.pre hu)).symm
  have he1 : ∀ F : Fin n → K, headInfNorm e.data.lb.cnt (e.pre.unscalePrimalResLb e.pk (e.data.lb.headUpd rzl F)) =
      headInfNorm e.data.lb.cnt (e.pre.unscalePrimalResLb e.pk (e.data.lb.headUpd w.rz_lb_nr F)) :=
    fun F => headInfNorm_congr (unscaleResLb_headEq e.pk e.pre (headUpd_head _ _ _ (fun _ _ => rfl)))
  have he2 : ∀ F : Fin n → K, headInfNorm e.data.ub.cnt (e.pre.unscalePrimalResUb e.pk (e.data.ub.headUpd rzu F)) =
      headInfNorm e.data.ub.cnt (e.pre.unscalePrimalResUb e.pk (e.data.ub.headUpd w.rz_ub_nr F)) :=
    fun F => headInfNorm_congr (unscaleResUb_headEq e.pk e.pre (headUpd_head _ _ _ (fun _ _ => rfl)))
  unfold updateNrResiduals
  simp only [sv_P, sv_AT, sv_GT, sv_c, sv_b, sv_h, sv_Psym, sv_lcnt, sv_ucnt, sv_lidx, sv_uidx, sv_lsc, sv_usc, sv_lval, sv_uval,
    sv_lhu, sv_uhu, sv_lsc', sv_usc', setScr, headInfNorm] at ha hb hc hd he1 he2 ⊢
  constructor
  · refine ⟨_, _, _, _, rfl, ?_, ?_⟩
    · apply headUpd_head
      intro i hi
      rw [headUpd_head e.data.lb w.rz_lb_nr rzl (fun _ _ => rfl) i hi, hl i hi]
    · apply headUpd_head
      intro i hi
      rw [headUpd_head e.data.ub w.rz_ub_nr rzu (fun _ _ => rfl) i hi, hu i hi]
  · simp only [ha, hb, hc, hd, he1, he2]

theorem headInfo0_rel {w w' : Work K n p m} (info : Info K) (hw : W0 w w') :
    W1 e.data.lb.cnt e.data.ub.cnt (headInfo e true w info).1 (headInfo e' true w' info).1 ∧
    (headInfo e true w info).2 = (headInfo e' true w' info).2 := by
  have h := updateNr_rel e e' he info hw
  simp only [headInfo, if_true]
  refine ⟨h.1, ?_⟩
  rw [primalInfNr_rel e e' he h.1, dualInfNr_rel e e' he h.1, h.2]

theorem headInfo1_rel {w w' : Work K n p m} (info : Info K) (hw : W1 e.data.lb.cnt e.data.ub.cnt w w') :
    W1 e.data.lb.cnt e.data.ub.cnt (headInfo e false w info).1 (headInfo e' false w' info).1 ∧
    (headInfo e false w info).2 = (headInfo e' false w' info).2 := by
  simp only [headInfo, Bool.false_eq_true, if_false]
  refine ⟨hw, ?_⟩
  rw [primalInfNr_rel e e' he hw, dualInfNr_rel e e' he hw]

theorem regResiduals_rel {w w' : Work K n p m} (info : Info K) (hw : W1 e.data.lb.cnt e.data.ub.cnt w w') :
    W2 e.data.lb.cnt e.data.ub.cnt (regResiduals e w info) (regResiduals e' w' info) := by
  obtain ⟨vl, vu, rfl, hl, hu⟩ := he
  obtain ⟨r, d, rzl, rzu, rfl, h1, h2⟩ := hw
  unfold regResiduals
  simp only [sv_lhu, sv_uhu, setScr]
  refine ⟨_, _, _, _, rfl, h1, h2, rfl, rfl, rfl, ?_, ?_⟩
  · apply headUpd_head
    intro i hi
    rw [h1 i hi]
  · apply headUpd_head
    intro i hi
    rw [h2 i hi]

theorem shiftOp_rel {w w' : Work K n p m} (info : Info K) (hw : W2 e.data.lb.cnt e.data.ub.cnt w w') :
    W2 e.data.lb.cnt e.data.ub.cnt (shiftOp e w info).1 (shiftOp e' w' info).1 ∧ (shiftOp e w info).2 = (shiftOp e' w' info).2 := by
  obtain ⟨vl, vu, rfl, hl, hu⟩ := he
  obtain ⟨r, d, rzl, rzu, rfl, h1, h2, h3⟩ := hw
  exact ⟨⟨r, d, rzl, rzu, rfl, h1, h2, h3⟩, rfl⟩

theorem kktScal_rel {w w' : Work K n p m} (k : KKT K n p m) (rho delta : K) (hw : W0 w w') :
    kktScal e k w rho delta = kktScal e' k w' rho delta := by
  obtain ⟨vl, vu, rfl, hl, hu⟩ := he
  obtain ⟨r, d, rx, ry, rz, rzl, rzu, rfl⟩ := hw
  rfl

theorem regFactor_rel (k : KKT K n p m) (refine : Bool) :
    KKT.regFactor e.be e.st.kkt e.data k refine e.inner = KKT.regFactor e'.be e'.st.kkt e'.data k refine e'.inner := by
  obtain ⟨vl, vu, rfl, hl, hu⟩ := he
  rfl

theorem applyFlags_rel {w w' : Work K n p m} (cP cD : Bool) (hw : W1 e.data.lb.cnt e.data.ub.cnt w w') :
    W1 e.data.lb.cnt e.data.ub.cnt (applyFlagsOp e w cP cD) (applyFlagsOp e' w' cP cD) := by
  obtain ⟨vl, vu, rfl, hl, hu⟩ := he
  obtain ⟨r, d, rzl, rzu, rfl, h1, h2⟩ := hw
  unfold applyFlagsOp
  simp only [sv_lcnt, sv_ucnt, sv_lhu, sv_uhu]
  cases cP <;> cases cD <;> simp only [Bool.false_eq_true, if_false, if_true]
  · exact ⟨r, d, rzl, rzu, rfl, h1, h2⟩
  · split
    · exact ⟨r, d, rzl, rzu, rfl, h1, h2⟩
    · exact ⟨r, d, rzl, rzu, rfl, h1, h2⟩
  · exact ⟨r, d, rzl, rzu, rfl, h1, h2⟩
  · split
    · exact ⟨r, d, rzl, rzu, rfl, h1, h2⟩
    · exact ⟨r, d, rzl, rzu, rfl, h1, h2⟩
end ops
/-! `stepNumOp` in named stages (definitionally the model's function: `stepNumOp_staged`) -/

def solveOr (e : Env K n p m) (refineOn : Bool) (kkt : KKT K n p m) (r old : Step K n p m) : Step K n p m :=
  match KKT.solve e.be e.st.kkt e.data kkt r old refineOn with
  | some o => o
  | none => old

def predRhs (e : Env K n p m) (w : Work K n p m) : Step K n p m :=
  { w.r with s := Vector.ofFn fun i => -w.s[i] * w.z[i],
             s_lb := e.data.lb.headUpd w.r.s_lb fun i => -w.s_lb[i] * w.z_lb[i],
             s_ub := e.data.ub.headUpd w.r.s_ub fun i => -w.s_ub[i] * w.z_ub[i] }

def sigmaStage (e : Env K n p m) (w : Work K n p m) (info : Info K) (d1 : Step K n p m) : K :=
  let nl := e.data.lb.cnt
  let nu := e.data.ub.cnt
  let sb := stepToBoundary e.data w d1
  let alphaS := sb.1 * e.st.tau
  let alphaZ := sb.2 * e.st.tau
  let sg0 := sumFin m (fun i => (w.s[i] + alphaS * d1.s[i]) * (w.z[i] + alphaZ * d1.z[i]))
  let sg1 := sg0 + sumFin n (fun i => if i.val < nl then (w.s_lb[i] + alphaS * d1.s_lb[i]) * (w.z_lb[i] + alphaZ * d1.z_lb[i]) else 0)
  let sg2 := sg1 + sumFin n (fun i => if i.val < nu then (w.s_ub[i] + alphaS * d1.s_ub[i]) * (w.z_ub[i] + alphaZ * d1.z_ub[i]) else 0)
  sigmaOf sg2 info.mu ((m + nl + nu : Nat) : K)

def corrRhs (e : Env K n p m) (info : Info K) (r1 d1 : Step K n p m) (sigma : K) : Step K n p m :=
  { r1 with s := Vector.ofFn fun i => r1.s[i] + (-d1.s[i] * d1.z[i] + sigma * info.mu),
            s_lb := e.data.lb.headUpd r1.s_lb fun i => r1.s_lb[i] + (-d1.s_lb[i] * d1.z_lb[i] + sigma * info.mu),
            s_ub := e.data.ub.headUpd r1.s_ub fun i => r1.s_ub[i] + (-d1.s_ub[i] * d1.z_ub[i] + sigma * info.mu) }

def applyStep (e : Env K n p m) (w : Work K n p m) (r2 d2 : Step K n p m) (pstep dstep : K) : Work K n p m :=
  { w with r := r2, d := d2,
           x := Vector.ofFn fun i => w.x[i] + pstep * d2.x[i],
           y := Vector.ofFn fun i => w.y[i] + dstep * d2.y[i],
           z := Vector.ofFn fun i => w.z[i] + dstep * d2.z[i],
           z_lb := e.data.lb.headUpd w.z_lb fun i => w.z_lb[i] + dstep * d2.z_lb[i],
           z_ub := e.data.ub.headUpd w.z_ub fun i => w.z_ub[i] + dstep * d2.z_ub[i],
           s := Vector.ofFn fun i => w.s[i] + pstep * d2.s[i],
           s_lb := e.data.lb.headUpd w.s_lb fun i => w.s_lb[i] + pstep * d2.s_lb[i],
           s_ub := e.data.ub.headUpd w.s_ub fun i => w.s_ub[i] + pstep * d2.s_ub[i] }

def applyStepEq (w : Work K n p m) (d1 : Step K n p m) : Work K n p m :=
  { w with d := d1,
           x := Vector.ofFn fun i => w.x[i] + 1 * d1.x[i],
           y := Vector.ofFn fun i => w.y[i] + 1 * d1.y[i] }

def finishStep (e : Env K n p m) (w1 : Work K n p m) (info1 : Info K) (muPrev : K) :
    Work K n p m × Info K × K × K × K × K × K :=
  let r := updateNrResiduals e w1 info1
  (r.1, r.2, muPrev, dualInfNr e r.1, dualProxInf e r.1, primalInfNr e r.1, primalProxInf e r.1)

def stepNumStaged (e : Env K n p m) (refineOn : Bool) (kkt : KKT K n p m) (w : Work K n p m) (info : Info K) :
    Work K n p m × Info K × K × K × K × K × K :=
  if m + e.data.lb.cnt + e.data.ub.cnt ≠ 0 then
    let r1 := predRhs e w
    let d1 := solveOr e refineOn kkt r1 w.d
    let sigma := sigmaStage e w info d1
    let r2 := corrRhs e info r1 d1 sigma
    let d2 := solveOr e refineOn kkt r2 d1
    let sb := stepToBoundary e.data w d2
    let pstep := sb.1 * e.st.tau
    let dstep := sb.2 * e.st.tau
    let w1 := applyStep e w r2 d2 pstep dstep
    finishStep e w1 { info with sigma := sigma, primalStep := pstep, dualStep := dstep, mu := muOf e.data w1 } info.mu
  else
    let d1 := solveOr e refineOn kkt w.r w.d
    finishStep e (applyStepEq w d1) { info with primalStep := 1, dualStep := 1 } info.mu

theorem stepNumOp_staged (e : Env K n p m) (refineOn : Bool) (kkt : KKT K n p m) (w : Work K n p m) (info : Info K) :
    stepNumOp e refineOn kkt w info = stepNumStaged e refineOn kkt w info := by
  unfold stepNumOp stepNumStaged
  by_cases h : m + e.data.lb.cnt + e.data.ub.cnt ≠ 0
  · simp only [h, ne_eq, not_false_eq_true, if_true]
    rfl
  · simp only [h, if_false]
    rfl


theorem headUpd_at (b : BoxSide K n) (old : Vec K n) (f : Fin n → K) (i : Fin n) (hi : i.val < b.cnt) :
    (b.headUpd old f)[i] = f i := by
  simp only [BoxSide.headUpd, ofFn_get']
  have h2 : b.act i := hi
  rw [if_pos h2]

section kkt
variable (be : Backend) (d : Data K n p m) (vl vu : Vec K n) (k : KKT K n p m)

theorem zbarOf_congr {r r' : Step K n p m} {cl cu : Nat} (h : StepHeq cl cu r r') : zbarOf be k r = zbarOf be k r' := by
  unfold zbarOf; rw [h.z, h.s]

theorem rxOf_congr {r r' : Step K n p m} (h : StepHeq d.lb.cnt d.ub.cnt r r') :
    rxOf be d k r = rxOf be (setVals d vl vu) k r' := by
  unfold rxOf
  simp only [sv_GT, sv_AT, sv_lsc', sv_usc', sv_lsc, sv_usc]
  rw [zbarOf_congr be k h, h.x, h.y]
  rw [scatter_congr d.lb (f := fun i => d.lb.sc[i] * (r.z_lb[i] - k.zinv_lb[i] * r.s_lb[i]) / (k.s_lb[i] * k.zinv_lb[i] + k.delta))
        (g := fun i => d.lb.sc[i] * (r'.z_lb[i] - k.zinv_lb[i] * r'.s_lb[i]) / (k.s_lb[i] * k.zinv_lb[i] + k.delta))
        (fun i hi => by rw [h.z_lb i hi, h.s_lb i hi]),
      scatter_congr d.ub (f := fun i => d.ub.sc[i] * (r.z_ub[i] - k.zinv_ub[i] * r.s_ub[i]) / (k.s_ub[i] * k.zinv_ub[i] + k.delta))
        (g := fun i => d.ub.sc[i] * (r'.z_ub[i] - k.zinv_ub[i] * r'.s_ub[i]) / (k.s_ub[i] * k.zinv_ub[i] + k.delta))
        (fun i hi => by rw [h.z_ub i hi, h.s_ub i hi])]

theorem recover_rel {r r' old old' : Step K n p m} (sol : Vec K n × Vec K p × Vec K m) (h : StepHeq d.lb.cnt d.ub.cnt r r') :
    StepHeq d.lb.cnt d.ub.cnt (recover be d k r old sol) (recover be (setVals d vl vu) k r' old' sol) := by
  unfold recover
  simp only [sv_GT, sv_AT, sv_lhu, sv_uhu, sv_lsc, sv_usc, sv_lidx, sv_uidx]
  rw [← zbarOf_congr be k h, ← h.y, ← h.s]
  refine ⟨rfl, rfl, rfl, rfl, ?_, ?_, ?_, ?_⟩
  · apply headUpd_head; intro i hi; simp only [h.z_lb i hi, h.s_lb i hi]
  · apply headUpd_head; intro i hi; simp only [h.z_ub i hi, h.s_ub i hi]
  · apply headUpd_head; intro i hi
    simp only [headUpd_at _ _ _ i hi, h.z_lb i hi, h.s_lb i hi]
  · apply headUpd_head; intro i hi
    simp only [headUpd_at _ _ _ i hi, h.z_ub i hi, h.s_ub i hi]

theorem kktSolve_rel (st : KKTSettings K) {r r' old old' : Step K n p m} (refine : Bool) (hk : k.fsol.isSome = true)
    (h : StepHeq d.lb.cnt d.ub.cnt r r') :
    ∃ o o', KKT.solve be st d k r old refine = some o ∧ KKT.solve be st (setVals d vl vu) k r' old' refine = some o' ∧
      StepHeq d.lb.cnt d.ub.cnt o o' := by
  cases hf : k.fsol with
  | none => rw [hf] at hk; cases hk
  | some slv =>
    unfold KKT.solve
    simp only [hf]
    rw [← rxOf_congr be d vl vu k h, ← zbarOf_congr be k h, ← h.y]
    exact ⟨_, _, rfl, rfl, recover_rel be d vl vu k _ h⟩
end kkt

theorem stepToBoundary_congr (d : Data K n p m) (w : Work K n p m) {dir dir' : Step K n p m}
    (hd : StepHeq d.lb.cnt d.ub.cnt dir dir') : stepToBoundary d w dir = stepToBoundary d w dir' := by
  unfold stepToBoundary
  simp only
  rw [← hd.s, ← hd.z]
  congr 1
  · funext acc i
    by_cases hi : i.val < d.ub.cnt
    · rw [if_pos hi, if_pos hi, hd.s_ub i hi, hd.z_ub i hi]
    · rw [if_neg hi, if_neg hi]
  · congr 1
    funext acc i
    by_cases hi : i.val < d.lb.cnt
    · rw [if_pos hi, if_pos hi, hd.s_lb i hi, hd.z_lb i hi]
    · rw [if_neg hi, if_neg hi]

theorem sigmaStage_congr (e : Env K n p m) (w : Work K n p m) (info : Info K) {d1 d1' : Step K n p m}
    (hd : StepHeq e.data.lb.cnt e.data.ub.cnt d1 d1') : sigmaStage e w info d1 = sigmaStage e w info d1' := by
  unfold sigmaStage
  simp only
  rw [stepToBoundary_congr e.data w hd, ← hd.s, ← hd.z]
  congr 2
  · congr 1
    congr 1; funext i
    by_cases hi : i.val < e.data.lb.cnt
    · rw [if_pos hi, if_pos hi, hd.s_lb i hi, hd.z_lb i hi]
    · rw [if_neg hi, if_neg hi]
  · congr 1; funext i
    by_cases hi : i.val < e.data.ub.cnt
    · rw [if_pos hi, if_pos hi, hd.s_ub i hi, hd.z_ub i hi]
    · rw [if_neg hi, if_neg hi]

theorem corrRhs_congr (e : Env K n p m) (info : Info K) (sigma : K) {r1 r1' d1 d1' : Step K n p m}
    (hr : StepHeq e.data.lb.cnt e.data.ub.cnt r1 r1') (hd : StepHeq e.data.lb.cnt e.data.ub.cnt d1 d1') :
    StepHeq e.data.lb.cnt e.data.ub.cnt (corrRhs e info r1 d1 sigma) (corrRhs e info r1' d1' sigma) := by
  unfold corrRhs
  refine ⟨hr.x, hr.y, hr.z, ?_, hr.z_lb, hr.z_ub, ?_, ?_⟩
  · simp only [hr.s, hd.s, hd.z]
  · apply headUpd_head; intro i hi; simp only [hr.s_lb i hi, hd.s_lb i hi, hd.z_lb i hi]
  · apply headUpd_head; intro i hi; simp only [hr.s_ub i hi, hd.s_ub i hi, hd.z_ub i hi]

/-- applying a step: the new iterate depends on the step only through its live slots -/
theorem applyStep_congr (e : Env K n p m) (w : Work K n p m) (r2 r2' : Step K n p m) (ps ds : K) {d2 d2' : Step K n p m}
    (hd : StepHeq e.data.lb.cnt e.data.ub.cnt d2 d2') :
    W0 (applyStep e w r2 d2 ps ds) (applyStep e w r2' d2' ps ds) := by
  refine ⟨r2', d2', w.rx_nr, w.ry_nr, w.rz_nr, w.rz_lb_nr, w.rz_ub_nr, ?_⟩
  unfold applyStep setScr
  simp only [hd.x, hd.y, hd.z, hd.s]
  rw [headUpd_congr e.data.lb (a := w.z_lb) (f := fun i => w.z_lb[i] + ds * d2.z_lb[i]) (g := fun i => w.z_lb[i] + ds * d2'.z_lb[i]) (fun i hi => by rw [hd.z_lb i hi]),
      headUpd_congr e.data.ub (a := w.z_ub) (f := fun i => w.z_ub[i] + ds * d2.z_ub[i]) (g := fun i => w.z_ub[i] + ds * d2'.z_ub[i]) (fun i hi => by rw [hd.z_ub i hi]),
      headUpd_congr e.data.lb (a := w.s_lb) (f := fun i => w.s_lb[i] + ps * d2.s_lb[i]) (g := fun i => w.s_lb[i] + ps * d2'.s_lb[i]) (fun i hi => by rw [hd.s_lb i hi]),
      headUpd_congr e.data.ub (a := w.s_ub) (f := fun i => w.s_ub[i] + ps * d2.s_ub[i]) (g := fun i => w.s_ub[i] + ps * d2'.s_ub[i]) (fun i hi => by rw [hd.s_ub i hi])]

theorem vec0_eq {q : Nat} (hq : q = 0) (a b : Vec K q) : a = b := by
  subst hq
  exact Vector.ext (fun i hi => absurd hi (Nat.not_lt_zero _))

section stages
variable (e e' : Env K n p m) (he : EnvRel e e')
include he

theorem solveOr_rel (refineOn : Bool) (kkt : KKT K n p m) {r r' old old' : Step K n p m} (hk : kkt.fsol.isSome = true)
    (h : StepHeq e.data.lb.cnt e.data.ub.cnt r r') :
    StepHeq e.data.lb.cnt e.data.ub.cnt (solveOr e refineOn kkt r old) (solveOr e' refineOn kkt r' old') := by
  obtain ⟨vl, vu, rfl, hl, hu⟩ := he
  obtain ⟨o, o', h1, h2, h3⟩ := kktSolve_rel e.be e.data vl vu kkt e.st.kkt (old := old) (old' := old') refineOn hk h
  unfold solveOr
  simp only [h1, h2]
  exact h3

theorem predRhs_rel {w w' : Work K n p m} (hw : W2 e.data.lb.cnt e.data.ub.cnt w w') :
    StepHeq e.data.lb.cnt e.data.ub.cnt (predRhs e w) (predRhs e' w') := by
  obtain ⟨vl, vu, rfl, hl, hu⟩ := he
  obtain ⟨r, d, rzl, rzu, rfl, h1, h2, hx, hy, hz, hzl, hzu⟩ := hw
  unfold predRhs
  simp only [sv_lhu, sv_uhu, setScr]
  exact ⟨hx, hy, hz, rfl, hzl, hzu, headUpd_head _ _ _ (fun _ _ => rfl), headUpd_head _ _ _ (fun _ _ => rfl)⟩

theorem stepToBoundary_rel {w w' : Work K n p m} {dir dir' : Step K n p m} (hw : W0 w w')
    (hd : StepHeq e.data.lb.cnt e.data.ub.cnt dir dir') :
    stepToBoundary e.data w dir = stepToBoundary e'.data w' dir' := by
  obtain ⟨vl, vu, rfl, hl, hu⟩ := he
  obtain ⟨r, d, rx, ry, rz, rzl, rzu, rfl⟩ := hw
  have : stepToBoundary (setVals e.data vl vu) (setScr w r d rx ry rz rzl rzu) dir' = stepToBoundary e.data w dir' := rfl
  show _ = stepToBoundary (setVals e.data vl vu) (setScr w r d rx ry rz rzl rzu) dir'
  rw [this]
  exact stepToBoundary_congr e.data w hd

theorem sigmaStage_rel {w w' : Work K n p m} (info : Info K) {d1 d1' : Step K n p m} (hw : W0 w w')
    (hd : StepHeq e.data.lb.cnt e.data.ub.cnt d1 d1') : sigmaStage e w info d1 = sigmaStage e' w' info d1' := by
  obtain ⟨vl, vu, rfl, hl, hu⟩ := he
  obtain ⟨r, d, rx, ry, rz, rzl, rzu, rfl⟩ := hw
  exact sigmaStage_congr e w info hd

theorem corrRhs_rel (info : Info K) (sigma : K) {r1 r1' d1 d1' : Step K n p m}
    (hr : StepHeq e.data.lb.cnt e.data.ub.cnt r1 r1') (hd : StepHeq e.data.lb.cnt e.data.ub.cnt d1 d1') :
    StepHeq e.data.lb.cnt e.data.ub.cnt (corrRhs e info r1 d1 sigma) (corrRhs e' info r1' d1' sigma) := by
  obtain ⟨vl, vu, rfl, hl, hu⟩ := he
  exact corrRhs_congr e info sigma hr hd

theorem applyStep_rel {w w' : Work K n p m} (r2 r2' : Step K n p m) (ps ds : K) {d2 d2' : Step K n p m} (hw : W0 w w')
    (hd : StepHeq e.data.lb.cnt e.data.ub.cnt d2 d2') :
    W0 (applyStep e w r2 d2 ps ds) (applyStep e' w' r2' d2' ps ds) := by
  obtain ⟨vl, vu, rfl, hl, hu⟩ := he
  obtain ⟨r, d, rx, ry, rz, rzl, rzu, rfl⟩ := hw
  obtain ⟨a1, a2, a3, a4, a5, a6, a7, h⟩ := applyStep_congr e w r2 r2' ps ds hd
  refine ⟨r2', d2', rx, ry, rz, rzl, rzu, ?_⟩
  show applyStep e (setScr w r d rx ry rz rzl rzu) r2' d2' ps ds = _
  have : applyStep e (setScr w r d rx ry rz rzl rzu) r2' d2' ps ds = setScr (applyStep e w r2' d2' ps ds) r2' d2' rx ry rz rzl rzu := rfl
  rw [this, h]
  rfl

theorem muOf_rel {w w' : Work K n p m} (hw : W0 w w') : muOf e.data w = muOf e'.data w' := by
  obtain ⟨vl, vu, rfl, hl, hu⟩ := he
  obtain ⟨r, d, rx, ry, rz, rzl, rzu, rfl⟩ := hw
  rfl

theorem finishStep_rel {w w' : Work K n p m} (info : Info K) (mu : K) (hw : W0 w w') :
    W1 e.data.lb.cnt e.data.ub.cnt (finishStep e w info mu).1 (finishStep e' w' info mu).1 ∧
    (finishStep e w info mu).2 = (finishStep e' w' info mu).2 := by
  have h := updateNr_rel e e' he info hw
  unfold finishStep
  simp only
  refine ⟨h.1, ?_⟩
  rw [h.2, dualInfNr_rel e e' he h.1, dualProxInf_rel e e' he h.1.w0, primalInfNr_rel e e' he h.1, primalProxInf_rel e e' he h.1.w0]

theorem cnt_rel : (m + e'.data.lb.cnt + e'.data.ub.cnt) = (m + e.data.lb.cnt + e.data.ub.cnt) := by
  obtain ⟨vl, vu, rfl, hl, hu⟩ := he
  rfl

theorem tau_rel : e'.st.tau = e.st.tau := by
  obtain ⟨vl, vu, rfl, hl, hu⟩ := he
  rfl

theorem stepNumOp_rel (refineOn : Bool) (kkt : KKT K n p m) {w w' : Work K n p m} (info : Info K) (hk : kkt.fsol.isSome = true)
    (hw : W2 e.data.lb.cnt e.data.ub.cnt w w') :
    W1 e.data.lb.cnt e.data.ub.cnt (stepNumOp e refineOn kkt w info).1 (stepNumOp e' refineOn kkt w' info).1 ∧
    (stepNumOp e refineOn kkt w info).2 = (stepNumOp e' refineOn kkt w' info).2 := by
  rw [stepNumOp_staged, stepNumOp_staged]
  unfold stepNumStaged
  have hw0 : W0 w w' := hw.w1.w0
  by_cases h : m + e.data.lb.cnt + e.data.ub.cnt ≠ 0
  · have h' : m + e'.data.lb.cnt + e'.data.ub.cnt ≠ 0 := by rw [cnt_rel e e' he]; exact h
    rw [if_pos h, if_pos h']
    have h1 := predRhs_rel e e' he hw
    have hwd : ∃ dd, w'.d = dd := ⟨_, rfl⟩
    have hd1 := solveOr_rel e e' he refineOn kkt (old := w.d) (old' := w'.d) hk h1
    have hσ := sigmaStage_rel e e' he info hw0 hd1
    have hr2 := corrRhs_rel e e' he info (sigmaStage e w info (solveOr e refineOn kkt (predRhs e w) w.d)) h1 hd1
    have hd2 := solveOr_rel e e' he refineOn kkt (old := solveOr e refineOn kkt (predRhs e w) w.d)
      (old' := solveOr e' refineOn kkt (predRhs e' w') w'.d) hk hr2
    have hsb := stepToBoundary_rel e e' he hw0 hd2
    simp only
    rw [← hσ, ← hsb, tau_rel e e' he]
    have hw1 := applyStep_rel e e' he
      (corrRhs e info (predRhs e w) (solveOr e refineOn kkt (predRhs e w) w.d) (sigmaStage e w info (solveOr e refineOn kkt (predRhs e w) w.d)))
      (corrRhs e' info (predRhs e' w') (solveOr e' refineOn kkt (predRhs e' w') w'.d) (sigmaStage e w info (solveOr e refineOn kkt (predRhs e w) w.d)))
      ((stepToBoundary e.data w (solveOr e refineOn kkt (corrRhs e info (predRhs e w) (solveOr e refineOn kkt (predRhs e w) w.d) (sigmaStage e w info (solveOr e refineOn kkt (predRhs e w) w.d))) (solveOr e refineOn kkt (predRhs e w) w.d))).1 * e.st.tau)
      ((stepToBoundary e.data w (solveOr e refineOn kkt (corrRhs e info (predRhs e w) (solveOr e refineOn kkt (predRhs e w) w.d) (sigmaStage e w info (solveOr e refineOn kkt (predRhs e w) w.d))) (solveOr e refineOn kkt (predRhs e w) w.d))).2 * e.st.tau)
      hw0 hd2
    rw [← muOf_rel e e' he hw1]
    exact finishStep_rel e e' he _ _ hw1
  · have h' : ¬ (m + e'.data.lb.cnt + e'.data.ub.cnt ≠ 0) := by rw [cnt_rel e e' he]; exact h
    rw [if_neg h, if_neg h']
    have hz : m + e.data.lb.cnt + e.data.ub.cnt = 0 := Classical.not_not.mp h
    have hm : m = 0 := by omega
    have hl0 : e.data.lb.cnt = 0 := by omega
    have hu0 : e.data.ub.cnt = 0 := by omega
    have hr : StepHeq e.data.lb.cnt e.data.ub.cnt w.r w'.r := by
      obtain ⟨r, d, rzl, rzu, rfl, h1, h2, hx, hy, hz, hzl, hzu⟩ := hw
      refine ⟨hx, hy, hz, vec0_eq hm _ _, hzl, hzu, ?_, ?_⟩
      · intro i hi; rw [hl0] at hi; exact absurd hi (Nat.not_lt_zero _)
      · intro i hi; rw [hu0] at hi; exact absurd hi (Nat.not_lt_zero _)
    have hd1 := solveOr_rel e e' he refineOn kkt (old := w.d) (old' := w'.d) hk hr
    simp only
    have hw1 : W0 (applyStepEq w (solveOr e refineOn kkt w.r w.d)) (applyStepEq w' (solveOr e' refineOn kkt w'.r w'.d)) := by
      obtain ⟨r, d, rx, ry, rz, rzl, rzu, rfl⟩ := hw0
      refine ⟨r, solveOr e' refineOn kkt r d, rx, ry, rz, rzl, rzu, ?_⟩
      unfold applyStepEq setScr
      simp only [hd1.x, hd1.y]
      rfl
    exact finishStep_rel e e' he _ _ hw1
end stages
/-- the numeric operations of the real solver, run on two environments/workspaces that differ only in dead slots,
    stay in step: related states, equal scalars, flags and diagnostics -/
theorem realOps_rel (e e' : Env K n p m) (he : EnvRel e e') :
    OpsRel (fun s s' : NumState K n p m => W0 s.1 s'.1 ∧ s.2 = s'.2)
           (fun s s' => W1 e.data.lb.cnt e.data.ub.cnt s.1 s'.1 ∧ s.2 = s'.2)
           (fun s s' => W2 e.data.lb.cnt e.data.ub.cnt s.1 s'.1 ∧ s.2 = s'.2)
           (fun s s' => W2 e.data.lb.cnt e.data.ub.cnt s.1 s'.1 ∧ s.2 = s'.2 ∧ s.2.fsol.isSome = true)
           (realOps e) (realOps e') where
  hasIneq := by
    simp only [realOps, cnt_rel e e' he]
  r1_r0 := fun s s' h => ⟨h.1.w0, h.2⟩
  r2_r1 := fun s s' h => ⟨h.1.w1, h.2⟩
  head0 := by
    intro s s' info h
    have := headInfo0_rel e e' he info h.1
    exact ⟨⟨this.1, h.2⟩, this.2⟩
  head1 := by
    intro s s' info h
    have := headInfo1_rel e e' he info h.1
    exact ⟨⟨this.1, h.2⟩, this.2⟩
  reg := fun s s' info h => ⟨regResiduals_rel e e' he info h.1, h.2⟩
  pprox := fun s s' h => primalProxInf_rel e e' he h.1.w1.w0
  pinfR := fun s s' h => primalInfR_rel e e' he h.1
  dprox := fun s s' h => dualProxInf_rel e e' he h.1.w1.w0
  dinfR := fun s s' h => dualInfR_rel e e' he h.1
  shift := by
    intro s s' info h
    have := shiftOp_rel e e' he info h.1
    exact ⟨⟨this.1, h.2⟩, this.2⟩
  rescale := by
    intro s s' info h
    refine ⟨h.1, ?_⟩
    simp only [realOps]
    rw [← h.2]
    exact kktScal_rel e e' he s.2 info.rho info.delta h.1.w1.w0
  factor := by
    intro b s s' h
    simp only [realOps]
    rw [← h.2, ← regFactor_rel e e' he s.2 b]
    exact ⟨⟨h.1, rfl⟩, rfl, fun hf => ⟨h.1, rfl, hf⟩⟩
  stepNum := by
    intro b s s' info h
    simp only [realOps]
    rw [← h.2.1]
    have := stepNumOp_rel e e' he b s.2 info h.2.2 h.1
    exact ⟨⟨this.1, rfl⟩, this.2⟩
  applyFlags := fun s s' a b h => ⟨applyFlags_rel e e' he a b h.1, h.2⟩

/-- two runs of the factorisation retry loop on related states -/
theorem initLoopG_rel {σ σ' : Type} {R : σ → σ' → Prop} (st : Settings K) (cs : Consts K) (ops : LoopOps K σ) (ops' : LoopOps K σ')
    (hf : ∀ b s s', R s s' → R (ops.factor b s).1 (ops'.factor b s').1 ∧ (ops.factor b s).2 = (ops'.factor b s').2)
    (hr : ∀ s s' info, R s s' → R (ops.rescale s info) (ops'.rescale s' info))
    (refineOn : Bool) (retries : Nat) (s : σ) (info : Info K) :
    ∀ s', R s s' →
      (initLoopG st cs ops refineOn retries s info).1 = (initLoopG st cs ops' refineOn retries s' info).1 ∧
      (initLoopG st cs ops refineOn retries s info).2.1 = (initLoopG st cs ops' refineOn retries s' info).2.1 ∧
      R (initLoopG st cs ops refineOn retries s info).2.2.1 (initLoopG st cs ops' refineOn retries s' info).2.2.1 ∧
      (initLoopG st cs ops refineOn retries s info).2.2.2 = (initLoopG st cs ops' refineOn retries s' info).2.2.2 := by
  fun_induction initLoopG st cs ops refineOn retries s info
  case case1 refineOn retries s info fa hfa =>
    intro s' hR
    have h := hf refineOn s s' hR
    rw [initLoopG.eq_def st cs ops' refineOn retries s' info]
    simp only [fa] at hfa ⊢
    simp only [← h.2, hfa, if_true, true_and, and_true]
    exact h.1
  case case2 retries s info fa hfa ih =>
    intro s' hR
    have h := hf false s s' hR
    rw [initLoopG.eq_def st cs ops' false retries s' info]
    simp only [fa] at hfa ih ⊢
    simp only [← h.2, hfa, if_false, dite_true]
    exact ih _ h.1
  case case3 refineOn retries s info fa hfa hr' hlt info1 ih =>
    intro s' hR
    have h := hf refineOn s s' hR
    rw [initLoopG.eq_def st cs ops' refineOn retries s' info]
    simp only [fa, info1] at hfa ih ⊢
    simp only [← h.2, hfa, if_false, dif_neg hr', dif_pos hlt]
    exact ih _ (hr _ _ _ h.1)
  case case4 refineOn retries s info fa hfa hr' hlt =>
    intro s' hR
    have h := hf refineOn s s' hR
    rw [initLoopG.eq_def st cs ops' refineOn retries s' info]
    simp only [fa] at hfa ⊢
    simp only [← h.2, hfa, Bool.false_eq_true, if_false, dif_neg hr', dif_neg hlt, true_and, and_true]
    exact h.1

section sameold
variable (be : Backend) (d : Data K n p m) (vl vu : Vec K n) (k : KKT K n p m)

/-- with the same `old`, the recovered step is the same (the tails come from `old`) -/
theorem recover_sameold {r r' : Step K n p m} (old : Step K n p m) (sol : Vec K n × Vec K p × Vec K m)
    (h : StepHeq d.lb.cnt d.ub.cnt r r') :
    recover be d k r old sol = recover be (setVals d vl vu) k r' old sol := by
  unfold recover
  simp only [sv_GT, sv_AT, sv_lhu, sv_uhu, sv_lsc, sv_usc, sv_lidx, sv_uidx]
  rw [← zbarOf_congr be k h, ← h.y, ← h.s]
  have e1 : (d.lb.headUpd old.z_lb fun i =>
      if be.isDense then
        (-d.lb.sc[i] * sol.1[d.lb.idx[i]] - r.z_lb[i] + k.zinv_lb[i] * r.s_lb[i]) / (k.s_lb[i] * k.zinv_lb[i] + k.delta)
      else
        ((-d.lb.sc[i] * sol.1[d.lb.idx[i]] - r.z_lb[i]) / k.zinv_lb[i] + r.s_lb[i]) / (k.s_lb[i] + k.delta / k.zinv_lb[i])) =
      (d.lb.headUpd old.z_lb fun i =>
      if be.isDense then
        (-d.lb.sc[i] * sol.1[d.lb.idx[i]] - r'.z_lb[i] + k.zinv_lb[i] * r'.s_lb[i]) / (k.s_lb[i] * k.zinv_lb[i] + k.delta)
      else
        ((-d.lb.sc[i] * sol.1[d.lb.idx[i]] - r'.z_lb[i]) / k.zinv_lb[i] + r'.s_lb[i]) / (k.s_lb[i] + k.delta / k.zinv_lb[i])) :=
    headUpd_congr d.lb (fun i hi => by simp only [h.z_lb i hi, h.s_lb i hi])
  have e2 : (d.ub.headUpd old.z_ub fun i =>
      if be.isDense then
        (d.ub.sc[i] * sol.1[d.ub.idx[i]] - r.z_ub[i] + k.zinv_ub[i] * r.s_ub[i]) / (k.s_ub[i] * k.zinv_ub[i] + k.delta)
      else
        ((d.ub.sc[i] * sol.1[d.ub.idx[i]] - r.z_ub[i]) / k.zinv_ub[i] + r.s_ub[i]) / (k.s_ub[i] + k.delta / k.zinv_ub[i])) =
      (d.ub.headUpd old.z_ub fun i =>
      if be.isDense then
        (d.ub.sc[i] * sol.1[d.ub.idx[i]] - r'.z_ub[i] + k.zinv_ub[i] * r'.s_ub[i]) / (k.s_ub[i] * k.zinv_ub[i] + k.delta)
      else
        ((d.ub.sc[i] * sol.1[d.ub.idx[i]] - r'.z_ub[i]) / k.zinv_ub[i] + r'.s_ub[i]) / (k.s_ub[i] + k.delta / k.zinv_ub[i])) :=
    headUpd_congr d.ub (fun i hi => by simp only [h.z_ub i hi, h.s_ub i hi])
  rw [e1, e2]
  congr 1
  · exact headUpd_congr d.lb (fun i hi => by simp only [h.s_lb i hi])
  · exact headUpd_congr d.ub (fun i hi => by simp only [h.s_ub i hi])

theorem kktSolve_sameold (st : KKTSettings K) {r r' : Step K n p m} (old : Step K n p m) (refine : Bool)
    (h : StepHeq d.lb.cnt d.ub.cnt r r') :
    KKT.solve be st d k r old refine = KKT.solve be st (setVals d vl vu) k r' old refine := by
  unfold KKT.solve
  cases hf : k.fsol with
  | none => rfl
  | some slv =>
    simp only
    rw [← rxOf_congr be d vl vu k h, ← zbarOf_congr be k h, ← h.y, recover_sameold be d vl vu k old _ h]
end sameold

section solver
variable (cs : Consts K) (sqrtF : K → K)

/-- same solver state up to dead slots: packed bound values beyond the counts, and the scratch buffers of the workspace -/
def SolverRel (s s' : Solver K n p m) : Prop :=
  ∃ vl vu r d rx ry rz rzl rzu,
    s' = { s with data := setVals s.data vl vu, w := setScr s.w r d rx ry rz rzl rzu } ∧
    HeadEq s.data.lb.cnt s.data.lb.val vl ∧ HeadEq s.data.ub.cnt s.data.ub.val vu

def ipRhs (d : Data K n p m) : Step K n p m :=
  { x := Vector.ofFn fun i => -d.c[i], y := d.b, z := d.h, z_lb := d.lb.val, z_ub := d.ub.val,
    s := Vec.const m 0, s_lb := Vec.const n 0, s_ub := Vec.const n 0 }

def ipOld (w0 : Work K n p m) : Step K n p m := ⟨w0.x, w0.y, w0.z, w0.z_lb, w0.z_ub, w0.s, w0.s_lb, w0.s_ub⟩

def ipFrom (d : Data K n p m) (w0 : Work K n p m) (ip : Step K n p m) : Work K n p m :=
  let rhs := ipRhs d
  let wA : Work K n p m :=
    { w0 with x := ip.x, y := ip.y, z := ip.z, z_lb := ip.z_lb, z_ub := ip.z_ub, s := ip.s, s_lb := ip.s_lb, s_ub := ip.s_ub,
              r := { w0.r with x := rhs.x, s := rhs.s, s_lb := rhs.s_lb, s_ub := rhs.s_ub } }
  let nl := d.lb.cnt
  let nu := d.ub.cnt
  if m + nl + nu ≠ 0 then
    let sNorm := vmax (vmax (vmax 0 (Vec.infNorm wA.s)) (headInfNorm nl wA.s_lb)) (headInfNorm nu wA.s_ub)
    if sNorm ≤ cs.c1e_4 then
      { wA with s := Vec.const m cs.c0_1, s_lb := d.lb.headUpd wA.s_lb fun _ => cs.c0_1,
                s_ub := d.ub.headUpd wA.s_ub fun _ => cs.c0_1,
                z := Vec.const m cs.c0_1, z_lb := d.lb.headUpd wA.z_lb fun _ => cs.c0_1,
                z_ub := d.ub.headUpd wA.z_ub fun _ => cs.c0_1 }
    else wA
  else wA

theorem ipBeforeShift_eq (s : Solver K n p m) (e : Env K n p m) (w0 : Work K n p m) (kkt1 : KKT K n p m) (b : Bool) :
    ipBeforeShift cs s e w0 kkt1 b =
      ipFrom cs s.data w0 (match KKT.solve e.be s.st.kkt s.data kkt1 (ipRhs s.data) (ipOld w0) b with
                           | some o => o
                           | none => ipOld w0) := rfl

theorem ipFrom_rel (d : Data K n p m) (vl vu : Vec K n) (w0 : Work K n p m) (r dd : Step K n p m) (rx : Vec K n) (ry : Vec K p)
    (rz : Vec K m) (rzl rzu : Vec K n) (ip : Step K n p m) :
    W0 (ipFrom cs d w0 ip) (ipFrom cs (setVals d vl vu) (setScr w0 r dd rx ry rz rzl rzu) ip) := by
  have h1 : ipFrom cs (setVals d vl vu) (setScr w0 r dd rx ry rz rzl rzu) ip = ipFrom cs d (setScr w0 r dd rx ry rz rzl rzu) ip := by
    rfl
  rw [h1]
  unfold ipFrom
  simp only [setScr]
  split
  · split
    · exact ⟨_, _, _, _, _, _, _, rfl⟩
    · exact ⟨_, _, _, _, _, _, _, rfl⟩
  · exact ⟨_, _, _, _, _, _, _, rfl⟩

theorem ipBeforeShift_rel (s : Solver K n p m) (e : Env K n p m) (vl vu : Vec K n)
    (hl : HeadEq s.data.lb.cnt s.data.lb.val vl) (hu : HeadEq s.data.ub.cnt s.data.ub.val vu) (W : Work K n p m)
    (w0 : Work K n p m) (r dd : Step K n p m) (rx : Vec K n) (ry : Vec K p)
    (rz : Vec K m) (rzl rzu : Vec K n) (kkt1 : KKT K n p m) (b : Bool) (e' : Env K n p m) (hbe : e'.be = e.be) :
    W0 (ipBeforeShift cs s e w0 kkt1 b)
       (ipBeforeShift cs { s with data := setVals s.data vl vu, w := W } e'
          (setScr w0 r dd rx ry rz rzl rzu) kkt1 b) := by
  rw [ipBeforeShift_eq, ipBeforeShift_eq, hbe]
  have hr : StepHeq s.data.lb.cnt s.data.ub.cnt (ipRhs s.data) (ipRhs (setVals s.data vl vu)) :=
    ⟨rfl, rfl, rfl, rfl, hl, hu, HeadEq.rfl' _ _, HeadEq.rfl' _ _⟩
  have hold : ipOld (setScr w0 r dd rx ry rz rzl rzu) = ipOld w0 := rfl
  simp only
  rw [hold, ← kktSolve_sameold e.be s.data vl vu kkt1 s.st.kkt (ipOld w0) b hr]
  exact ipFrom_rel cs s.data vl vu w0 r dd rx ry rz rzl rzu _

def LsRel (ls ls' : LoopState K n p m) : Prop := ls.c = ls'.c ∧ W0 ls.w ls'.w ∧ ls.info = ls'.info ∧ ls.kkt = ls'.kkt

def ipFinish (d : Data K n p m) (wA1 : Work K n p m) (kkt1 : KKT K n p m) (info1 : Info K) (refineOn : Bool) : LoopState K n p m :=
  let info2 := { info1 with factorRetires := 0 }
  let wB : Work K n p m := if m + d.lb.cnt + d.ub.cnt ≠ 0 then mehrotraApply cs d wA1 else wA1
  let info3 : Info K := if m + d.lb.cnt + d.ub.cnt ≠ 0 then { info2 with mu := muOf d wB } else info2
  let wC : Work K n p m :=
    { wB with zeta := wB.x, lambda := wB.y, nu := wB.z,
              nu_lb := d.lb.headUpd wB.nu_lb fun i => wB.z_lb[i],
              nu_ub := d.ub.headUpd wB.nu_ub fun i => wB.z_ub[i] }
  { c := { iter := 0, factorRetires := 0, refineOn := refineOn }, w := wC, info := info3, kkt := kkt1 }

theorem initialPoint_eq (s : Solver K n p m) (e : Env K n p m) (w0 : Work K n p m) (kkt1 : KKT K n p m) (info1 : Info K) (b : Bool) :
    initialPoint cs s e w0 kkt1 info1 b = ipFinish cs s.data (ipBeforeShift cs s e w0 kkt1 b) kkt1 info1 b := rfl

theorem ipFinish_rel (d : Data K n p m) (vl vu : Vec K n) {wA wA' : Work K n p m} (kkt1 : KKT K n p m) (info1 : Info K) (b : Bool)
    (hw : W0 wA wA') : LsRel (ipFinish cs d wA kkt1 info1 b) (ipFinish cs (setVals d vl vu) wA' kkt1 info1 b) := by
  obtain ⟨r, dd, rx, ry, rz, rzl, rzu, rfl⟩ := hw
  have h1 : ipFinish cs (setVals d vl vu) (setScr wA r dd rx ry rz rzl rzu) kkt1 info1 b = ipFinish cs d (setScr wA r dd rx ry rz rzl rzu) kkt1 info1 b := rfl
  rw [h1]
  unfold ipFinish
  by_cases h : m + d.lb.cnt + d.ub.cnt ≠ 0
  · simp only [h, ne_eq, not_false_eq_true, if_true]
    exact ⟨rfl, ⟨_, _, _, _, _, _, _, rfl⟩, rfl, rfl⟩
  · simp only [h, if_false]
    exact ⟨rfl, ⟨_, _, _, _, _, _, _, rfl⟩, rfl, rfl⟩

theorem solveStart_rel (s : Solver K n p m) (perm : Vector (Fin (n + p + m)) (n + p + m)) (vl vu : Vec K n)
    (r d : Step K n p m) (rx : Vec K n) (ry : Vec K p) (rz : Vec K m) (rzl rzu : Vec K n) :
    solveStart cs sqrtF { s with data := setVals s.data vl vu, w := setScr s.w r d rx ry rz rzl rzu } perm =
      (setScr (solveStart cs sqrtF s perm).1 r d rx ry rz rzl rzu, (solveStart cs sqrtF s perm).2.1, (solveStart cs sqrtF s perm).2.2) := rfl

theorem finish_rel (pk : PrecKind) (pre : Precond K n p m) (d : Data K n p m) (vl vu : Vec K n) {w w' : Work K n p m} (hw : W0 w w') :
    W0 (restoreBoxDual cs d (unscaleResults pk pre w)) (restoreBoxDual cs (setVals d vl vu) (unscaleResults pk pre w')) := by
  obtain ⟨r, dd, rx, ry, rz, rzl, rzu, rfl⟩ := hw
  exact ⟨r, dd, rx, ry, rz, rzl, rzu, rfl⟩

theorem mainLoop_rel (e e' : Env K n p m) (he : EnvRel e e') {ls ls' : LoopState K n p m} (h : LsRel ls ls') (h0 : ls.c.iter = 0) :
    LsRel (mainLoop e ls).1 (mainLoop e' ls').1 ∧ (mainLoop e ls).2 = (mainLoop e' ls').2 := by
  obtain ⟨hc, hw, hi, hk⟩ := h
  have hst : e'.st = e.st := by obtain ⟨vl, vu, rfl, _, _⟩ := he; rfl
  have hcs : e'.cs = e.cs := by obtain ⟨vl, vu, rfl, _, _⟩ := he; rfl
  have := loopG_rel e.st e.cs (realOps e) (realOps e') (realOps_rel e e' he) ls.c (ls.w, ls.kkt) ls.info (ls'.w, ls'.kkt)
    ⟨hw, hk⟩ (fun hne => absurd h0 hne)
  unfold mainLoop
  simp only
  rw [hst, hcs, ← hc, ← hi]
  obtain ⟨t1, t2, t3, t4⟩ := this
  exact ⟨⟨t1, t2.1, t3, t2.2⟩, t4⟩

/-- everything in `solve()` after the start state -/
def solveTail (s : Solver K n p m) (e : Env K n p m) (start : Work K n p m × KKT K n p m × Info K) : Solver K n p m × Status :=
  let il := initLoopG e.st e.cs (realOps e) s.refineOn 0 (start.1, start.2.1) start.2.2
  if !il.2.2.2.2 then
    let w' := restoreBoxDual cs s.data (unscaleResults s.pk s.pre start.1)
    ({ s with w := w', info := il.2.2.2.1, kkt := il.2.2.1.2, kktInitState := false, refineOn := il.1 }, .numerics)
  else
    let ls0 := initialPoint cs s e start.1 il.2.2.1.2 il.2.2.2.1 il.1
    let r := mainLoop e ls0
    let w' := restoreBoxDual cs s.data (unscaleResults s.pk s.pre r.1.w)
    ({ s with w := w', info := r.1.info, kkt := r.1.kkt, kktInitState := false, refineOn := r.1.c.refineOn }, r.2)

theorem solveTyped_eq (s : Solver K n p m) (perm : Vector (Fin (n + p + m)) (n + p + m)) :
    solveTyped cs sqrtF s perm =
      if !s.st.verify then ({ s with info := { s.info with status := .invalidSettings } }, .invalidSettings)
      else solveTail cs s (Solver.env cs sqrtF s perm) (solveStart cs sqrtF s perm) := rfl

theorem solveTail_rel (s : Solver K n p m) (vl vu : Vec K n) (r d : Step K n p m) (rx : Vec K n) (ry : Vec K p) (rz : Vec K m)
    (rzl rzu : Vec K n) (hl : HeadEq s.data.lb.cnt s.data.lb.val vl) (hu : HeadEq s.data.ub.cnt s.data.ub.val vu)
    (e e' : Env K n p m) (he : EnvRel e e') (start : Work K n p m × KKT K n p m × Info K) :
    SolverRel (solveTail cs s e start).1
      (solveTail cs { s with data := setVals s.data vl vu, w := setScr s.w r d rx ry rz rzl rzu } e'
        (setScr start.1 r d rx ry rz rzl rzu, start.2.1, start.2.2)).1 ∧
    (solveTail cs s e start).2 =
      (solveTail cs { s with data := setVals s.data vl vu, w := setScr s.w r d rx ry rz rzl rzu } e'
        (setScr start.1 r d rx ry rz rzl rzu, start.2.1, start.2.2)).2 := by
  have hst : e'.st = e.st := by obtain ⟨vl, vu, rfl, _, _⟩ := he; rfl
  have hcs : e'.cs = e.cs := by obtain ⟨vl, vu, rfl, _, _⟩ := he; rfl
  have hbe : e'.be = e.be := by obtain ⟨vl, vu, rfl, _, _⟩ := he; rfl
  have hil := initLoopG_rel (R := fun s s' : NumState K n p m => W0 s.1 s'.1 ∧ s.2 = s'.2) e.st e.cs (realOps e) (realOps e')
    (by
      intro b s s' h
      simp only [realOps]
      rw [← h.2, ← regFactor_rel e e' he s.2 b]
      exact ⟨⟨h.1, rfl⟩, rfl⟩)
    (by
      intro s s' info h
      refine ⟨h.1, ?_⟩
      simp only [realOps]
      rw [← h.2]
      exact kktScal_rel e e' he s.2 info.rho info.delta h.1)
    s.refineOn 0 (start.1, start.2.1) start.2.2 (setScr start.1 r d rx ry rz rzl rzu, start.2.1) ⟨⟨r, d, rx, ry, rz, rzl, rzu, rfl⟩, rfl⟩
  unfold solveTail
  simp only
  rw [hst, hcs]
  generalize initLoopG e.st e.cs (realOps e) s.refineOn 0 (start.1, start.2.1) start.2.2 = il at hil ⊢
  generalize initLoopG e.st e.cs (realOps e') s.refineOn 0 (setScr start.1 r d rx ry rz rzl rzu, start.2.1) start.2.2 = il' at hil ⊢
  obtain ⟨a, b, ⟨w, k⟩, info, ok⟩ := il
  obtain ⟨a', b', ⟨w', k'⟩, info', ok'⟩ := il'
  obtain ⟨h1, h2, ⟨h3, h4⟩, h5⟩ := hil
  simp only at h1 h2 h3 h4 h5
  obtain ⟨h5a, h5b⟩ := Prod.mk.inj h5
  subst h1 h2 h4 h5a h5b
  cases ok
  · simp only [Bool.not_false, if_true]
    refine ⟨?_, trivial⟩
    obtain ⟨r2, d2, rx2, ry2, rz2, rzl2, rzu2, hfin⟩ := finish_rel cs s.pk s.pre s.data vl vu (w := start.1) (w' := setScr start.1 r d rx ry rz rzl rzu) ⟨r, d, rx, ry, rz, rzl, rzu, rfl⟩
    exact ⟨vl, vu, r2, d2, rx2, ry2, rz2, rzl2, rzu2, by rw [hfin], hl, hu⟩
  · simp only [Bool.not_true, Bool.false_eq_true, if_false]
    obtain ⟨r3, d3, rx3, ry3, rz3, rzl3, rzu3, rfl⟩ := h3
    have hip := ipBeforeShift_rel cs s e vl vu hl hu (setScr s.w r d rx ry rz rzl rzu) start.1 r d rx ry rz rzl rzu k a e' hbe
    have hls : LsRel (initialPoint cs s e start.1 k info a)
        (initialPoint cs { s with data := setVals s.data vl vu, w := setScr s.w r d rx ry rz rzl rzu } e'
          (setScr start.1 r d rx ry rz rzl rzu) k info a) := by
      rw [initialPoint_eq, initialPoint_eq]
      exact ipFinish_rel cs s.data vl vu k info a hip
    have hml := mainLoop_rel e e' he hls rfl
    obtain ⟨⟨m1, m2, m3, m4⟩, m5⟩ := hml
    refine ⟨?_, m5⟩
    obtain ⟨r2, d2, rx2, ry2, rz2, rzl2, rzu2, hfin⟩ := finish_rel cs s.pk s.pre s.data vl vu m2
    exact ⟨vl, vu, r2, d2, rx2, ry2, rz2, rzl2, rzu2, by rw [hfin, ← m1, ← m3, ← m4], hl, hu⟩

theorem solveTyped_rel (s s' : Solver K n p m) (perm : Vector (Fin (n + p + m)) (n + p + m)) (h : SolverRel s s') :
    SolverRel (solveTyped cs sqrtF s perm).1 (solveTyped cs sqrtF s' perm).1 ∧
    (solveTyped cs sqrtF s perm).2 = (solveTyped cs sqrtF s' perm).2 := by
  obtain ⟨vl, vu, r, d, rx, ry, rz, rzl, rzu, rfl, hl, hu⟩ := h
  have he : EnvRel (Solver.env cs sqrtF s perm)
      (Solver.env cs sqrtF { s with data := setVals s.data vl vu, w := setScr s.w r d rx ry rz rzl rzu } perm) :=
    ⟨vl, vu, rfl, hl, hu⟩
  rw [solveTyped_eq, solveTyped_eq]
  by_cases hv : s.st.verify
  · simp only [hv, Bool.not_true, Bool.false_eq_true, if_false]
    rw [solveStart_rel]
    exact solveTail_rel cs s vl vu r d rx ry rz rzl rzu hl hu _ _ he _
  · simp only [hv, Bool.not_false, if_true]
    exact ⟨⟨vl, vu, r, d, rx, ry, rz, rzl, rzu, rfl, hl, hu⟩, trivial⟩
end solver
theorem packLoop_rel (keep : K → Bool) (store : K → K) (x : Vec K n) :
    ∀ (k c : Nat) (idx : Vector (Fin n) n) (val val' : Vec K n), HeadEq c val val' →
      (packLoop keep store x k (c, idx, val)).1 = (packLoop keep store x k (c, idx, val')).1 ∧
      (packLoop keep store x k (c, idx, val)).2.1 = (packLoop keep store x k (c, idx, val')).2.1 ∧
      HeadEq (packLoop keep store x k (c, idx, val)).1 (packLoop keep store x k (c, idx, val)).2.2
        (packLoop keep store x k (c, idx, val')).2.2
  | 0, c, idx, val, val', h => ⟨rfl, rfl, h⟩
  | k+1, c, idx, val, val', h => by
    have ih := packLoop_rel keep store x k c idx val val' h
    simp only [packLoop]
    generalize packLoop keep store x k (c, idx, val) = a at ih ⊢
    generalize packLoop keep store x k (c, idx, val') = a' at ih ⊢
    obtain ⟨c1, i1, v1⟩ := a
    obtain ⟨c2, i2, v2⟩ := a'
    obtain ⟨h1, h2, h3⟩ := ih
    simp only at h1 h2 h3
    subst h1 h2
    by_cases hk : k < n
    · simp only [hk, dite_true]
      by_cases hkeep : keep x[k] = true
      · simp only [hkeep, if_true]
        by_cases hc : c1 < n
        · simp only [hc, dite_true]
          refine ⟨trivial, trivial, ?_⟩
          intro i hi
          by_cases hic : i.val = c1
          · simp [Vector.getElem_set, hic]
          · have : i.val < c1 := by omega
            have := h3 i this
            simp only [Fin.getElem_fin] at this ⊢
            rw [Vector.getElem_set_ne _ _ (by omega), Vector.getElem_set_ne _ _ (by omega)]
            exact this
        · simp only [hc, dite_false]
          exact ⟨trivial, trivial, h3⟩
      · simp only [hkeep, Bool.false_eq_true, if_false]
        exact ⟨trivial, trivial, h3⟩
    · simp only [hk, dite_false]
      exact ⟨trivial, trivial, h3⟩

/-- same packed side up to the dead tail of the values -/
structure BoxRel (b b' : BoxSide K n) : Prop where
  cnt : b'.cnt = b.cnt
  idx : b'.idx = b.idx
  sc : b'.sc = b.sc
  val : HeadEq b.cnt b.val b'.val

theorem DataRel.of_fields {d d' : Data K n p m} (hP : d'.P = d.P) (hAT : d'.AT = d.AT) (hGT : d'.GT = d.GT) (hc : d'.c = d.c)
    (hb : d'.b = d.b) (hh : d'.h = d.h) (hl : BoxRel d.lb d'.lb) (hu : BoxRel d.ub d'.ub) : DataRel d d' := by
  obtain ⟨P', AT', GT', c', b', h', lb', ub'⟩ := d'
  obtain ⟨lc, li, ls, lv⟩ := lb'
  obtain ⟨uc, ui, us, uv⟩ := ub'
  obtain ⟨l1, l2, l3, l4⟩ := hl
  obtain ⟨u1, u2, u3, u4⟩ := hu
  simp only at hP hAT hGT hc hb hh l1 l2 l3 l4 u1 u2 u3 u4
  subst hP hAT hGT hc hb hh l1 l2 l3 u1 u2 u3
  exact ⟨lv, uv, rfl, l4, u4⟩

theorem DataRel.lb {d d' : Data K n p m} (h : DataRel d d') : BoxRel d.lb d'.lb := by
  obtain ⟨vl, vu, rfl, hl, hu⟩ := h
  exact ⟨rfl, rfl, rfl, hl⟩

theorem DataRel.ub {d d' : Data K n p m} (h : DataRel d d') : BoxRel d.ub d'.ub := by
  obtain ⟨vl, vu, rfl, hl, hu⟩ := h
  exact ⟨rfl, rfl, rfl, hu⟩

theorem setupLb_rel (cs : Consts K) {old old' : BoxSide K n} (x : Option (Vec K n)) (h : old'.idx = old.idx) (hs : old'.sc = old.sc) :
    BoxRel (setupLb cs old x) (setupLb cs old' x) := by
  cases x with
  | none => exact ⟨rfl, h, hs, fun i hi => absurd hi (Nat.not_lt_zero _)⟩
  | some x =>
    simp only [setupLb]
    have := packLoop_rel (fun v => decide (-cs.piqpInf < v)) (fun v => -v) x n 0 old.idx old.val old'.val
      (fun i hi => absurd hi (Nat.not_lt_zero _))
    rw [h]
    exact ⟨this.1.symm, this.2.1.symm, hs, this.2.2⟩

theorem setupUb_rel (cs : Consts K) {old old' : BoxSide K n} (x : Option (Vec K n)) (h : old'.idx = old.idx) (hs : old'.sc = old.sc) :
    BoxRel (setupUb cs old x) (setupUb cs old' x) := by
  cases x with
  | none => exact ⟨rfl, h, hs, fun i hi => absurd hi (Nat.not_lt_zero _)⟩
  | some x =>
    simp only [setupUb]
    have := packLoop_rel (fun v => decide (v < cs.piqpInf)) (fun v => v) x n 0 old.idx old.val old'.val
      (fun i hi => absurd hi (Nat.not_lt_zero _))
    rw [h]
    exact ⟨this.1.symm, this.2.1.symm, hs, this.2.2⟩

theorem setupRaw_rel (cs : Consts K) (p1 p2 : K) (hn : 0 < n) (P : Mat K n n) (c : Vec K n) (AT : Mat K n p) (b : Vec K p)
    (GT : Mat K n m) (h : Option (Vec K m)) (xlb xub : Option (Vec K n)) (hh : h.isSome = true ∨ m = 0) :
    DataRel (setupRaw cs p1 hn P c AT b GT h xlb xub) (setupRaw cs p2 hn P c AT b GT h xlb xub) := by
  unfold setupRaw
  apply DataRel.of_fields
  · rfl
  · rfl
  · cases h <;> rfl
  · rfl
  · rfl
  · cases h with
    | none =>
      rcases hh with hh | hh
      · cases hh
      · exact vec0_eq hh _ _
    | some h => rfl
  · exact setupLb_rel cs xlb rfl rfl
  · exact setupUb_rel cs xub rfl rfl

section precond
variable (kind : PrecKind) (sqrtF : K → K) (cs : Consts K)

omit kind sqrtF cs in
theorem bumpByBox_val (c : Nat) (ix : Vector (Fin n) n) (sc v v' : Vec K n) :
    ∀ (k : Nat) (acc : Vec K n), bumpByBox (⟨c, ix, sc, v'⟩ : BoxSide K n) k acc = bumpByBox ⟨c, ix, sc, v⟩ k acc
  | 0, acc => rfl
  | k+1, acc => by
    simp only [bumpByBox]
    rw [bumpByBox_val c ix sc v v' k acc]

omit kind sqrtF cs in
theorem bump_l (d : Data K n p m) (vl vu : Vec K n) (k : Nat) (acc : Vec K n) :
    bumpByBox (setVals d vl vu).lb k acc = bumpByBox d.lb k acc := bumpByBox_val d.lb.cnt d.lb.idx d.lb.sc d.lb.val vl k acc
omit kind sqrtF cs in
theorem bump_u (d : Data K n p m) (vl vu : Vec K n) (k : Nat) (acc : Vec K n) :
    bumpByBox (setVals d vl vu).ub k acc = bumpByBox d.ub k acc := bumpByBox_val d.ub.cnt d.ub.idx d.ub.sc d.ub.val vu k acc
omit kind sqrtF cs in
theorem sbs_l (d : Data K n p m) (vl vu a b : Vec K n) : scaleBoxSc (setVals d vl vu).lb a b = scaleBoxSc d.lb a b := rfl
omit kind sqrtF cs in
theorem sbs_u (d : Data K n p m) (vl vu a b : Vec K n) : scaleBoxSc (setVals d vl vu).ub a b = scaleBoxSc d.ub a b := rfl

theorem ruizBody_patch (sc : Bool) (d : Data K n p m) (pre : Precond K n p m) (vl vu : Vec K n) :
    ruizBody kind sqrtF cs sc ⟨setVals d vl vu, pre⟩ =
      ⟨setVals (ruizBody kind sqrtF cs sc ⟨d, pre⟩).d vl vu, (ruizBody kind sqrtF cs sc ⟨d, pre⟩).pre⟩ := by
  unfold ruizBody
  simp only [sv_P, sv_AT, sv_GT, sv_c, sv_b, sv_h, sv_lcnt, sv_ucnt, sv_lsc, sv_usc, bump_l, bump_u, sbs_l, sbs_u]
  cases sc
  · simp only [Bool.false_eq_true, if_false]
    rfl
  · simp only [if_true]
    rfl

theorem ruizLoop_patch (sc : Bool) (vl vu : Vec K n) : ∀ (fuel : Nat) (d : Data K n p m) (pre : Precond K n p m),
    ruizLoop kind sqrtF cs sc fuel ⟨setVals d vl vu, pre⟩ =
      ⟨setVals (ruizLoop kind sqrtF cs sc fuel ⟨d, pre⟩).d vl vu, (ruizLoop kind sqrtF cs sc fuel ⟨d, pre⟩).pre⟩
  | 0, d, pre => rfl
  | fuel+1, d, pre => by
    simp only [ruizLoop]
    have hc : ruizCond cs (⟨setVals d vl vu, pre⟩ : RuizState K n p m) = ruizCond cs ⟨d, pre⟩ := rfl
    rw [hc]
    split
    · rw [ruizBody_patch]
      exact ruizLoop_patch sc vl vu fuel _ _
    · rfl

theorem ruizBody_box (sc : Bool) (st : RuizState K n p m) :
    (ruizBody kind sqrtF cs sc st).d.lb.cnt = st.d.lb.cnt ∧ (ruizBody kind sqrtF cs sc st).d.lb.val = st.d.lb.val ∧
    (ruizBody kind sqrtF cs sc st).d.ub.cnt = st.d.ub.cnt ∧ (ruizBody kind sqrtF cs sc st).d.ub.val = st.d.ub.val := by
  unfold ruizBody
  cases sc
  · simp only [Bool.false_eq_true, if_false]; exact ⟨trivial, trivial, trivial, trivial⟩
  · simp only [if_true]; exact ⟨trivial, trivial, trivial, trivial⟩

theorem ruizLoop_box (sc : Bool) : ∀ (fuel : Nat) (st : RuizState K n p m),
    (ruizLoop kind sqrtF cs sc fuel st).d.lb.cnt = st.d.lb.cnt ∧ (ruizLoop kind sqrtF cs sc fuel st).d.lb.val = st.d.lb.val ∧
    (ruizLoop kind sqrtF cs sc fuel st).d.ub.cnt = st.d.ub.cnt ∧ (ruizLoop kind sqrtF cs sc fuel st).d.ub.val = st.d.ub.val
  | 0, st => ⟨rfl, rfl, rfl, rfl⟩
  | fuel+1, st => by
    simp only [ruizLoop]
    split
    · have h1 := ruizLoop_box sc fuel (ruizBody kind sqrtF cs sc st)
      have h2 := ruizBody_box kind sqrtF cs sc st
      exact ⟨h1.1.trans h2.1, h1.2.1.trans h2.2.1, h1.2.2.1.trans h2.2.2.1, h1.2.2.2.trans h2.2.2.2⟩
    · exact ⟨rfl, rfl, rfl, rfl⟩

/-- `scale_data` up to (not including) the scaling of the bounds -/
def scaleCore (d : Data K n p m) (pre : Precond K n p m) (reuse scaleCost : Bool) (maxIter : Nat) : Data K n p m × Precond K n p m :=
  let pre0 := { pre with nlb := d.lb.cnt, nub := d.ub.cnt }
  if !reuse then
    let zero (k : Nat) : Vec K k := Vec.const k 0
    let preI : Precond K n p m :=
      { pre0 with c := 1, dx := Vec.const n 1, dy := Vec.const p 1, dz := Vec.const m 1,
                  dlb := Vec.const n 1, dub := Vec.const n 1,
                  dxInv := zero n, dyInv := zero p, dzInv := zero m,
                  dlbInv := if kind = .denseRuiz then zero n else pre0.dlbInv,
                  dubInv := if kind = .denseRuiz then zero n else pre0.dubInv }
    let st := ruizLoop kind sqrtF cs scaleCost maxIter { d := d, pre := preI }
    let pr := st.pre
    (st.d, { pr with cInv := 1 / pr.c,
                     dxInv := Vector.ofFn fun k => 1 / pr.dx[k],
                     dyInv := Vector.ofFn fun k => 1 / pr.dy[k],
                     dzInv := Vector.ofFn fun k => 1 / pr.dz[k],
                     dlbInv := Vector.ofFn fun k => 1 / pr.dlb[k],
                     dubInv := Vector.ofFn fun k => 1 / pr.dub[k] })
  else
    let P1 := scaleP (scaleAll d.P pre0.c) pre0.dx
    ({ d with P := P1, c := Vector.ofFn fun k => d.c[k] * (pre0.c * pre0.dx[k]),
              AT := scaleMat d.AT pre0.dx pre0.dy, GT := scaleMat d.GT pre0.dx pre0.dz,
              lb := { d.lb with sc := scaleBoxSc d.lb pre0.dlb pre0.dx },
              ub := { d.ub with sc := scaleBoxSc d.ub pre0.dub pre0.dx } }, pre0)

omit kind sqrtF cs in
def scaleFinish (x : Data K n p m × Precond K n p m) : Data K n p m × Precond K n p m :=
  ({ x.1 with b := Vector.ofFn fun k => x.1.b[k] * x.2.dy[k],
              h := Vector.ofFn fun k => x.1.h[k] * x.2.dz[k],
              lb := { x.1.lb with val := headMap x.1.lb.cnt x.1.lb.val fun k => x.1.lb.val[k] * x.2.dlb[k] },
              ub := { x.1.ub with val := headMap x.1.ub.cnt x.1.ub.val fun k => x.1.ub.val[k] * x.2.dub[k] } }, x.2)

theorem scaleData_eq (d : Data K n p m) (pre : Precond K n p m) (reuse scaleCost : Bool) (maxIter : Nat) :
    Precond.scaleData kind sqrtF cs d pre reuse scaleCost maxIter =
      if kind = .identity then (d, pre) else scaleFinish (scaleCore kind sqrtF cs d pre reuse scaleCost maxIter) := by
  cases kind <;> cases reuse <;> rfl

theorem scaleCore_patch (d : Data K n p m) (pre : Precond K n p m) (reuse scaleCost : Bool) (maxIter : Nat) (vl vu : Vec K n) :
    scaleCore kind sqrtF cs (setVals d vl vu) pre reuse scaleCost maxIter =
      (setVals (scaleCore kind sqrtF cs d pre reuse scaleCost maxIter).1 vl vu, (scaleCore kind sqrtF cs d pre reuse scaleCost maxIter).2) := by
  unfold scaleCore
  cases reuse
  · simp only [Bool.not_false, if_true, sv_lcnt, sv_ucnt, ruizLoop_patch]
  · rfl

theorem scaleCore_box (d : Data K n p m) (pre : Precond K n p m) (reuse scaleCost : Bool) (maxIter : Nat) :
    (scaleCore kind sqrtF cs d pre reuse scaleCost maxIter).1.lb.cnt = d.lb.cnt ∧
    (scaleCore kind sqrtF cs d pre reuse scaleCost maxIter).1.lb.val = d.lb.val ∧
    (scaleCore kind sqrtF cs d pre reuse scaleCost maxIter).1.ub.cnt = d.ub.cnt ∧
    (scaleCore kind sqrtF cs d pre reuse scaleCost maxIter).1.ub.val = d.ub.val := by
  unfold scaleCore
  cases reuse
  · simp only [Bool.not_false, if_true]
    exact ruizLoop_box kind sqrtF cs scaleCost maxIter _
  · exact ⟨rfl, rfl, rfl, rfl⟩

theorem scaleData_rel {d d' : Data K n p m} (pre : Precond K n p m) (reuse scaleCost : Bool) (maxIter : Nat) (h : DataRel d d') :
    DataRel (Precond.scaleData kind sqrtF cs d pre reuse scaleCost maxIter).1 (Precond.scaleData kind sqrtF cs d' pre reuse scaleCost maxIter).1 ∧
    (Precond.scaleData kind sqrtF cs d pre reuse scaleCost maxIter).2 = (Precond.scaleData kind sqrtF cs d' pre reuse scaleCost maxIter).2 := by
  rw [scaleData_eq, scaleData_eq]
  by_cases hk : kind = .identity
  · simp only [hk, if_true]; exact ⟨h, trivial⟩
  · simp only [hk, if_false]
    obtain ⟨vl, vu, rfl, hl, hu⟩ := h
    rw [scaleCore_patch]
    obtain ⟨b1, b2, b3, b4⟩ := scaleCore_box kind sqrtF cs d pre reuse scaleCost maxIter
    generalize scaleCore kind sqrtF cs d pre reuse scaleCost maxIter = x at b1 b2 b3 b4 ⊢
    rw [← b1, ← b2] at hl
    rw [← b3, ← b4] at hu
    unfold scaleFinish
    refine ⟨?_, rfl⟩
    apply DataRel.of_fields
    · rfl
    · rfl
    · rfl
    · rfl
    · rfl
    · rfl
    · exact ⟨rfl, rfl, rfl, headMap_headEq hl (fun i hi _ => by rw [show (setVals x.1 vl vu).lb.val = vl from rfl, hl i hi])⟩
    · exact ⟨rfl, rfl, rfl, headMap_headEq hu (fun i hi _ => by rw [show (setVals x.1 vl vu).ub.val = vu from rfl, hu i hi])⟩

omit sqrtF cs in
theorem unscaleData_rel {d d' : Data K n p m} (pre : Precond K n p m) (h : DataRel d d') :
    DataRel (Precond.unscaleData kind d pre) (Precond.unscaleData kind d' pre) := by
  obtain ⟨vl, vu, rfl, hl, hu⟩ := h
  unfold Precond.unscaleData
  cases kind
  · simp only
    apply DataRel.of_fields <;> first | rfl | skip
    · exact ⟨rfl, rfl, rfl, headMap_headEq hl (fun i hi _ => by rw [show (setVals d vl vu).lb.val = vl from rfl, hl i hi])⟩
    · exact ⟨rfl, rfl, rfl, headMap_headEq hu (fun i hi _ => by rw [show (setVals d vl vu).ub.val = vu from rfl, hu i hi])⟩
  · simp only
    apply DataRel.of_fields <;> first | rfl | skip
    · exact ⟨rfl, rfl, rfl, headMap_headEq hl (fun i hi _ => by rw [show (setVals d vl vu).lb.val = vl from rfl, hl i hi])⟩
    · exact ⟨rfl, rfl, rfl, headMap_headEq hu (fun i hi _ => by rw [show (setVals d vl vu).ub.val = vu from rfl, hu i hi])⟩
  · exact ⟨vl, vu, rfl, hl, hu⟩
end precond

section api
variable (cs : Consts K) (sqrtF : K → K)

theorem SolverRel.of_fields {s s' : Solver K n p m} (h1 : s'.be = s.be) (h2 : s'.pk = s.pk) (h3 : s'.st = s.st)
    (hd : DataRel s.data s'.data) (h4 : s'.pre = s.pre) (h5 : s'.kkt = s.kkt) (hw : W0 s.w s'.w) (h6 : s'.info = s.info)
    (h7 : s'.kktInitState = s.kktInitState) (h8 : s'.setupDone = s.setupDone) (h9 : s'.refineOn = s.refineOn)
    (h10 : s'.hDisabled = s.hDisabled) : SolverRel s s' := by
  obtain ⟨be', pk', st', data', pre', kkt', w', info', ki', sd', ro', hd'⟩ := s'
  simp only at h1 h2 h3 hd h4 h5 hw h6 h7 h8 h9 h10
  subst h1 h2 h3 h4 h5 h6 h7 h8 h9 h10
  obtain ⟨vl, vu, rfl, hl, hu⟩ := hd
  obtain ⟨r, d, rx, ry, rz, rzl, rzu, rfl⟩ := hw
  exact ⟨vl, vu, r, d, rx, ry, rz, rzl, rzu, rfl, hl, hu⟩

theorem setupTyped_rel (p1 p2 : K) (hn : 0 < n) (be : Backend) (pk : PrecKind) (st : Settings K) (prevInfo : Info K)
    (P : Mat K n n) (c : Vec K n) (AT : Mat K n p) (b : Vec K p) (GT : Mat K n m) (h : Option (Vec K m))
    (xlb xub : Option (Vec K n)) (hh : h.isSome = true ∨ m = 0) :
    SolverRel (setupTyped cs sqrtF p1 hn be pk st prevInfo P c AT b GT h xlb xub)
              (setupTyped cs sqrtF p2 hn be pk st prevInfo P c AT b GT h xlb xub) := by
  have hraw := setupRaw_rel cs p1 p2 hn P c AT b GT h xlb xub hh
  have hpre : Precond.init (setupRaw cs p2 hn P c AT b GT h xlb xub) = Precond.init (setupRaw cs p1 hn P c AT b GT h xlb xub) := by
    obtain ⟨vl, vu, he, _, _⟩ := hraw
    rw [he]; rfl
  have hsc := scaleData_rel pk sqrtF cs (Precond.init (setupRaw cs p1 hn P c AT b GT h xlb xub)) false st.precScaleCost st.precIter.toNat hraw
  unfold setupTyped
  simp only
  rw [hpre]
  apply SolverRel.of_fields
  · rfl
  · rfl
  · rfl
  · exact hsc.1
  · exact hsc.2.symm
  · obtain ⟨vl, vu, he, _, _⟩ := hsc.1
    simp only
    rw [he]; rfl
  · exact ⟨_, _, _, _, _, _, _, rfl⟩
  · rfl
  · rfl
  · rfl
  · rfl
  · rfl

def updP (sparse : Bool) (maskP : Array Bool) (d0 : Data K n p m) (P : Option (Mat K n n)) : Data K n p m :=
  match P with
  | some P =>
    if sparse then
      { d0 with P := Mat.ofFn fun i j => if i.val ≤ j.val && maskP.getD (i.val * n + j.val) false then P[i][j] else d0.P[i][j] }
    else { d0 with P := upperOfMat P }
  | none => d0
def updA (d1 : Data K n p m) (A : Option (Mat K p n)) : Data K n p m :=
  match A with | some A => { d1 with AT := Mat.transpose A } | none => d1
def updG (hDisabled : Vector Bool m) (d2 : Data K n p m) (G : Option (Mat K m n)) (h : Option (Vec K m)) : Data K n p m :=
  match G with
  | some G => { d2 with GT := if h.isSome then Mat.transpose G else rezeroRows hDisabled (Mat.transpose G) }
  | none => d2
def updc (d3 : Data K n p m) (c : Option (Vec K n)) : Data K n p m := match c with | some c => { d3 with c := c } | none => d3
def updb (d4 : Data K n p m) (b : Option (Vec K p)) : Data K n p m := match b with | some b => { d4 with b := b } | none => d4
def updh (d5 : Data K n p m) (h : Option (Vec K m)) : Data K n p m :=
  match h with
  | some h => let (GT1, h1) := disableInf cs d5.GT h; { d5 with GT := GT1, h := h1 }
  | none => d5
def updBox (d6 : Data K n p m) (xlb xub : Option (Vec K n)) : Data K n p m :=
  let d7 := match xlb with | some _ => { d6 with lb := setupLb cs d6.lb xlb } | none => d6
  match xub with | some _ => { d7 with ub := setupUb cs d7.ub xub } | none => d7

theorem updateRaw_eq (sparse : Bool) (maskP : Array Bool) (s : Solver K n p m)
    (P : Option (Mat K n n)) (c : Option (Vec K n)) (A : Option (Mat K p n)) (b : Option (Vec K p))
    (G : Option (Mat K m n)) (h : Option (Vec K m)) (xlb xub : Option (Vec K n)) :
    updateRaw cs sparse maskP s P c A b G h xlb xub =
      updBox cs (updh cs (updb (updc (updG s.hDisabled (updA (updP sparse maskP (Precond.unscaleData s.pk s.data s.pre) P) A) G h) c) b) h) xlb xub := rfl

theorem updBox_rel {d d' : Data K n p m} (xlb xub : Option (Vec K n)) (h : DataRel d d') :
    DataRel (updBox cs d xlb xub) (updBox cs d' xlb xub) := by
  have hl := h.lb
  have hu := h.ub
  obtain ⟨vl, vu, rfl, _, _⟩ := h
  unfold updBox
  cases xlb <;> cases xub <;> simp only <;> apply DataRel.of_fields <;> first | rfl | skip
  · exact hl
  · exact hu
  · exact hl
  · simp only; exact setupUb_rel cs _ hu.idx hu.sc
  · simp only; exact setupLb_rel cs _ hl.idx hl.sc
  · exact hu
  · simp only; exact setupLb_rel cs _ hl.idx hl.sc
  · simp only; exact setupUb_rel cs _ hu.idx hu.sc

theorem updateRaw_rel (sparse : Bool) (maskP : Array Bool) {s s' : Solver K n p m} (hs : SolverRel s s')
    (P : Option (Mat K n n)) (c : Option (Vec K n)) (A : Option (Mat K p n)) (b : Option (Vec K p))
    (G : Option (Mat K m n)) (h : Option (Vec K m)) (xlb xub : Option (Vec K n)) :
    DataRel (updateRaw cs sparse maskP s P c A b G h xlb xub) (updateRaw cs sparse maskP s' P c A b G h xlb xub) := by
  obtain ⟨vl, vu, r, d, rx, ry, rz, rzl, rzu, rfl, hl, hu⟩ := hs
  rw [updateRaw_eq, updateRaw_eq]
  apply updBox_rel
  have h0 : DataRel (Precond.unscaleData s.pk s.data s.pre) (Precond.unscaleData s.pk (setVals s.data vl vu) s.pre) :=
    unscaleData_rel s.pk s.pre ⟨vl, vu, rfl, hl, hu⟩
  simp only
  obtain ⟨vl2, vu2, he, hl2, hu2⟩ := h0
  rw [he]
  have e1 : updP sparse maskP (setVals (Precond.unscaleData s.pk s.data s.pre) vl2 vu2) P =
      setVals (updP sparse maskP (Precond.unscaleData s.pk s.data s.pre) P) vl2 vu2 := by
    cases P <;> cases sparse <;> rfl
  have e2 : ∀ d1 : Data K n p m, updA (setVals d1 vl2 vu2) A = setVals (updA d1 A) vl2 vu2 := by
    intro d1; cases A <;> rfl
  have e3 : ∀ d1 : Data K n p m, updG s.hDisabled (setVals d1 vl2 vu2) G h = setVals (updG s.hDisabled d1 G h) vl2 vu2 := by
    intro d1; cases G <;> rfl
  have e4 : ∀ d1 : Data K n p m, updc (setVals d1 vl2 vu2) c = setVals (updc d1 c) vl2 vu2 := by
    intro d1; cases c <;> rfl
  have e5 : ∀ d1 : Data K n p m, updb (setVals d1 vl2 vu2) b = setVals (updb d1 b) vl2 vu2 := by
    intro d1; cases b <;> rfl
  have e6 : ∀ d1 : Data K n p m, updh cs (setVals d1 vl2 vu2) h = setVals (updh cs d1 h) vl2 vu2 := by
    intro d1; cases h <;> rfl
  rw [e1, e2, e3, e4, e5, e6]
  have b1 : ∀ d1 : Data K n p m, (updP sparse maskP d1 P).lb = d1.lb ∧ (updP sparse maskP d1 P).ub = d1.ub := by
    intro d1; cases P <;> cases sparse <;> exact ⟨rfl, rfl⟩
  have b2 : ∀ d1 : Data K n p m, (updA d1 A).lb = d1.lb ∧ (updA d1 A).ub = d1.ub := by
    intro d1; cases A <;> exact ⟨rfl, rfl⟩
  have b3 : ∀ d1 : Data K n p m, (updG s.hDisabled d1 G h).lb = d1.lb ∧ (updG s.hDisabled d1 G h).ub = d1.ub := by
    intro d1; cases G <;> exact ⟨rfl, rfl⟩
  have b4 : ∀ d1 : Data K n p m, (updc d1 c).lb = d1.lb ∧ (updc d1 c).ub = d1.ub := by
    intro d1; cases c <;> exact ⟨rfl, rfl⟩
  have b5 : ∀ d1 : Data K n p m, (updb d1 b).lb = d1.lb ∧ (updb d1 b).ub = d1.ub := by
    intro d1; cases b <;> exact ⟨rfl, rfl⟩
  have b6 : ∀ d1 : Data K n p m, (updh cs d1 h).lb = d1.lb ∧ (updh cs d1 h).ub = d1.ub := by
    intro d1; cases h <;> exact ⟨rfl, rfl⟩
  refine ⟨vl2, vu2, rfl, ?_, ?_⟩
  · rw [(b6 _).1, (b5 _).1, (b4 _).1, (b3 _).1, (b2 _).1, (b1 _).1]; exact hl2
  · rw [(b6 _).2, (b5 _).2, (b4 _).2, (b3 _).2, (b2 _).2, (b1 _).2]; exact hu2

theorem updateTyped_rel (sparse : Bool) (maskP : Array Bool) {s s' : Solver K n p m} (hs : SolverRel s s')
    (P : Option (Mat K n n)) (c : Option (Vec K n)) (A : Option (Mat K p n)) (b : Option (Vec K p))
    (G : Option (Mat K m n)) (h : Option (Vec K m)) (xlb xub : Option (Vec K n)) (reuse : Bool) :
    SolverRel (updateTyped cs sqrtF sparse maskP s P c A b G h xlb xub reuse)
              (updateTyped cs sqrtF sparse maskP s' P c A b G h xlb xub reuse) := by
  have hraw := updateRaw_rel cs sparse maskP hs P c A b G h xlb xub
  obtain ⟨vl, vu, r, d, rx, ry, rz, rzl, rzu, rfl, hl, hu⟩ := hs
  have hsc := scaleData_rel s.pk sqrtF cs s.pre reuse s.st.precScaleCost s.st.precIter.toNat hraw
  unfold updateTyped
  simp only
  apply SolverRel.of_fields
  · rfl
  · rfl
  · rfl
  · exact hsc.1
  · exact hsc.2.symm
  · obtain ⟨vl2, vu2, he, _, _⟩ := hsc.1
    simp only
    rw [he]; rfl
  · exact ⟨_, _, _, _, _, _, _, rfl⟩
  · rfl
  · rfl
  · rfl
  · rfl
  · rfl
end api
/-- same set-up solver (same dimensions, patterns, permutation) up to dead slots -/
def AnyRel (a a' : AnySolver K) : Prop :=
  ∃ (n p m : Nat) (hn : 0 < n) (s s' : Solver K n p m) (mP mA mG : Array Bool) (perm : Vector (Fin (n + p + m)) (n + p + m)),
    a = ⟨n, p, m, hn, s, mP, mA, mG, perm⟩ ∧ a' = ⟨n, p, m, hn, s', mP, mA, mG, perm⟩ ∧ SolverRel s s'

/-- same interface state up to dead slots -/
def ApiRel (st st' : ApiState K) : Prop :=
  st'.settings = st.settings ∧
  ((st.sol = none ∧ st'.sol = none) ∨ ∃ a a', st.sol = some a ∧ st'.sol = some a' ∧ AnyRel a a')

theorem validateSetup_none {P : RawMat K} {c : RawVec K} {A : Option (RawMat K)} {b : Option (RawVec K)}
    {G : Option (RawMat K)} {h : Option (RawVec K)} {xlb xub : Option (RawVec K)}
    (hv : validateSetup P c A b G h xlb xub = none) :
    (b = none → (match A with | some A => A.rows | none => 0) = 0) ∧
    (h = none → (match G with | some G => G.rows | none => 0) = 0) := by
  unfold validateSetup at hv
  simp only at hv
  split_ifs at hv with h1 h2 h3 h4 hb hh h7 h8
  constructor
  · intro hbn
    subst hbn
    have hb' : ¬ (decide (0 < (match A with | some A => A.rows | none => 0)) = true) := hb
    simp only [decide_eq_true_eq] at hb'
    omega
  · intro hhn
    subst hhn
    have hh' : ¬ (decide (0 < (match G with | some G => G.rows | none => 0)) = true) := hh
    simp only [decide_eq_true_eq] at hh'
    omega

variable (cs : Consts K) (sqrtF : K → K)

theorem SolverRel.info_eq {n p m : Nat} {s s' : Solver K n p m} (h : SolverRel s s') : s'.info = s.info := by
  obtain ⟨vl, vu, r, d, rx, ry, rz, rzl, rzu, rfl, hl, hu⟩ := h
  rfl

theorem SolverRel.be_eq {n p m : Nat} {s s' : Solver K n p m} (h : SolverRel s s') : s'.be = s.be := by
  obtain ⟨vl, vu, r, d, rx, ry, rz, rzl, rzu, rfl, hl, hu⟩ := h
  rfl

theorem SolverRel.set_st {n p m : Nat} {s s' : Solver K n p m} (h : SolverRel s s') (x : Settings K) :
    SolverRel { s with st := x } { s' with st := x } := by
  obtain ⟨vl, vu, r, d, rx, ry, rz, rzl, rzu, rfl, hl, hu⟩ := h
  exact ⟨vl, vu, r, d, rx, ry, rz, rzl, rzu, rfl, hl, hu⟩

theorem setup_rel_aux {n p m : Nat} (p1 p2 : K) (hn : 0 < n) (be : Backend) (pk : PrecKind) (st : Settings K) (prev prev' : Info K)
    (hprev : prev' = prev) (P : Mat K n n) (c : Vec K n) (AT : Mat K n p) (b b' : Vec K p) (hb : b' = b) (GT : Mat K n m)
    (h : Option (Vec K m)) (xlb xub : Option (Vec K n)) (hh : h.isSome = true ∨ m = 0) :
    SolverRel (setupTyped cs sqrtF p1 hn be pk st prev P c AT b GT h xlb xub)
              (setupTyped cs sqrtF p2 hn be pk st prev' P c AT b' GT h xlb xub) := by
  subst hprev hb
  exact setupTyped_rel cs sqrtF p1 p2 hn be pk st prev' P c AT b' GT h xlb xub hh

/-- **one call of the interface, run with two different contents of uninitialised memory**: same outcome, and states
    that differ only in dead slots -/
theorem apiStep_rel (p1 p2 : K) (st st' : ApiState K) (call : Call K) (h : ApiRel st st') :
    ApiRel (apiStep cs sqrtF p1 st call).1 (apiStep cs sqrtF p2 st' call).1 ∧
    (apiStep cs sqrtF p1 st call).2 = (apiStep cs sqrtF p2 st' call).2 := by
  obtain ⟨set, sol⟩ := st
  obtain ⟨set', sol'⟩ := st'
  obtain ⟨hset, hsol⟩ := h
  simp only at hset hsol
  subst hset
  cases call with
  | settings x =>
    simp only [apiStep]
    refine ⟨⟨rfl, ?_⟩, by first | rfl | trivial⟩
    rcases hsol with ⟨rfl, rfl⟩ | ⟨a, a', rfl, rfl, n, p, m, hn, s, s', mP, mA, mG, perm, rfl, rfl, hrel⟩
    · exact Or.inl ⟨rfl, rfl⟩
    · exact Or.inr ⟨_, _, rfl, rfl, n, p, m, hn, _, _, mP, mA, mG, perm, rfl, rfl, hrel.set_st x⟩
  | setup be pk P c A b G h xlb xub =>
    simp only [apiStep]
    cases hv : validateSetup P c A b G h xlb xub with
    | some msg => exact ⟨⟨rfl, hsol⟩, rfl⟩
    | none =>
      simp only
      by_cases hn : 0 < P.rows
      · simp only [hn, dite_true]
        have hnone := validateSetup_none hv
        refine ⟨⟨rfl, Or.inr ⟨_, _, rfl, rfl, _, _, _, hn, _, _, _, _, _, _, rfl, rfl, ?_⟩⟩, by first | rfl | trivial⟩
        refine setup_rel_aux cs sqrtF p1 p2 _ be pk set' _ _ ?_ _ _ _ _ _ ?_ _ _ _ _ ?_
        · rcases hsol with ⟨rfl, rfl⟩ | ⟨a, a', rfl, rfl, n, p, m, hn, s, s', mP, mA, mG, perm, rfl, rfl, hrel⟩
          · rfl
          · exact hrel.info_eq
        · cases b with
          | some b => rfl
          | none => exact vec0_eq (hnone.1 rfl) _ _
        · cases h with
          | some h => exact Or.inl rfl
          | none => exact Or.inr (hnone.2 rfl)
      · simp only [hn, dite_false]
        exact ⟨⟨rfl, hsol⟩, by first | rfl | trivial⟩
  | update P c A b G h xlb xub reuse =>
    rcases hsol with ⟨rfl, rfl⟩ | ⟨a, a', rfl, rfl, n, p, m, hn, s, s', mP, mA, mG, perm, rfl, rfl, hrel⟩
    · exact ⟨⟨rfl, Or.inl ⟨rfl, rfl⟩⟩, rfl⟩
    · simp only [apiStep]
      have hbe := hrel.be_eq
      have hval : validateUpdate (⟨n, p, m, hn, s', mP, mA, mG, perm⟩ : AnySolver K) (!s'.be.isDense) P c A b G h xlb xub =
          validateUpdate (⟨n, p, m, hn, s, mP, mA, mG, perm⟩ : AnySolver K) (!s.be.isDense) P c A b G h xlb xub := by
        rw [hbe]; rfl
      rw [hval, hbe]
      cases hv : validateUpdate (⟨n, p, m, hn, s, mP, mA, mG, perm⟩ : AnySolver K) (!s.be.isDense) P c A b G h xlb xub with
      | some msg =>
        exact ⟨⟨rfl, Or.inr ⟨_, _, rfl, rfl, n, p, m, hn, s, s', mP, mA, mG, perm, rfl, rfl, hrel⟩⟩, by first | rfl | trivial⟩
      | none =>
        simp only
        exact ⟨⟨rfl, Or.inr ⟨_, _, rfl, rfl, n, p, m, hn, _, _, mP, mA, mG, perm, rfl, rfl,
          updateTyped_rel cs sqrtF _ mP hrel _ _ _ _ _ _ _ _ reuse⟩⟩, by first | rfl | trivial⟩
  | solve =>
    rcases hsol with ⟨rfl, rfl⟩ | ⟨a, a', rfl, rfl, n, p, m, hn, s, s', mP, mA, mG, perm, rfl, rfl, hrel⟩
    · exact ⟨⟨rfl, Or.inl ⟨rfl, rfl⟩⟩, rfl⟩
    · simp only [apiStep]
      have hs := solveTyped_rel cs sqrtF s s' perm hrel
      refine ⟨⟨rfl, Or.inr ⟨_, _, rfl, rfl, n, p, m, hn, _, _, mP, mA, mG, perm, rfl, rfl, hs.1⟩⟩, ?_⟩
      rw [hs.2]
end Piqp.C07
