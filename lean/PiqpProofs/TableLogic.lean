/-
Decidable predicates over the translator-generated wiring tables (tie C), shared by
`PiqpProofs/Properties/C16.lean` and `PiqpProofs/Properties/C17.lean`.

Plain core Lean (no Mathlib).  Everything is a `Bool`-valued function so that each obligation
`P tables = true` is closed by kernel evaluation (`by decide`).

The Python failing-input search (`vlib/props/c17.py`) re-implements exactly these functions under the
same names and checks that the statement text of every theorem equals the statement it recomputes.
-/
import PiqpProofs.Generated.Tables

namespace Piqp.Tab
open Piqp.Gen

/-- first components -/
def keys {β : Type} (ps : List (String × β)) : List String := ps.map (fun p => p.1)

/-- second components -/
def vals (ps : List (String × String)) : List String := ps.map (fun p => p.2)

/-- every pair connects like-named things -/
def Wired (ps : List (String × String)) : Bool := ps.all (fun p => p.1 == p.2)

/-- like `Wired`, but the explicitly listed alias pairs are allowed too -/
def WiredUpTo (aliases ps : List (String × String)) : Bool :=
  ps.all (fun p => p.1 == p.2 || aliases.contains p)

def NoDup : List String → Bool
  | [] => true
  | x :: r => !r.contains x && NoDup r

def Subset (xs ys : List String) : Bool := xs.all (fun x => ys.contains x)

def SameSet (xs ys : List String) : Bool := Subset xs ys && Subset ys xs

/-- `xs` lists every element of `fields` exactly once and nothing else -/
def Covers (xs fields : List String) : Bool := NoDup xs && SameSet xs fields

/-- two association tables with unique keys hold exactly the same rows (order is irrelevant) -/
def SameTable {β : Type} [BEq β] (xs ys : List (String × β)) : Bool :=
  NoDup (keys xs) && NoDup (keys ys) && xs.all (fun p => ys.contains p) && ys.all (fun p => xs.contains p)

def lookup (k : String) : List (String × String) → Option String
  | [] => none
  | p :: r => if p.1 == k then some p.2 else lookup k r

/-- for every core member `(name, coreType)`: the binding's entry for `name` is `tmap coreType` -/
def TypesMatch (tmap core binding : List (String × String)) : Bool :=
  core.all (fun p =>
    match lookup p.2 tmap, lookup p.1 binding with
    | some a, some b => a == b
    | _, _ => false)

def AllVals (ps : List (String × String)) (allowed : List String) : Bool :=
  ps.all (fun p => allowed.contains p.2)

/-- both lists hold the same triples (order and multiplicity irrelevant) -/
def SameTriples (xs ys : List (String × String × String)) : Bool :=
  xs.all (fun p => ys.contains p) && ys.all (fun p => xs.contains p)

/-! ### derived tables and the fixed (hand-written, reviewable) vocabulary -/

/-- the vector members of `Result<T>` (everything except the nested `info`) -/
def resultVecFields : List String :=
  keys (coreResultTypes.filter (fun p => p.2 == "Vec<T>"))

/-- Matlab/Octave expose `Info::status` twice: `status` (text) and `status_val` (number).
    These are the only key/member pairs allowed to differ in name. -/
def infoAliases : List (String × String) := [("status_val", "status")]

/-- core type ↦ C type in `piqp_typedef.h` -/
def cTypeMap : List (String × String) :=
  [("T", "piqp_float"), ("isize", "piqp_int"), ("bool", "piqp_int"), ("Status", "piqp_status"),
   ("Vec<T>", "const piqp_float*"), ("Info<T>", "piqp_info")]

/-- core type ↦ annotation in `__init__.pyi` -/
def pyiTypeMap : List (String × String) :=
  [("T", "float"), ("isize", "int"), ("bool", "bool"), ("Status", "piqp.Status"),
   ("Vec<T>", "numpy.ndarray[numpy.float64[m, 1]]"), ("Info<T>", "piqp.Info")]

/-- core type ↦ cast applied to `mxGetScalar` in `copy_mx_struct_to_settings` -/
def mexCastMap : List (String × String) :=
  [("T", "double"), ("isize", "piqp::isize"), ("bool", "bool")]

/-- core type ↦ `octave_value` accessor in `copy_ov_struct_to_settings` -/
def octAccessorMap : List (String × String) :=
  [("T", "double_value"), ("isize", "int_value"), ("bool", "bool_value")]

def mexRequiredUses : List (String × String × String) :=
  [("settings_to_mx_struct", "dense", "settings"), ("settings_to_mx_struct", "sparse", "settings"),
   ("copy_mx_struct_to_settings", "dense", "settings"), ("copy_mx_struct_to_settings", "sparse", "settings"),
   ("result_to_mx_struct", "dense", "result"), ("result_to_mx_struct", "sparse", "result")]

def octRequiredUses : List (String × String × String) :=
  [("settings_to_ov_struct", "dense", "settings"), ("settings_to_ov_struct", "sparse", "settings"),
   ("copy_ov_struct_to_settings", "dense", "settings"), ("copy_ov_struct_to_settings", "sparse", "settings"),
   ("result_to_ov_struct", "dense", "result"), ("result_to_ov_struct", "sparse", "result")]

def solverProps : List (String × String × String) :=
  [("settings", "settings", "readwrite"), ("result", "result", "readonly")]

def pyRequiredClasses : List String :=
  ["Settings", "Info", "Result", "Status", "DenseSolver", "SparseSolver"]

end Piqp.Tab
