import PiqpModel
def main : IO Unit := IO.println "driver"
