import PiqpModel
import PiqpModel.Driver.KKTCmd
import PiqpModel.Driver.SolCmd
import PiqpModel.Driver.SkelCmd
import PiqpModel.Driver.LdlCmd
open Piqp Piqp.Driver

structure DState where
  km : Option KM := none
  sm : Option SM := none
  skelH : Option SkelHeader := none
  skelObs : Array (String × Array Float) := #[]

def handle (st : DState) (line : String) : DState × List String :=
  let toks := (line.trimAscii.toString.splitOn " ").filter (· ≠ "")
  match toks with
  | [] => (st, [])
  | "case" :: rest => (st, ["case " ++ " ".intercalate rest])
  | cmd :: args =>
    if cmd.startsWith "#" then (st, [])
    else if cmd = "kkt.new" then
      match runP kmNew args with
      | .ok km => ({ st with km := some km }, [])
      | .error e => (st, ["error " ++ e])
    else if cmd.startsWith "kkt." then
      match st.km with
      | none => (st, ["error no kkt machine"])
      | some km =>
        match runP (kmStep km cmd) args with
        | .ok (km', out) => ({ st with km := some km' }, out)
        | .error e => (st, ["error " ++ e])
    else if cmd = "skel.begin" then
      match runP parseHeader args with
      | .ok h => ({ st with skelH := some h, skelObs := #[] }, [])
      | .error e => (st, ["error " ++ e])
    else if cmd = "skel.o" then
      match args with
      | kind :: vals =>
        match vals.mapM floatOfHex with
        | some fs => ({ st with skelObs := st.skelObs.push (kind, fs.toArray) }, [])
        | none => (st, ["error bad observation"])
      | [] => (st, ["error empty observation"])
    else if cmd = "skel.end" then
      match st.skelH with
      | some h => ({ st with skelH := none, skelObs := #[] }, skelReplay h st.skelObs.toList)
      | none => (st, ["error skel.end without begin"])
    else if cmd.startsWith "ldl." || cmd.startsWith "util." || cmd.startsWith "ord." || cmd.startsWith "csc." then
      match runP (ldlStep cmd) args with
      | .ok out => (st, out)
      | .error e => (st, ["error " ++ e])
    else if cmd = "sol.new" then
      match runP smNew args with
      | .ok sm => ({ st with sm := some sm }, [])
      | .error e => (st, ["error " ++ e])
    else if cmd.startsWith "sol." then
      match st.sm with
      | none => (st, ["error no solver machine"])
      | some sm =>
        match runP (smStep sm cmd) args with
        | .ok (sm', out) => ({ st with sm := some sm' }, out)
        | .error e => (st, ["error " ++ e])
    else (st, ["error unknown command " ++ cmd])

partial def loop (h : IO.FS.Stream) (out : IO.FS.Stream) (st : DState) : IO Unit := do
  let line ← h.getLine
  if line.isEmpty then return ()
  let (st', outs) := handle st line
  for o in outs do out.putStrLn o
  out.flush
  loop h out st'

def main : IO Unit := do
  let stdin ← IO.getStdin
  let stdout ← IO.getStdout
  loop stdin stdout {}
