#!/usr/bin/env python3
"""Regenerates MANIFEST.json from the table below (single source of truth for check registration)."""
import json, os
ROOT = os.path.dirname(os.path.abspath(__file__))
props = [json.loads(l) for l in open(os.path.join(ROOT, "properties.jsonl"))]

CHECKS = {
 "C13": dict(category="proof",
   text="Lean theorems: for each of the five back ends the step returned by the model's KKT solve satisfies the full un-eliminated regularised Newton system whenever the inner factorisation solves the reduced system; cache refreshes equal a fresh build when the option mask covers what changed; refinement never increases the residual. The model (executed at exact rationals) is compared on every run with the real dense::KKT<Q>/sparse::KKT<Q,int,Mode> instantiated with an exact scalar, on random and enumerated op sequences, as exact strings; the property is also evaluated directly on the implementation's exact outputs.",
   design_ref="§6 C13", technique="Lean 4 proof (elimination theorems over an ordered field) + exact-rational differential correspondence with the real templates",
   note="Lean kernel + propext/Classical.choice/Quot.sound; hand-written model tied by tie A (finite sample); dense denotation of sparse matrices; IEEE rounding not modelled"),
}

NA_REASON = "check not built yet in this round (machinery under construction; see DESIGN.md §10 build order)"

def main():
    checks, na = [], []
    for p in props:
        pid = p["id"]
        if pid in CHECKS:
            c = CHECKS[pid]
            checks.append({
                "property_id": pid,
                "quick_cmd": f"./check {pid} --tier quick",
                "thorough_cmd": f"./check {pid} --tier thorough",
                "evidence_file": f"evidence/{pid}.json",
                "replay_cmd_template": f"./check {pid} --replay {{path}}",
                "engine": "lean4-proof+exact-correspondence",
                "level_claimed": {"category": c["category"], "text": c["text"], "design_ref": c["design_ref"]},
                "level_note": c["note"],
                "technique": c["technique"],
            })
        else:
            na.append({"property_id": pid, "reason": NA_REASON})
    man = {
        "version": 1,
        "setup_cmd": "./setup.sh",
        "hooks": {
            "guard": "PIQP_VERIF",
            "enable": "harnesses under /verif/harness are compiled against /repo/include with -DPIQP_VERIF",
            "baseline_off_cmd": "cmake --build /repo/_build -j16 && ctest --test-dir /repo/_build -j8 --timeout 900",
            "source_commits": [],
            "add_only": True,
        },
        "engines": [
            {"name": "lean4-proof+exact-correspondence", "path": "lean/", "serves_properties": sorted(CHECKS),
             "kind_free_text": "Lean 4 model + theorems (lake build, axiom audit) tied to the code by exact-rational differential runs of the real templates (harness/*.cpp, T = GMP rational) against the compiled model driver"},
        ],
        "checks": checks,
        "notes": "All checks are `./check <id> --tier quick|thorough` (cwd /verif); VERIF_SEED selects the random stream. See DESIGN.md.",
        "not_applicable": na,
    }
    json.dump(man, open(os.path.join(ROOT, "MANIFEST.json"), "w"), indent=1)

if __name__ == "__main__":
    main()
