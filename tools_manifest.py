#!/usr/bin/env python3
"""Regenerates MANIFEST.json from the table below (single source of truth for check registration)."""
import json, os
ROOT = os.path.dirname(os.path.abspath(__file__))
props = [json.loads(l) for l in open(os.path.join(ROOT, "properties.jsonl"))]

CHECKS = {
 "C01": dict(category="proof",
   text="Lean theorem solved_certificate: for every back end (arbitrary inner factorisation), every factorisation-failure pattern, refinement on or off, if the solver state is a coherent change of variables of the user's data (C15 Scaled + InvFull, proved for scale_data) and the main loop returns SOLVED, then at the returned iterate, unscaled, every entry of the user's stationarity residual, every equality/inequality row and every packed bound slot of the user's primal residual is below eps_abs + eps_rel*(reported relative scale), the gap test holds if requested and the reported objectives are the user's. Ingredients, each a theorem: solved_implies_termination_test (loop logic, every LoopOps), loop_solved_fresh (the residual fields the test reads belong to the returned iterate, incl. the retry paths after a boundary shift), dual_residual_is_users / primal_residuals_are_users / objectives_are_users (scaling algebra). Tie: exact white-box correspondence of the whole-solver model with the real DenseSolver<Q>/SparseSolver<Q,int,Mode> templates on 5 back ends x {Ruiz, identity} x all 16 bound patterns at n=2 and random problems/settings/update histories; every SOLVED result of the implementation is certified exactly (Lean predicate certFails for the user's unscaled data).",
   design_ref="§6 C01", technique="Lean 4 proof over the solver model + exact-rational differential correspondence + exact certificate predicate",
   note="exact arithmetic only (rounding not modelled); exact runs limited to 1-2 IPM iterations on n<=4; the certificate theorem is stated for the Ruiz preconditioners (identity is the trivial instance) and for the packed bound multipliers (C08 restore_after_setupLb/Ub gives the per-variable form)"),
 "C04": dict(category="proof",
   text="Lean theorems setup_good / update_good / solve_good: the invariant Good (stored data = effective data under the preconditioner's change of variables, inverse scalings coherent, every KKT cache in agreement with the stored data) is established by setup and preserved by update for every subset of the 8 arguments, dense or sparse P update, either reuse_preconditioner value, and by solve through every rescaling and refactorisation; solve_solved_certificate: SOLVED after any such history carries the optimality certificate of the data the solver was updated to (C01 applied to the coherent state); updateTyped_frame. Tie: exact white-box correspondence after every op over all 2^8 argument subsets x reuse x solve-in-between, random longer histories incl. repeated setup and h crossing the infinity threshold; every SOLVED after updates is certified exactly for the effective data.",
   design_ref="§6 C04", technique="Lean 4 proof (frame/invariant over operations) + exact-rational white-box correspondence over update histories",
   note="theorems cover the Ruiz preconditioners; 'same trajectory as a fresh solver' (reuse=false) is carried by the exact correspondence, not by a theorem; known finding F16b (h made finite again without G) is a defect of the effective-data semantics itself and is reported as KNOWN-FINDING"),
 "C05": dict(category="proof",
   text="Theorems validateSetup_none_iff / setup_done_iff (classification is complete: setup succeeds exactly on dimension-consistent argument lists with n > 0 - every wrong size of every argument, a missing b with p > 0, a missing h with m > 0 is rejected and nothing else is), toVec_faithful (on accepted sizes the typed view of a vector argument is the caller's array, no padding or truncation), rejected_is_identity (for every state and every call the model reports as rejected - any argument with a wrong size, sparse nnz/pattern mismatch, call before setup, rejected setup - the state is unchanged) and rejection_transparent (for every call history with rejected calls at any positions, the final state and the outcomes of all other calls are those of the history in which the rejected calls were never made). Tie: the model's rejection classification and messages are compared with the real code on every kind of invalid call injected at every position of valid histories; the implementation's white-box state is compared across the rejected call and all later outputs with a twin history, exactly.",
   design_ref="§6 C05", technique="Lean 4 proof (state-machine: rejected call = identity) + exact differential correspondence with injected invalid calls and twin histories",
   note="memory-safety clause (no out-of-bounds access) is outside the model; it is exercised by the same histories but not proved"),
 "C07": dict(category="proof",
   text="Theorems garbage_independent / garbage_independent_rel (two executions of ANY call history - setup, update with any argument subset, solve, settings changes, rejected calls - whose states differ only in never-written buffer slots, with arbitrary per-slot garbage that changes at every call, return identical outcomes, statuses, all 13 result vectors and info after every call; proved for every scalar type, by a 2-safety argument over the whole interface model: loopG_rel, initLoopG_rel, realOps_rel, solveTyped_rel, setupTyped_rel, updateTyped_rel, apiStep_rel in PiqpProofs/Garbage.lean), observe_rel, apiRel_refl, instances_independent (the interface step has no global component: steps of two instances commute), no_hidden_static_state (decide over the table of mutable static-storage variables regenerated from include/piqp and interfaces/c on every run by translate/statics.py: none outside the PIQP_VERIF hook header) + hidden-state probe (the same exact history alone in a fresh process / after other solver instances on other data / twice in a row must print the same exact strings, all five back ends, both preconditioners) + exact poison tie: the real templates run with an exact scalar whose never-written values are tagged; use of such a value as an operand is counted per op (must be 0) and never-written slots reaching outputs are compared with the model, over all short words of pattern-growing/shrinking updates and random histories.",
   design_ref="§6 C07", technique="Lean 4 proof (2-safety / non-interference of uninitialised slots over the whole interface model; decide over the regenerated static-storage table) + tagged-uninitialised exact scalar run of the real templates + exact cross-instance process probe",
   note="partial: real heap/stack pre-states, object relocation and threads are runtime behaviour not exhibited by the model; Eigen-internal scratch is trusted"),
 "C08": dict(category="proof",
   text="Lean theorems restoreBox_spec / restore_after_setupLb / restore_after_setupUb (for every n and every finite/infinite pattern the descending swap loop puts packed slot t at variable idx t and exactly the fill value, 0 resp. +inf, at every variable without a finite bound; the packing produced by setup_lb_data/setup_ub_data is strictly increasing: packLoop_inv), mehrotra_in_cone / initialPoint_in_cone (after the two Mehrotra-style shifts every active slack and multiplier of the initial point is strictly positive, under the guard that the shifted complementarity product is positive), step_in_cone / stepNumOp_in_cone / mainLoop_in_cone / solve_loop_in_cone (strict positivity is an invariant of the fraction-to-boundary rule for EVERY direction and of the whole main loop at every exit and every iteration budget, every back end, every factorisation outcome), swapLoop_mem. Tie: wellFormedFails evaluated exactly on results equal to the implementation's for all 4^n bound patterns (n=2 all back ends and preconditioners, n=3), budgets 1,2 and re-solves with n_lb != n_ub.",
   design_ref="§6 C08", technique="Lean 4 proof (index loop) + exhaustive bound-pattern enumeration at T=Q with an exact well-formedness predicate",
   note="exact arithmetic: overflow to +-inf in double is outside the model; positivity of the *unscaled* results additionally needs positive (not only non-zero) Ruiz scalings, which is carried by the exact correspondence; budgets > 2 need double precision"),
 "C09": dict(category="proof",
   text="Theorems status_eq_info_status, iter_le_max_iter (every LoopOps) and solved_objectives (at SOLVED, for every back end and failure pattern: info.primal_obj and info.dual_obj are exactly the primal and dual objectives of the unscaled returned point for the user's data, cost scaling included, and primal_inf/dual_inf are the norms formed from the residuals of that same point) + exact evaluation of diagFails: after every solve of the real solver at T=Q, info.status/iter/primal_obj/dual_obj/duality_gap (and primal_inf/dual_inf for verdict statuses) are compared for exact equality with the quantities recomputed from the user's unscaled data at the returned point, incl. scale_cost=true.",
   design_ref="§6 C09", technique="Lean 4 proof + exact diagnostics predicate on exact-rational runs of the real templates",
   note="exact arithmetic; MAX_ITER primal_inf/dual_inf are not claimed (property restriction)"),
 "C10": dict(category="proof",
   text="Theorems setup_lower_triangle_irrelevant / update_lower_triangle_irrelevant (interface level: two P arguments of the same shape that agree on and above the diagonal - lower triangle absent, symmetric or garbage - lead to the same state and outcome at setup for every back end, and at update for the dense back end), Lean theorems upperOfMat_reads_upper_only (two P arguments agreeing on the upper triangle are stored identically) and backends_agree_exact (any two back ends with coherent reduced matrices and exact inner solves return steps with the same image under the full Newton operator, hence equal steps when it is injective; from C13). Tie: the four sparse KKT formulations give identical rationals on the same problem/settings (refinement off), and P supplied upper / full / upper+garbage-lower gives the identical complete output in setup() and update() on all five back ends.",
   design_ref="§6 C10", technique="Lean 4 proof (only utri(P) is read) + exact-rational equality across formulations and P storages",
   note="agreement of dense vs sparse 'within tolerance' in floating point is not decided here"),
 "C02": dict(category="other",
   text="Global convergence on the well-posed class W is not provable by an invariant (heuristic interior-point method); the full statement is not claimed as a theorem. Decided here by (i) theorem not_solved_partial (the only non-SOLVED exits are MAX_ITER, the two verdicts, NUMERICS) and the mechanism theorems of C13/C12/C15/C04, (ii) sampling the class W generator on all five back ends x preconditioner/refinement settings: any non-SOLVED outcome is reported with the problem as replay, every SOLVED is certified from the user's data.",
   design_ref="§6 C02", technique="mechanism theorems in Lean 4 + sampled differential runs on the well-posed class (labelled as testing)",
   note="partial: convergence itself is monitored, not proved"),
 "C03": dict(category="proof",
   text="Decision-logic theorems for every numeric back end (primal_verdict_requires_rule, dual_verdict_requires_rule: an infeasibility verdict is returned only at a loop head where the corresponding rule holds; with C01: SOLVED only when the termination test holds) and soundness of the ground truth (farkas_sound: a Farkas vector excludes every feasible point; recession_sound: a recession direction from a feasible point makes the objective unbounded below; kkt_sufficient: for PSD P an exact KKT point is a global minimiser). Ground truth is decided outside the solver in exact rational arithmetic (simplex cross-checked by Fourier-Motzkin, certificates re-verified) on an integer grid (n<=2, all block presences, LPs, singular P), constructed degenerate strictly convex, Farkas-infeasible (rows, crossing bounds, bounds against an equality/inequality) and recession-unbounded problems, x 5 back ends, default and looser tolerances, update histories that disable and re-enable rows of G, plus a fixed corpus with check_duality_gap=false; a verdict contradicting the class is a violation. The rules themselves are tied bit-exactly to real double runs (tie B).",
   design_ref="§6 C03", technique="Lean 4 proof of the verdict logic + exact rational ground-truth classification vs. real runs",
   note="'never INFEASIBLE on a solvable problem' is a claim about a heuristic: monitored on the enumerated classes, not proved; that 'feasible and no recession direction' implies an optimum exists (Frank-Wolfe) is used by the classifier and not mechanised; known finding F18 (check_duality_gap=false) is reported as KNOWN-FINDING"),
 "C06": dict(category="proof",
   text="Termination is a theorem about the code's loop structure: the main loop and the initial retry loop are Lean functions accepted by the termination checker with the measure (max_iter-iter, refinement not yet on, max_factor_retires-factor_retires) for arbitrary numeric operations (so NaN-poisoned comparisons and adversarial data are covered); iter<=max_iter and 'status in the documented set' are proved. The loop is the one the real solver model uses (tie A) and is replayed bit-exactly on traces of real double runs on adversarial inputs (tie B); every run must return with a documented status.",
   design_ref="§6 C06", technique="Lean 4 termination proof (well-founded recursion on the real loop) + bit-exact skeleton replay on adversarial double runs",
   note="partial for the memory clause: out-of-bounds / UB inside Eigen and libstdc++ are outside the model; ASan/UBSan runs (thorough) are supporting evidence only"),
 "C11": dict(category="other",
   text="Model-level ledger theorems (update/solve preserve dimensions and stored patterns for any history) + runtime observation: every allocation entry point is interposed and armed only inside update()/solve() of the real solvers (5 back ends x 2 preconditioners), all 512 (argument subset x reuse) updates, sizes to n~400, all exit statuses incl. injected factorisation failures: counters must be 0.",
   design_ref="§6 C11", technique="Lean 4 shape-ledger theorems + malloc/operator-new interposition on the real solvers",
   note="heap behaviour of Eigen temporaries is a runtime-library behaviour no model exhibits: observed, not proved (T=double, EIGEN_STACK_ALLOCATION_LIMIT=16MiB)"),
 "C12": dict(category="proof",
   text="Theorems for every failure oracle and every numeric trajectory (arbitrary LoopOps): iter<=max_iter, the first failure only enables refinement, regularisation raised at most max_factor_retires consecutive times, NUMERICS only with refinement on and retries exhausted (main loop and initial loop), SOLVED still implies the termination test. Tie B: with the fault-injection hook every failure mask over the first K factorisation calls (K=8 quick, 14 thorough) and random burst/sparse/late patterns are run on real double solvers; the Lean skeleton reproduces every control state bit for bit; finiteness, certificates and '<=3 transient failures still SOLVED' are evaluated on the implementation.",
   design_ref="§6 C12", technique="Lean 4 proof (state machine, all oracles) + exhaustive fault-mask runs with bit-exact trace replay",
   note="'transient failures do not prevent convergence' is monitored (numerical behaviour), not proved"),
 "C14": dict(category="proof",
   text="Spec-level theorems on the dense Schur-complement recursions the model uses for LDL': ldlt_correct (symmetric input, no zero pivot => L D L' = A with L unit lower), ldltSolve_correct, solveLD_eq (the staged solve on stored factors is that recursion), perm_solve / innerLDLT_exact (assembled, symmetrically permuted, factorised, solved, permuted back and split: the model's sparse inner solver satisfies C13's InnerExact for every permutation), sparse_factor_then_solve_exact (C13's elimination theorem unconditional for the model's sparse back ends), lltSolve_correct / solveLL_eq / innerLLT_exact / dense_factor_then_solve_exact (the same for the dense back end's Cholesky, given sqrt(x)^2 = x for x > 0) + exhaustive exact correspondence of the pattern-dependent code: sparse::LDLt (elimination tree, symbolic column counts, numeric up-looking factorisation, solves) on ALL upper-triangular patterns with full diagonal for n<=5 x quasi-definite value sets incl. exact zero-pivot-inducing ones (random pivot position) x all permutations n<=4, dense LDLTNoPivot (blocked/unblocked, Lower/Upper) across the blocking threshold incl. zero pivots at, before and after block boundaries (n = 32, 33; thorough 130, 257), CSC utilities, AMD consistency.",
   design_ref="§6 C14", technique="Lean 4 spec-level proof + exhaustive exact-rational correspondence of the pattern-dependent kernels",
   note="the refinement sparse symbolic/numeric code -> spec is carried by the exhaustive tie (n<=5) and random patterns, not by a theorem; Eigen AMD only checked for consistency"),
 "C15": dict(category="proof",
   text="Lean theorems: ruizLoop_applied / scaleData_scaled (for both Ruiz variants, every iteration budget, every sqrt, cost scaling on or off, fresh or reused scaling: the data scale_data leaves behind are the data it was given transformed by the scalings it reports), scaleData_invFull (inverse vectors are inverses on their full length; needs only positive scaling limits and sqrt(x) != 0 for x > 0), unscale_scale_data (unscale_data o scale_data = identity on P's stored triangle, c, A, G, b, h and the active bound slots), the scale_*/unscale_* pairs under InvCoherent, init_invCoherent. Tie: after setup and after every update of histories over preconditioner_iter in {0,1,2,3,10} x scale_cost x dense/sparse x all transitions between bound patterns (reuse or not) with settings changes between rescalings, the Lean predicate precondFails checks on the state (compared exactly with the implementation's) that scaled data = change of variables of the effective data and that every round trip is exact.",
   design_ref="§6 C15", technique="Lean 4 proof (scaling algebra) + exact white-box correspondence with a change-of-variables predicate",
   note="exact arithmetic; that Ruiz equilibration actually improves conditioning is not claimed"),
 "C18": dict(category="other",
   text="All theorems are parametric in the scalar type. Compilation and execution of the 72 instantiations T in {float,double,long double,cpp_bin_float<100>} x I in {int,long long} x 5 back ends x {Ruiz,identity} is a fact about template instantiation: decided by the build matrix (quick: covering subset with every (T, back end) pair; thorough: all), each solving well-posed problems to SOLVED with a certificate recomputed in exact rationals and higher-precision solutions agreeing with double.",
   design_ref="§6 C18", technique="scalar-generic Lean theorems + compile-and-run instantiation matrix",
   note="observation on generated problems n<=20; per-type tolerances chosen in the harness"),
 "C19": dict(category="other",
   text="Model: the interface state contains values only; theorem later_calls_independent_of_old_heap (changing caller buffers after a call cannot affect later calls that do not read them). Aliasing is a memory-level behaviour: observed by running every history twice (caller buffers alive vs. checksummed, scribbled and freed after each call) over 9 caller interfaces (C++ dense col/row-major/padded, C++ sparse x 4 modes, C dense, C sparse) and comparing all results bitwise; thorough also under AddressSanitizer.",
   design_ref="§6 C19", technique="structural Lean theorem + scribble/free differential runs (bitwise)",
   note="a retained pointer never dereferenced on the explored histories would go unseen"),
 "C16": dict(category="proof",
   text="Static half decided by proof: a translator regenerates, from the current interfaces/c sources and core headers, the tables of every field copied by piqp_update_result / piqp_set_default_settings / piqp_update_settings (dense and sparse branch) and the status enum; 13 Lean theorems (each `by decide` over the complete table) state that every core field is wired to the like-named C field exactly once and that status values agree. A Python recomputation of every obligation supplies the concrete mismatching pair as replay when a theorem fails. The dynamic half (bitwise C-vs-C++ differential) is reported in the evidence when built.",
   design_ref="§6 C16", technique="Lean 4 `decide` over translator-generated complete field tables (+ differential C/C++ runs)",
   note="translator (regex over the binding sources, fails closed) is trusted; Lean kernel; no axioms beyond the standard three"),
 "C17": dict(category="proof",
   text="For every Settings/Info/Result field and Status enumerator x every binding source (C, pybind11, .pyi, mex, oct, docs) the translator regenerates complete tables from the current tree and 72 Lean theorems, each `by decide` over the whole finite table, state completeness, like-named wiring in both directions, type agreement, documented defaults and status codes. The quantifier is a finite table, enumerated completely, so the theorems decide the property for the tree at hand. The mex path is cross-checked dynamically by compiling the real piqp_mex.cpp against a mock MEX runtime.",
   design_ref="§6 C17", technique="Lean 4 `decide` over translator-generated complete field tables, regenerated every run",
   note="translator (fails closed on any unparsed statement in a known block) is trusted and cross-checked by the mock-MEX round trip; Lean kernel"),
 "C20": dict(category="proof",
   text="Lean theorems load_save_dense / load_save_sparse (any prior store content, all n>=1, p,m>=0, empty columns, explicit zeros, opaque 64-bit values) over a model of io_utils/eigen_matio on an abstract name->variable MAT store, plus field-list agreement and reader-guard theorems; the model is run against the real save_*/load_* through libmatio on all shape classes x special bit patterns and random models (bitwise comparison, raw matio scan of the file), and the round trip is checked directly on the implementation.",
   design_ref="§6 C20", technique="Lean 4 proof (round trip over abstract MAT store) + bitwise differential correspondence through libmatio",
   note="libmatio trusted as a name->variable store; values opaque bit patterns; Lean kernel"),
 "C13": dict(category="proof",
   text="Lean theorems, each a single statement quantified over all five back ends, all dimensions, data, box packings: solve_solves_full_system (Coherent reduced matrix + exact inner solve + interior scalings => multiply(solve r) = r on all eight block rows, inactive box tails untouched), factor_then_solve_exact, init_coherent / init_cachesOk, refresh_coherent, updateScalings_coherent, updateData_ok (every option mask, given the flagged blocks are what changed: refreshing in place = building anew), refineLoop_not_worse / solve_refined_not_worse (needs min_improvement_rate >= 1, which Settings::verify enforces), plus a concrete non-vacuity example. The model (executed at exact rationals) is compared on every run with the real dense::KKT<Q>/sparse::KKT<Q,int,Mode> instantiated with an exact rational scalar: random systems, all 8 update_data masks x 5 back ends with fresh-build twins, refinement pairs; multiply(solve(r)) = r is also checked exactly on the implementation's own output.",
   design_ref="§6 C13", technique="Lean 4 proof (elimination theorems over an ordered field) + exact-rational differential correspondence with the real templates",
   note="Lean kernel + propext/Classical.choice/Quot.sound; hand-written model tied by tie A (finite sample); dense denotation of sparse matrices; IEEE rounding not modelled"),
}

NA_REASON = "check not built yet (machinery under construction; see DESIGN.md §10 build order)"

def main():
    checks, na = [], []
    for p in props:
        pid = p["id"]
        if pid in CHECKS:
            c = CHECKS[pid]
            checks.append({
                "property_id": pid,
                "quick_cmd": f"./check {pid} --tier quick",
                "thorough_cmd": f"./check {pid} --tier thorough",
                "evidence_file": f"evidence/{pid}.json",
                "replay_cmd_template": f"./check {pid} --replay {{path}}",
                "engine": "lean4-proof+exact-correspondence",
                "level_claimed": {"category": c["category"], "text": c["text"], "design_ref": c["design_ref"]},
                "level_note": c["note"],
                "technique": c["technique"],
            })
        else:
            na.append({"property_id": pid, "reason": NA_REASON})
    man = {
        "version": 1,
        "setup_cmd": "./setup.sh",
        "hooks": {
            "guard": "PIQP_VERIF",
            "enable": "harnesses under /verif/harness are compiled against /repo/include with -DPIQP_VERIF",
            "baseline_off_cmd": "cmake --build /repo/_build -j16 && ctest --test-dir /repo/_build/tests -j8 --timeout 900; ctest --test-dir /repo/_build/interfaces/c/tests -j8 --timeout 900",
            "source_commits": ["26041b3"],
            "add_only": True,
        },
        "engines": [
            {"name": "lean4-proof+exact-correspondence", "path": "lean/", "serves_properties": sorted(CHECKS),
             "kind_free_text": "Lean 4 model + theorems (lake build, axiom audit) tied to the code by exact-rational differential runs of the real templates (harness/*.cpp, T = GMP rational) against the compiled model driver"},
        ],
        "checks": checks,
        "notes": "All checks are `./check <id> --tier quick|thorough` (cwd /verif); VERIF_SEED selects the random stream. See DESIGN.md.",
        "not_applicable": na,
    }
    json.dump(man, open(os.path.join(ROOT, "MANIFEST.json"), "w"), indent=1)

if __name__ == "__main__":
    main()
