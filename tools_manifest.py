#!/usr/bin/env python3
"""Regenerates MANIFEST.json from the table below (single source of truth for check registration)."""
import json, os
ROOT = os.path.dirname(os.path.abspath(__file__))
props = [json.loads(l) for l in open(os.path.join(ROOT, "properties.jsonl"))]

CHECKS = {
 "C01": dict(category="proof",
   text="Lean theorems about the solver model (the loop head returns SOLVED only when the termination test holds for the diagnostics it computed; clause-by-clause meaning of the test; termination of the main loop is accepted by Lean's checker on the real loop body) + exact white-box correspondence of the whole-solver model with the real DenseSolver<Q>/SparseSolver<Q,int,Mode> templates (exact rational scalar) on 5 back ends x {Ruiz, identity} x all 16 bound patterns at n=2 and random problems/settings; every SOLVED result of the implementation is certified exactly (Lean predicate certFails: stationarity, primal feasibility, gap, signs, for the user's unscaled data).",
   design_ref="§6 C01", technique="Lean 4 proof over the solver model + exact-rational differential correspondence + exact certificate predicate",
   note="exact arithmetic only (rounding not modelled); exact runs limited to 1-2 IPM iterations on n<=4; the scaling-algebra theorem (unscaled certificate from scaled test) is work in progress, the correspondence currently carries that part"),
 "C04": dict(category="proof",
   text="Theorem updateTyped_frame (update touches only data/preconditioner/KKT caches and forces a rebuild of the scaling part) + exact white-box correspondence after every op over all 2^8 argument subsets x reuse x solve-in-between, random longer histories incl. repeated setup and h crossing the infinity threshold; every SOLVED after updates is certified exactly for the effective data.",
   design_ref="§6 C04", technique="Lean 4 proof (frame/invariant over operations) + exact-rational white-box correspondence over update histories",
   note="coherence invariant theorem is partial (frame only); the exact correspondence carries cache coherence on the enumerated histories; convergence comparisons with a fresh solver in double precision are not part of this check yet"),
 "C05": dict(category="proof",
   text="Theorem rejected_is_identity: for every state and every call the model reports as rejected (any argument with a wrong size, sparse nnz/pattern mismatch, call before setup, rejected setup) the state is unchanged. Tie: the model's rejection classification and messages are compared with the real code on every kind of invalid call injected at every position of valid histories; the implementation's white-box state is compared across the rejected call and all later outputs with a twin history, exactly.",
   design_ref="§6 C05", technique="Lean 4 proof (state-machine: rejected call = identity) + exact differential correspondence with injected invalid calls and twin histories",
   note="memory-safety clause (no out-of-bounds access) is outside the model; it is exercised by the same histories but not proved"),
 "C07": dict(category="proof",
   text="Theorem instances_independent (the interface step has no global component: steps of two instances commute) + exact poison tie: the real templates run with an exact scalar whose never-written values are tagged; use of such a value as an operand is counted per op (must be 0) and never-written slots reaching outputs are compared with the model, over all short words of pattern-growing/shrinking updates and random histories.",
   design_ref="§6 C07", technique="Lean 4 proof (no shared state) + tagged-uninitialised exact scalar run of the real templates",
   note="partial: real heap/stack pre-states, object relocation and threads are runtime behaviour not exhibited by the model; Eigen-internal scratch is trusted"),
 "C08": dict(category="proof",
   text="Theorem swapLoop_mem (restore_box_dual only permutes) and the well-formedness predicate wellFormedFails evaluated exactly on results equal to the implementation's for all 4^n finite/infinite bound patterns (n=2 all back ends and preconditioners, n=3) and iteration budgets 1,2: exact 0 / +inf at infinite bounds, positivity of slacks, non-negativity of multipliers, original indexing.",
   design_ref="§6 C08", technique="Lean 4 proof (index loop) + exhaustive bound-pattern enumeration at T=Q with an exact well-formedness predicate",
   note="restore_box_dual_spec and cone_preserved theorems are work in progress; budgets > 2 need double precision"),
 "C09": dict(category="proof",
   text="Theorem phaseA_status_eq_info (+ loop structure) and exact evaluation of diagFails: after every solve of the real solver at T=Q, info.status/iter/primal_obj/dual_obj/duality_gap (and primal_inf/dual_inf for verdict statuses) are compared for exact equality with the quantities recomputed from the user's unscaled data at the returned point, incl. scale_cost=true.",
   design_ref="§6 C09", technique="Lean 4 proof + exact diagnostics predicate on exact-rational runs of the real templates",
   note="exact arithmetic; MAX_ITER primal_inf/dual_inf are not claimed (property restriction)"),
 "C10": dict(category="proof",
   text="Theorem upperOfMat_reads_upper_only (two P arguments agreeing on the upper triangle are stored identically) + exact differential runs: the four sparse KKT formulations give identical rationals on the same problem/settings (refinement off), and P supplied upper / full / upper+garbage-lower gives the identical complete output in setup() and update() on all five back ends.",
   design_ref="§6 C10", technique="Lean 4 proof (only utri(P) is read) + exact-rational equality across formulations and P storages",
   note="agreement of dense vs sparse 'within tolerance' in floating point is not decided here"),
 "C16": dict(category="proof",
   text="Static half decided by proof: a translator regenerates, from the current interfaces/c sources and core headers, the tables of every field copied by piqp_update_result / piqp_set_default_settings / piqp_update_settings (dense and sparse branch) and the status enum; 13 Lean theorems (each `by decide` over the complete table) state that every core field is wired to the like-named C field exactly once and that status values agree. A Python recomputation of every obligation supplies the concrete mismatching pair as replay when a theorem fails. The dynamic half (bitwise C-vs-C++ differential) is reported in the evidence when built.",
   design_ref="§6 C16", technique="Lean 4 `decide` over translator-generated complete field tables (+ differential C/C++ runs)",
   note="translator (regex over the binding sources, fails closed) is trusted; Lean kernel; no axioms beyond the standard three"),
 "C17": dict(category="proof",
   text="For every Settings/Info/Result field and Status enumerator x every binding source (C, pybind11, .pyi, mex, oct, docs) the translator regenerates complete tables from the current tree and 72 Lean theorems, each `by decide` over the whole finite table, state completeness, like-named wiring in both directions, type agreement, documented defaults and status codes. The quantifier is a finite table, enumerated completely, so the theorems decide the property for the tree at hand. The mex path is cross-checked dynamically by compiling the real piqp_mex.cpp against a mock MEX runtime.",
   design_ref="§6 C17", technique="Lean 4 `decide` over translator-generated complete field tables, regenerated every run",
   note="translator (fails closed on any unparsed statement in a known block) is trusted and cross-checked by the mock-MEX round trip; Lean kernel"),
 "C20": dict(category="proof",
   text="Lean theorems load_save_dense / load_save_sparse (any prior store content, all n>=1, p,m>=0, empty columns, explicit zeros, opaque 64-bit values) over a model of io_utils/eigen_matio on an abstract name->variable MAT store, plus field-list agreement and reader-guard theorems; the model is run against the real save_*/load_* through libmatio on all shape classes x special bit patterns and random models (bitwise comparison, raw matio scan of the file), and the round trip is checked directly on the implementation.",
   design_ref="§6 C20", technique="Lean 4 proof (round trip over abstract MAT store) + bitwise differential correspondence through libmatio",
   note="libmatio trusted as a name->variable store; values opaque bit patterns; Lean kernel"),
 "C13": dict(category="proof",
   text="Lean theorems: for each of the five back ends the step returned by the model's KKT solve satisfies the full un-eliminated regularised Newton system whenever the inner factorisation solves the reduced system; cache refreshes equal a fresh build when the option mask covers what changed; refinement never increases the residual. The model (executed at exact rationals) is compared on every run with the real dense::KKT<Q>/sparse::KKT<Q,int,Mode> instantiated with an exact scalar, on random and enumerated op sequences, as exact strings; the property is also evaluated directly on the implementation's exact outputs.",
   design_ref="§6 C13", technique="Lean 4 proof (elimination theorems over an ordered field) + exact-rational differential correspondence with the real templates",
   note="Lean kernel + propext/Classical.choice/Quot.sound; hand-written model tied by tie A (finite sample); dense denotation of sparse matrices; IEEE rounding not modelled"),
}

NA_REASON = "check not built yet (machinery under construction; see DESIGN.md §10 build order)"

def main():
    checks, na = [], []
    for p in props:
        pid = p["id"]
        if pid in CHECKS:
            c = CHECKS[pid]
            checks.append({
                "property_id": pid,
                "quick_cmd": f"./check {pid} --tier quick",
                "thorough_cmd": f"./check {pid} --tier thorough",
                "evidence_file": f"evidence/{pid}.json",
                "replay_cmd_template": f"./check {pid} --replay {{path}}",
                "engine": "lean4-proof+exact-correspondence",
                "level_claimed": {"category": c["category"], "text": c["text"], "design_ref": c["design_ref"]},
                "level_note": c["note"],
                "technique": c["technique"],
            })
        else:
            na.append({"property_id": pid, "reason": NA_REASON})
    man = {
        "version": 1,
        "setup_cmd": "./setup.sh",
        "hooks": {
            "guard": "PIQP_VERIF",
            "enable": "harnesses under /verif/harness are compiled against /repo/include with -DPIQP_VERIF",
            "baseline_off_cmd": "cmake --build /repo/_build -j16 && ctest --test-dir /repo/_build/tests -j8 --timeout 900; ctest --test-dir /repo/_build/interfaces/c/tests -j8 --timeout 900",
            "source_commits": [],
            "add_only": True,
        },
        "engines": [
            {"name": "lean4-proof+exact-correspondence", "path": "lean/", "serves_properties": sorted(CHECKS),
             "kind_free_text": "Lean 4 model + theorems (lake build, axiom audit) tied to the code by exact-rational differential runs of the real templates (harness/*.cpp, T = GMP rational) against the compiled model driver"},
        ],
        "checks": checks,
        "notes": "All checks are `./check <id> --tier quick|thorough` (cwd /verif); VERIF_SEED selects the random stream. See DESIGN.md.",
        "not_applicable": na,
    }
    json.dump(man, open(os.path.join(ROOT, "MANIFEST.json"), "w"), indent=1)

if __name__ == "__main__":
    main()
