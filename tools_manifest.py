#!/usr/bin/env python3
"""Regenerates MANIFEST.json from the table below (single source of truth for check registration)."""
import json, os
ROOT = os.path.dirname(os.path.abspath(__file__))
props = [json.loads(l) for l in open(os.path.join(ROOT, "properties.jsonl"))]

CHECKS = {
 "C16": dict(category="proof",
   text="Static half decided by proof: a translator regenerates, from the current interfaces/c sources and core headers, the tables of every field copied by piqp_update_result / piqp_set_default_settings / piqp_update_settings (dense and sparse branch) and the status enum; 13 Lean theorems (each `by decide` over the complete table) state that every core field is wired to the like-named C field exactly once and that status values agree. A Python recomputation of every obligation supplies the concrete mismatching pair as replay when a theorem fails. The dynamic half (bitwise C-vs-C++ differential) is reported in the evidence when built.",
   design_ref="§6 C16", technique="Lean 4 `decide` over translator-generated complete field tables (+ differential C/C++ runs)",
   note="translator (regex over the binding sources, fails closed) is trusted; Lean kernel; no axioms beyond the standard three"),
 "C17": dict(category="proof",
   text="For every Settings/Info/Result field and Status enumerator x every binding source (C, pybind11, .pyi, mex, oct, docs) the translator regenerates complete tables from the current tree and 72 Lean theorems, each `by decide` over the whole finite table, state completeness, like-named wiring in both directions, type agreement, documented defaults and status codes. The quantifier is a finite table, enumerated completely, so the theorems decide the property for the tree at hand. The mex path is cross-checked dynamically by compiling the real piqp_mex.cpp against a mock MEX runtime.",
   design_ref="§6 C17", technique="Lean 4 `decide` over translator-generated complete field tables, regenerated every run",
   note="translator (fails closed on any unparsed statement in a known block) is trusted and cross-checked by the mock-MEX round trip; Lean kernel"),
 "C20": dict(category="proof",
   text="Lean theorems load_save_dense / load_save_sparse (any prior store content, all n>=1, p,m>=0, empty columns, explicit zeros, opaque 64-bit values) over a model of io_utils/eigen_matio on an abstract name->variable MAT store, plus field-list agreement and reader-guard theorems; the model is run against the real save_*/load_* through libmatio on all shape classes x special bit patterns and random models (bitwise comparison, raw matio scan of the file), and the round trip is checked directly on the implementation.",
   design_ref="§6 C20", technique="Lean 4 proof (round trip over abstract MAT store) + bitwise differential correspondence through libmatio",
   note="libmatio trusted as a name->variable store; values opaque bit patterns; Lean kernel"),
 "C13": dict(category="proof",
   text="Lean theorems: for each of the five back ends the step returned by the model's KKT solve satisfies the full un-eliminated regularised Newton system whenever the inner factorisation solves the reduced system; cache refreshes equal a fresh build when the option mask covers what changed; refinement never increases the residual. The model (executed at exact rationals) is compared on every run with the real dense::KKT<Q>/sparse::KKT<Q,int,Mode> instantiated with an exact scalar, on random and enumerated op sequences, as exact strings; the property is also evaluated directly on the implementation's exact outputs.",
   design_ref="§6 C13", technique="Lean 4 proof (elimination theorems over an ordered field) + exact-rational differential correspondence with the real templates",
   note="Lean kernel + propext/Classical.choice/Quot.sound; hand-written model tied by tie A (finite sample); dense denotation of sparse matrices; IEEE rounding not modelled"),
}

NA_REASON = "check not built yet in this round (machinery under construction; see DESIGN.md §10 build order)"

def main():
    checks, na = [], []
    for p in props:
        pid = p["id"]
        if pid in CHECKS:
            c = CHECKS[pid]
            checks.append({
                "property_id": pid,
                "quick_cmd": f"./check {pid} --tier quick",
                "thorough_cmd": f"./check {pid} --tier thorough",
                "evidence_file": f"evidence/{pid}.json",
                "replay_cmd_template": f"./check {pid} --replay {{path}}",
                "engine": "lean4-proof+exact-correspondence",
                "level_claimed": {"category": c["category"], "text": c["text"], "design_ref": c["design_ref"]},
                "level_note": c["note"],
                "technique": c["technique"],
            })
        else:
            na.append({"property_id": pid, "reason": NA_REASON})
    man = {
        "version": 1,
        "setup_cmd": "./setup.sh",
        "hooks": {
            "guard": "PIQP_VERIF",
            "enable": "harnesses under /verif/harness are compiled against /repo/include with -DPIQP_VERIF",
            "baseline_off_cmd": "cmake --build /repo/_build -j16 && ctest --test-dir /repo/_build/tests -j8 --timeout 900; ctest --test-dir /repo/_build/interfaces/c/tests -j8 --timeout 900",
            "source_commits": [],
            "add_only": True,
        },
        "engines": [
            {"name": "lean4-proof+exact-correspondence", "path": "lean/", "serves_properties": sorted(CHECKS),
             "kind_free_text": "Lean 4 model + theorems (lake build, axiom audit) tied to the code by exact-rational differential runs of the real templates (harness/*.cpp, T = GMP rational) against the compiled model driver"},
        ],
        "checks": checks,
        "notes": "All checks are `./check <id> --tier quick|thorough` (cwd /verif); VERIF_SEED selects the random stream. See DESIGN.md.",
        "not_applicable": na,
    }
    json.dump(man, open(os.path.join(ROOT, "MANIFEST.json"), "w"), indent=1)

if __name__ == "__main__":
    main()
