#!/usr/bin/env python3
"""tables.py -- tie C translator: binding wiring tables of PIQP  ->  Lean + JSON.

Reads the CURRENT files under $VERIF_REPO (default /repo) and writes

  <verif>/lean/PiqpProofs/Generated/Tables.lean   plain core Lean `def`s (namespace Piqp.Gen)
  <verif>/build/tables.json                       the same tables (key "lean") + file/line detail (key "detail")

The Lean file is what PiqpProofs/Properties/C16.lean and C17.lean prove things about (by `decide`);
the JSON is what the Python failing-input search replays.  Both are rendered from ONE dictionary
(`lean`), so they cannot disagree.

This program is in the trusted base.  It therefore FAILS CLOSED: inside every block it understands
(struct bodies, the three C copy functions, the pybind11 class_/enum_ chains, the mex/oct copy functions,
the .pyi classes, the two docs tables) every statement must match one of the shapes it knows; anything
else -- an assignment it cannot parse, a preprocessor conditional, an unknown pybind call -- is an error
(exit status 2 and a `TRANSLATE-ERROR file:line: message` line), never a silently skipped line.

Wiring errors that *can* be parsed (wrong field read, field missing, wrong default, wrong status value) are
NOT errors here: they are emitted faithfully and refuted by Lean.

stdlib only.
"""
import hashlib
import json
import os
import re
import sys
from fractions import Fraction

HERE = os.path.dirname(os.path.abspath(__file__))
ROOT = os.path.dirname(HERE)

FILES = {
    "settings_hpp": "include/piqp/settings.hpp",
    "results_hpp": "include/piqp/results.hpp",
    "c_typedef": "interfaces/c/include/piqp_typedef.h",
    "c_src": "interfaces/c/src/piqp.cpp",
    "pybind": "interfaces/python/src/piqp_python.cpp",
    "pyi": "interfaces/python/piqp/__init__.pyi",
    "mex": "interfaces/matlab/piqp_mex.cpp",
    "oct": "interfaces/octave/piqp_oct.cpp",
    "docs_settings": "docs/interfaces/settings.md",
    "docs_status": "docs/_common/status_code_table.md",
}

IDENT = r"[A-Za-z_]\w*"


class TranslateError(Exception):
    pass


# --------------------------------------------------------------------------------------------- sources

def strip_c_comments(s):
    """Replace // and /* */ comments by blanks; offsets and newlines are preserved; string and char
    literals are left alone."""
    out = []
    i, n = 0, len(s)
    while i < n:
        c = s[i]
        if c == '"' or c == "'":
            j = i + 1
            while j < n and s[j] != c:
                if s[j] == "\\":
                    j += 1
                if j < n and s[j] == "\n":
                    break
                j += 1
            out.append(s[i:j + 1])
            i = j + 1
        elif s.startswith("//", i):
            j = s.find("\n", i)
            j = n if j < 0 else j
            out.append(" " * (j - i))
            i = j
        elif s.startswith("/*", i):
            j = s.find("*/", i + 2)
            j = n if j < 0 else j + 2
            out.append("".join(ch if ch == "\n" else " " for ch in s[i:j]))
            i = j
        else:
            out.append(c)
            i += 1
    res = "".join(out)
    assert len(res) == len(s)
    return res


class Src:
    def __init__(self, repo, rel, c_like):
        self.rel = rel
        self.path = os.path.join(repo, rel)
        try:
            with open(self.path, encoding="utf-8") as f:
                self.raw = f.read()
        except OSError as e:
            raise TranslateError(f"{rel}:0: cannot read file ({e})")
        self.text = strip_c_comments(self.raw) if c_like else self.raw
        self.sha = hashlib.sha256(self.raw.encode()).hexdigest()

    def line(self, off):
        return self.raw.count("\n", 0, off) + 1

    def fail(self, off, msg):
        ln = self.line(off)
        src = self.raw.splitlines()[ln - 1].strip() if ln - 1 < len(self.raw.splitlines()) else ""
        raise TranslateError(f"{self.rel}:{ln}: {msg}\n    > {src}")

    def loc(self, off):
        return {"file": self.rel, "line": self.line(off)}


def match_close(text, i, src):
    """text[i] is one of ( [ {; return the index of the matching closer (strings skipped)."""
    pairs = {"(": ")", "[": "]", "{": "}"}
    stack = []
    n = len(text)
    j = i
    while j < n:
        c = text[j]
        if c == '"' or c == "'":
            k = j + 1
            while k < n and text[k] != c:
                if text[k] == "\\":
                    k += 1
                k += 1
            j = k
        elif c in pairs:
            stack.append(pairs[c])
        elif c in ")]}":
            if not stack or stack[-1] != c:
                src.fail(j, f"unbalanced '{c}'")
            stack.pop()
            if not stack:
                return j
        j += 1
    src.fail(i, "unterminated bracket")


def parse_items(src, start, end):
    """Split text[start:end] into a statement tree:
         ("stmt", text, off)                       a `...;` statement (text without the ;)
         ("block", header, off, children, (s,e))   `header { children }`
       Parentheses/brackets/strings are respected.  Preprocessor lines are an error."""
    t = src.text
    items = []
    i = start
    cur = start
    while i < end:
        c = t[i]
        if c == "#":
            # a directive: only if first non-blank on its line
            ls = t.rfind("\n", 0, i) + 1
            if t[ls:i].strip() == "":
                src.fail(i, "preprocessor directive inside a block the translator must understand completely")
            i += 1
        elif c == '"' or c == "'":
            k = i + 1
            while k < end and t[k] != c:
                if t[k] == "\\":
                    k += 1
                k += 1
            i = k + 1
        elif c in "([":
            i = match_close(t, i, src) + 1
        elif c == "{":
            j = match_close(t, i, src)
            header = t[cur:i]
            hoff = cur + (len(header) - len(header.lstrip()))
            # `= { ... }` initialiser lists are part of a statement, not a block
            if header.rstrip().endswith("="):
                i = j + 1
                continue
            items.append(("block", " ".join(header.split()), hoff if header.strip() else i,
                          parse_items(src, i + 1, j), (i + 1, j)))
            i = j + 1
            cur = i
        elif c == ";":
            stmt = t[cur:i]
            off = cur + (len(stmt) - len(stmt.lstrip()))
            if stmt.strip():
                items.append(("stmt", " ".join(stmt.split()), off))
            i += 1
            cur = i
        elif c in ")]}":
            src.fail(i, f"unbalanced '{c}'")
        else:
            i += 1
    rest = t[cur:end]
    if rest.strip():
        src.fail(cur + (len(rest) - len(rest.lstrip())), "trailing text without ';' in a block")
    return items


def find_unique(src, pattern, what, flags=0):
    ms = list(re.finditer(pattern, src.text, flags))
    if len(ms) != 1:
        raise TranslateError(f"{src.rel}:0: expected exactly one {what}, found {len(ms)}")
    return ms[0]


def function_body(src, header_re, what):
    """header_re must end just before the opening brace.  Returns (match, items, (start,end))."""
    m = find_unique(src, header_re + r"\s*\{", what, re.S)
    ob = m.end() - 1
    cb = match_close(src.text, ob, src)
    return m, parse_items(src, ob + 1, cb), (ob + 1, cb)


def split_args(src, s, e):
    """Split text[s:e] at top-level commas -> list of (text, off)."""
    t = src.text
    out = []
    i = cur = s
    while i < e:
        c = t[i]
        if c == '"' or c == "'":
            k = i + 1
            while k < e and t[k] != c:
                if t[k] == "\\":
                    k += 1
                k += 1
            i = k + 1
        elif c in "([{":
            i = match_close(t, i, src) + 1
        elif c == ",":
            out.append((t[cur:i].strip(), cur))
            i += 1
            cur = i
        else:
            i += 1
    if t[cur:e].strip() or out:
        out.append((t[cur:e].strip(), cur))
    return out


def expect_count(src, pattern, n, what):
    """Fail closed when the file touches the fields somewhere the translator did not look:
    the number of occurrences of `pattern` in the whole file must be the number it parsed."""
    found = [m.start() for m in re.finditer(pattern, src.text)]
    if len(found) != n:
        raise TranslateError(f"{src.rel}:0: {what}: {len(found)} occurrences in the file but {n} inside the blocks "
                             f"the translator parsed (lines {[src.line(o) for o in found][:60]})")


# --------------------------------------------------------------------------------------------- defaults

NUM_RE = re.compile(r"^[+-]?(\d+\.?\d*([eE][+-]?\d+)?|\.\d+([eE][+-]?\d+)?)$")
EPS2_CPP = "std::numeric_limits<T>::epsilon()*std::numeric_limits<T>::epsilon()"


def canon_value(text):
    """Canonical string of a default value, or None if the text is not understood.
       numbers -> exact decimal value as a reduced fraction 'p/q' (or 'p'), so 5.0 = 5 and 1e-6 = 0.000001;
       true/false; eps^2 for the squared machine epsilon."""
    t = "".join(text.split())
    if t in ("true", "false"):
        return t
    if t == EPS2_CPP or t == "eps^2":
        return "eps^2"
    if NUM_RE.match(t):
        tt = t.lower()
        if "e" in tt:
            mant, ex = tt.split("e")
            v = Fraction(mant) * Fraction(10) ** int(ex)
        else:
            v = Fraction(tt)
        return str(v.numerator) if v.denominator == 1 else f"{v.numerator}/{v.denominator}"
    return None


# --------------------------------------------------------------------------------------------- core

def parse_struct_template(src, name):
    """template<typename T> struct NAME { members };  -> list of dict(name,type,init,off)."""
    m = find_unique(src, r"template\s*<\s*typename\s+T\s*>\s*struct\s+" + name + r"\s*\{", f"struct {name}<T>")
    ob = m.end() - 1
    cb = match_close(src.text, ob, src)
    if not re.match(r"\s*;", src.text[cb + 1:]):
        src.fail(cb, f"struct {name}: expected ';' after closing brace")
    members = []
    methods = []
    for it in parse_items(src, ob + 1, cb):
        if it[0] == "block":
            hdr = it[1]
            mm = re.match(r"^[\w:<>&\*\s]+?\b(" + IDENT + r")\s*\([^)]*\)\s*(?:const)?\s*(?:noexcept)?$", hdr)
            if not mm:
                src.fail(it[2], f"struct {name}: block that is not a member function: '{hdr}'")
            methods.append(mm.group(1))
            continue
        text, off = it[1], it[2]
        mm = re.match(r"^((?:[\w:]+)(?:<\s*\w+\s*>)?)\s+(" + IDENT + r")(?:\s*=\s*(.+))?$", text)
        if not mm or mm.group(1) in ("using", "typedef", "static", "return", "friend"):
            src.fail(off, f"struct {name}: cannot parse member declaration '{text}'")
        members.append({"name": mm.group(2), "type": "".join(mm.group(1).split()),
                        "init": mm.group(3), "off": off})
    if not members:
        raise TranslateError(f"{src.rel}:0: struct {name} has no members")
    return members, methods


def parse_core(S, D, L):
    hs, hr = S["settings_hpp"], S["results_hpp"]
    settings, smeth = parse_struct_template(hs, "Settings")
    defaults = []
    for mb in settings:
        if mb["init"] is None:
            hs.fail(mb["off"], f"Settings member '{mb['name']}' has no default initialiser")
        cv = canon_value(mb["init"])
        if cv is None:
            hs.fail(mb["off"], f"cannot canonicalise the default initialiser '{mb['init']}' of Settings::{mb['name']}")
        if mb["type"] == "bool" and cv not in ("true", "false"):
            hs.fail(mb["off"], f"bool member '{mb['name']}' initialised with non-bool '{mb['init']}'")
        if mb["type"] == "isize" and not re.match(r"^-?\d+$", cv):
            hs.fail(mb["off"], f"integer member '{mb['name']}' initialised with non-integer '{mb['init']}'")
        defaults.append((mb["name"], cv))
    info, _ = parse_struct_template(hr, "Info")
    result, _ = parse_struct_template(hr, "Result")
    # Info members may carry a neutral default initialiser (zero / PIQP_UNSOLVED); anything else is not understood
    for mb in info:
        if mb["init"] is not None and mb["init"].replace(" ", "") not in ("0", "T(0)", "Status::PIQP_UNSOLVED", "PIQP_UNSOLVED"):
            hr.fail(mb["off"], f"unexpected initialiser '{mb['init']}' on Info member '{mb['name']}'")
    for mb in result:
        if mb["init"] is not None:
            hr.fail(mb["off"], f"unexpected initialiser on Result member '{mb['name']}'")

    # enum Status { A = 1, ... };
    m = find_unique(hr, r"\benum\s+(?:class\s+)?Status\s*\{", "enum Status")
    ob = m.end() - 1
    cb = match_close(hr.text, ob, hr)
    status = []
    for text, off in split_args(hr, ob + 1, cb):
        if not text:
            continue
        mm = re.match(r"^(" + IDENT + r")\s*=\s*(-?\d+)$", text)
        if not mm:
            hr.fail(off, f"enum Status: cannot parse enumerator '{text}' (explicit integer value required)")
        status.append({"name": mm.group(1), "value": int(mm.group(2)), "off": off + (len(hr.text[off:]) - len(hr.text[off:].lstrip()))})
    if not status:
        raise TranslateError(f"{hr.rel}:0: enum Status is empty")

    # status_to_string: case Status::X: return "text";
    m, items, (bs, be) = function_body(hr, r"\bstatus_to_string\s*\(\s*Status\s+status\s*\)", "status_to_string")
    strings = []
    if len(items) != 1 or items[0][0] != "block" or items[0][1] != "switch (status)":
        hr.fail(bs, "status_to_string: body is not a single `switch (status)`")
    default_str = None
    for it in items[0][3]:
        if it[0] != "stmt":
            hr.fail(it[2], "status_to_string: unexpected block in switch")
        mm = re.match(r'^case\s+(?:Status::)?(' + IDENT + r')\s*:\s*return\s+"([^"]*)"$', it[1])
        md = re.match(r'^default\s*:\s*return\s+"([^"]*)"$', it[1])
        if mm:
            strings.append({"name": mm.group(1), "string": mm.group(2), "off": it[2]})
        elif md:
            default_str = md.group(1)
        else:
            hr.fail(it[2], f"status_to_string: cannot parse '{it[1]}'")

    D["core"] = {
        "settings": [dict(name=x["name"], type=x["type"], init=x["init"], default=canon_value(x["init"]), **hs.loc(x["off"])) for x in settings],
        "settings_methods": smeth,
        "info": [dict(name=x["name"], type=x["type"], **hr.loc(x["off"])) for x in info],
        "result": [dict(name=x["name"], type=x["type"], **hr.loc(x["off"])) for x in result],
        "status": [dict(name=x["name"], value=x["value"], **hr.loc(x["off"])) for x in status],
        "status_strings": [dict(name=x["name"], string=x["string"], **hr.loc(x["off"])) for x in strings],
        "status_string_default": default_str,
    }
    L["coreSettingsFields"] = [x["name"] for x in settings]
    L["coreSettingsTypes"] = [(x["name"], x["type"]) for x in settings]
    L["coreSettingsDefaults"] = defaults
    L["coreInfoFields"] = [x["name"] for x in info]
    L["coreInfoTypes"] = [(x["name"], x["type"]) for x in info]
    L["coreResultFields"] = [x["name"] for x in result]
    L["coreResultTypes"] = [(x["name"], x["type"]) for x in result]
    L["coreStatus"] = [(x["name"], x["value"]) for x in status]
    L["coreStatusStrings"] = [(x["name"], x["string"]) for x in strings]


# --------------------------------------------------------------------------------------------- C

def parse_c_struct(src, name):
    m = find_unique(src, r"\}\s*" + name + r"\s*;", f"typedef struct {name}")
    cb = src.text.rfind("}", 0, m.end())
    # find the matching opener by scanning `typedef struct {` candidates
    ob = None
    for mm in re.finditer(r"typedef\s+struct\s*\{", src.text):
        o = mm.end() - 1
        if o < cb and match_close(src.text, o, src) == cb:
            ob = o
    if ob is None:
        raise TranslateError(f"{src.rel}:0: cannot find the opening of typedef struct {name}")
    members = []
    for it in parse_items(src, ob + 1, cb):
        if it[0] != "stmt":
            src.fail(it[2], f"{name}: nested block in a C struct")
        mm = re.match(r"^((?:const\s+)?" + IDENT + r"\s*\*?)\s*(" + IDENT + r")$", it[1])
        if not mm:
            src.fail(it[2], f"{name}: cannot parse member '{it[1]}'")
        ty = re.sub(r"\s*\*", "*", " ".join(mm.group(1).split()))
        members.append({"name": mm.group(2), "type": ty, **src.loc(it[2])})
    return members


def parse_c(S, D, L):
    th, cs = S["c_typedef"], S["c_src"]
    cset = parse_c_struct(th, "piqp_settings")
    cinfo = parse_c_struct(th, "piqp_info")
    cres = parse_c_struct(th, "piqp_result")

    m = find_unique(th, r"\}\s*piqp_status\s*;", "typedef enum piqp_status")
    cb = th.text.rfind("}", 0, m.end())
    ob = None
    for mm in re.finditer(r"typedef\s+enum\s*\{", th.text):
        o = mm.end() - 1
        if o < cb and match_close(th.text, o, th) == cb:
            ob = o
    if ob is None:
        raise TranslateError(f"{th.rel}:0: cannot find the opening of typedef enum piqp_status")
    cstatus = []
    for text, off in split_args(th, ob + 1, cb):
        if not text:
            continue
        mm = re.match(r"^(" + IDENT + r")\s*=\s*(-?\d+)$", text)
        if not mm:
            th.fail(off, f"piqp_status: cannot parse enumerator '{text}' (explicit integer value required)")
        o2 = off + (len(th.text[off:]) - len(th.text[off:].lstrip()))
        cstatus.append({"name": mm.group(1), "value": int(mm.group(2)), **th.loc(o2)})

    CAST = r"(?:\(\s*(" + IDENT + r")\s*\)\s*)?"

    # --- piqp_update_result
    m, items, _ = function_body(
        cs, r"\bvoid\s+piqp_update_result\s*\(\s*piqp_result\s*\*\s*(\w+)\s*,\s*const\s+piqp::Result\s*<\s*piqp_float\s*>\s*&\s*(\w+)\s*\)",
        "piqp_update_result")
    dst_v, src_v = m.group(1), m.group(2)
    res_pairs, info_pairs = [], []
    for it in items:
        if it[0] != "stmt":
            cs.fail(it[2], "piqp_update_result: unexpected block")
        mi = re.match(r"^" + dst_v + r"\s*->\s*info\s*\.\s*(" + IDENT + r")\s*=\s*" + CAST + src_v + r"\s*\.\s*info\s*\.\s*(" + IDENT + r")$", it[1])
        mr = re.match(r"^" + dst_v + r"\s*->\s*(" + IDENT + r")\s*=\s*" + CAST + src_v + r"\s*\.\s*(" + IDENT + r")\s*\.\s*data\s*\(\s*\)$", it[1])
        if mi:
            info_pairs.append({"dst": mi.group(1), "src": mi.group(3), "conv": mi.group(2) or "", **cs.loc(it[2])})
        elif mr:
            res_pairs.append({"dst": mr.group(1), "src": mr.group(3), "conv": mr.group(2) or "", **cs.loc(it[2])})
        else:
            cs.fail(it[2], f"piqp_update_result: cannot parse statement '{it[1]}'")

    # --- piqp_set_default_settings
    m, items, _ = function_body(cs, r"\bvoid\s+piqp_set_default_settings\s*\(\s*piqp_settings\s*\*\s*(\w+)\s*\)",
                                "piqp_set_default_settings")
    dst_v = m.group(1)
    def_pairs = []
    def_src_type = None
    def_v = None
    for it in items:
        if it[0] != "stmt":
            cs.fail(it[2], "piqp_set_default_settings: unexpected block")
        md = re.match(r"^(piqp::Settings\s*<\s*piqp_float\s*>)\s+(" + IDENT + r")$", it[1])
        if md:
            if def_v is not None or def_pairs:
                cs.fail(it[2], "piqp_set_default_settings: the default-constructed Settings object must be declared once, first")
            def_src_type = "".join(md.group(1).split())
            def_v = md.group(2)
            continue
        if def_v is None:
            cs.fail(it[2], f"piqp_set_default_settings: statement before the declaration of the default Settings object: '{it[1]}'")
        mp = re.match(r"^" + dst_v + r"\s*->\s*(" + IDENT + r")\s*=\s*" + CAST + def_v + r"\s*\.\s*(" + IDENT + r")$", it[1])
        if not mp:
            cs.fail(it[2], f"piqp_set_default_settings: cannot parse statement '{it[1]}'")
        def_pairs.append({"dst": mp.group(1), "src": mp.group(3), "conv": mp.group(2) or "", **cs.loc(it[2])})
    if def_src_type is None:
        raise TranslateError(f"{cs.rel}:0: piqp_set_default_settings: no default-constructed piqp::Settings<piqp_float> object")

    # --- piqp_update_settings (dense / sparse branch)
    m, items, (bs, be) = function_body(
        cs, r"\bvoid\s+piqp_update_settings\s*\(\s*piqp_workspace\s*\*\s*(\w+)\s*,\s*const\s+piqp_settings\s*\*\s*(\w+)\s*\)",
        "piqp_update_settings")
    ws_v, set_v = m.group(1), m.group(2)
    if (len(items) != 2 or items[0][0] != "block" or items[1][0] != "block"
            or items[0][1] != f"if ({ws_v}->solver_info.is_dense)" or items[1][1] != "else"):
        cs.fail(bs, "piqp_update_settings: body is not `if (workspace->solver_info.is_dense) {...} else {...}`")
    branches = {}
    for bname, blk in (("dense", items[0]), ("sparse", items[1])):
        solver_v, solver_t = None, None
        pairs = []
        for it in blk[3]:
            if it[0] != "stmt":
                cs.fail(it[2], "piqp_update_settings: nested block")
            md = re.match(r"^auto\s*\*\s*(" + IDENT + r")\s*=\s*reinterpret_cast\s*<\s*([\w:<>, ]+?)\s*\*\s*>\s*\(\s*" + ws_v + r"\s*->\s*solver_handle\s*\)$", it[1])
            if md:
                if solver_v is not None or pairs:
                    cs.fail(it[2], "piqp_update_settings: solver pointer must be declared once, first")
                solver_v, solver_t = md.group(1), "".join(md.group(2).split())
                continue
            if solver_v is None:
                cs.fail(it[2], f"piqp_update_settings: statement before the solver pointer declaration: '{it[1]}'")
            mp = re.match(r"^" + solver_v + r"\s*->\s*settings\s*\(\s*\)\s*\.\s*(" + IDENT + r")\s*=\s*" + CAST + set_v + r"\s*->\s*(" + IDENT + r")$", it[1])
            if not mp:
                cs.fail(it[2], f"piqp_update_settings ({bname} branch): cannot parse statement '{it[1]}'")
            pairs.append({"dst": mp.group(1), "src": mp.group(3), "conv": mp.group(2) or "", **cs.loc(it[2])})
        if solver_t is None:
            cs.fail(blk[2], f"piqp_update_settings ({bname} branch): no solver pointer")
        branches[bname] = (solver_t, pairs)

    # using DenseSolver = piqp::DenseSolver<piqp_float>;
    aliases = []
    for mm in re.finditer(r"^\s*using\s+(" + IDENT + r")\s*=\s*([^;]+);", cs.text, re.M):
        if mm.group(1) in (branches["dense"][0], branches["sparse"][0]):
            aliases.append((mm.group(1), "".join(mm.group(2).split())))

    expect_count(cs, r"settings\s*\(\s*\)\s*\.", len(branches["dense"][1]) + len(branches["sparse"][1]),
                 "accesses `settings().member`")
    expect_count(cs, r"\binfo\s*\.\s*\w+", 2 * len(info_pairs), "accesses `info.member`")
    expect_count(cs, r"\b" + def_v + r"\s*\.", len(def_pairs), f"accesses `{def_v}.member`")

    D["c"] = {
        "settings_struct": cset, "info_struct": cinfo, "result_struct": cres, "status": cstatus,
        "update_result": res_pairs, "update_result_info": info_pairs,
        "defaults": def_pairs, "defaults_source_type": def_src_type,
        "update_settings_dense": branches["dense"][1], "update_settings_sparse": branches["sparse"][1],
        "update_settings_dense_solver": branches["dense"][0], "update_settings_sparse_solver": branches["sparse"][0],
        "aliases": aliases,
    }
    L["cSettingsFields"] = [x["name"] for x in cset]
    L["cSettingsTypes"] = [(x["name"], x["type"]) for x in cset]
    L["cInfoFields"] = [x["name"] for x in cinfo]
    L["cInfoTypes"] = [(x["name"], x["type"]) for x in cinfo]
    L["cResultFields"] = [x["name"] for x in cres]
    L["cResultTypes"] = [(x["name"], x["type"]) for x in cres]
    L["cStatus"] = [(x["name"], x["value"]) for x in cstatus]
    L["cUpdateResultPairs"] = [(x["dst"], x["src"]) for x in res_pairs]
    L["cUpdateResultInfoPairs"] = [(x["dst"], x["src"]) for x in info_pairs]
    L["cDefaultsPairs"] = [(x["dst"], x["src"]) for x in def_pairs]
    L["cDefaultsSourceType"] = def_src_type
    L["cUpdateSettingsDensePairs"] = [(x["dst"], x["src"]) for x in branches["dense"][1]]
    L["cUpdateSettingsSparsePairs"] = [(x["dst"], x["src"]) for x in branches["sparse"][1]]
    L["cUpdateSettingsSolvers"] = [("dense", branches["dense"][0]), ("sparse", branches["sparse"][0])]
    L["cSolverAliases"] = aliases


# --------------------------------------------------------------------------------------------- pybind11

def parse_chain(src, start):
    """From `start` (just after the class_/enum_ constructor call) parse `.name(args)` repeatedly until `;`.
       Returns (calls, end) with calls = [(name, args[(text,off)], off)]."""
    t = src.text
    i = start
    calls = []
    while True:
        mm = re.compile(r"\s*").match(t, i)
        i = mm.end()
        if t[i] == ";":
            return calls, i
        mm = re.compile(r"\.\s*(" + IDENT + r")\s*\(").match(t, i)
        if not mm:
            src.fail(i, "pybind11 chain: expected `.method(...)` or `;`")
        ob = mm.end() - 1
        cb = match_close(t, ob, src)
        # a directive inside the chain would make fields conditional
        if re.search(r"^\s*#", t[i:cb], re.M):
            src.fail(i, "preprocessor directive inside a pybind11 chain")
        calls.append((mm.group(1), split_args(src, ob + 1, cb), i))
        i = cb + 1


def parse_pybind(S, D, L):
    src = S["pybind"]
    t = src.text
    tm = re.search(r"^\s*using\s+T\s*=\s*(\w+)\s*;", t, re.M)
    if not tm:
        raise TranslateError(f"{src.rel}:0: no `using T = ...;`")
    classes = []
    tables = {}
    kinds = {}
    # every py::class_ / py::enum_ in the module must be understood
    for m in re.finditer(r"\bpy\s*::\s*(class_|enum_)\s*<\s*([^()]*?)\s*>\s*\(\s*m\s*,\s*\"(\w+)\"\s*\)", t):
        what, cpp, pyname = m.group(1), "".join(m.group(2).split()), m.group(3)
        calls, _ = parse_chain(src, m.end())
        if what == "enum_":
            if cpp != "piqp::Status":
                src.fail(m.start(), f"unknown enum_ '{cpp}'")
            pairs = []
            exported = False
            for name, args, off in calls:
                if name == "value" and len(args) == 2:
                    a = re.match(r'^"(\w+)"$', args[0][0])
                    b = re.match(r"^piqp::Status::(" + IDENT + r")$", "".join(args[1][0].split()))
                    if not a or not b:
                        src.fail(off, "enum_<Status>: cannot parse .value(...)")
                    pairs.append({"dst": a.group(1), "src": b.group(1), **src.loc(off)})
                elif name == "export_values" and args == []:
                    exported = True
                else:
                    src.fail(off, f"enum_<Status>: unknown call .{name}(...)")
            classes.append((pyname, "Status"))
            tables["Status"] = pairs
            kinds["StatusExported"] = exported
            continue
        mm = re.match(r"^piqp::(Settings|Info|Result)<T>$", cpp)
        if mm:
            struct = mm.group(1)
            if struct in tables:
                src.fail(m.start(), f"second class_ for {struct}")
            pairs = []
            for name, args, off in calls:
                if name == "def" and len(args) == 1 and "".join(args[0][0].split()) == "py::init<>()":
                    continue
                if name in ("def_readwrite", "def_readonly") and len(args) == 2:
                    a = re.match(r'^"(\w+)"$', args[0][0])
                    b = re.match(r"^&piqp::(\w+)<T>::(" + IDENT + r")$", "".join(args[1][0].split()))
                    if not a or not b:
                        src.fail(off, f"class_<{struct}>: cannot parse .{name}(...)")
                    if b.group(1) != struct:
                        src.fail(off, f"class_<{struct}>: member pointer into a different struct piqp::{b.group(1)}")
                    pairs.append({"dst": a.group(1), "src": b.group(2),
                                  "kind": name[len("def_"):], **src.loc(off)})
                else:
                    src.fail(off, f"class_<{struct}>: call .{name}(...) is not a plain field binding the translator understands")
            classes.append((pyname, struct))
            tables[struct] = pairs
            continue
        # solver classes: through a `using X = ...;` alias
        am = re.search(r"^\s*using\s+" + re.escape(cpp) + r"\s*=\s*([^;]+);", t, re.M)
        if not am or not re.match(r"^piqp::(Dense|Sparse)Solver<", "".join(am.group(1).split())):
            src.fail(m.start(), f"class_<{cpp}>: not Settings/Info/Result and not a solver alias")
        props = []
        methods = []
        for name, args, off in calls:
            if name == "def" and len(args) == 1 and "".join(args[0][0].split()) == "py::init<>()":
                continue
            if name == "def" and len(args) >= 2 and re.match(r'^"(\w+)"$', args[0][0]):
                methods.append(args[0][0].strip('"'))
                continue
            if name in ("def_property", "def_property_readonly") and len(args) in (2, 3):
                a = re.match(r'^"(\w+)"$', args[0][0])
                gs = [re.match(r"^&" + re.escape(cpp) + r"::(" + IDENT + r")$", "".join(x[0].split())) for x in args[1:]]
                if not a or not all(gs) or len(set(g.group(1) for g in gs)) != 1:
                    src.fail(off, f"class_<{cpp}>: cannot parse .{name}(...)")
                if (name == "def_property") != (len(args) == 3):
                    src.fail(off, f"class_<{cpp}>: .{name} with {len(args)} arguments")
                props.append({"dst": a.group(1), "src": gs[0].group(1),
                              "kind": "readwrite" if name == "def_property" else "readonly", **src.loc(off)})
            else:
                src.fail(off, f"class_<{cpp}>: unknown call .{name}(...)")
        classes.append((pyname, cpp))
        tables["solver:" + cpp] = props
        kinds["methods:" + cpp] = methods
    expect_count(src, r"\.\s*def_(?:readwrite|readonly)\w*\s*\(",
                 sum(len(tables.get(k, [])) for k in ("Settings", "Info", "Result")), "def_readwrite/def_readonly calls")
    expect_count(src, r"\.\s*def_property\w*\s*\(",
                 sum(len(v) for k, v in tables.items() if k.startswith("solver:")), "def_property calls")
    expect_count(src, r"\.\s*value\s*\(", len(tables.get("Status", [])), "enum .value(...) calls")
    expect_count(src, r"\bpy\s*::\s*(?:class_|enum_)\b", len(classes), "py::class_/py::enum_ declarations")
    for need in ("Settings", "Info", "Result", "Status", "solver:DenseSolver", "solver:SparseSolver"):
        if need not in tables:
            raise TranslateError(f"{src.rel}:0: no pybind11 binding found for {need}")
    D["pybind"] = {"T": tm.group(1), "classes": classes, "settings": tables["Settings"], "info": tables["Info"],
                   "result": tables["Result"], "status": tables["Status"],
                   "status_exported": kinds["StatusExported"],
                   "dense_solver_props": tables["solver:DenseSolver"],
                   "sparse_solver_props": tables["solver:SparseSolver"],
                   "dense_solver_methods": kinds["methods:DenseSolver"],
                   "sparse_solver_methods": kinds["methods:SparseSolver"]}
    L["pyClasses"] = classes
    for s, key in (("Settings", "settings"), ("Info", "info"), ("Result", "result")):
        L[f"py{s}Pairs"] = [(x["dst"], x["src"]) for x in tables[s]]
        L[f"py{s}Kinds"] = [(x["dst"], x["kind"]) for x in tables[s]]
    L["pyStatusPairs"] = [(x["dst"], x["src"]) for x in tables["Status"]]
    L["pyStatusExported"] = kinds["StatusExported"]
    L["pyDenseSolverProps"] = [(x["dst"], x["src"], x["kind"]) for x in tables["solver:DenseSolver"]]
    L["pySparseSolverProps"] = [(x["dst"], x["src"], x["kind"]) for x in tables["solver:SparseSolver"]]


# --------------------------------------------------------------------------------------------- .pyi

def parse_pyi(S, D, L):
    src = S["pyi"]
    lines = src.raw.split("\n")
    offs = []
    o = 0
    for ln in lines:
        offs.append(o)
        o += len(ln) + 1
    # top-level blocks
    blocks = {}
    module_lines = []
    cur = None
    for idx, ln in enumerate(lines):
        if re.match(r"^class\s+(\w+)\s*(\(.*\))?:\s*$", ln):
            cur = re.match(r"^class\s+(\w+)", ln).group(1)
            if cur in blocks:
                src.fail(offs[idx], f"class {cur} defined twice")
            blocks[cur] = []
        elif ln[:1] not in (" ", "\t", "") and not ln.startswith("class "):
            cur = None
            module_lines.append((idx, ln))
        elif ln.startswith("class "):
            src.fail(offs[idx], "cannot parse class header")
        elif cur is not None:
            blocks[cur].append((idx, ln))
        elif ln.strip():
            src.fail(offs[idx], "indented line outside a class")

    def attrs(cls):
        if cls not in blocks:
            raise TranslateError(f"{src.rel}:0: no class {cls}")
        out = []
        in_def = False
        for idx, ln in blocks[cls]:
            if not ln.strip():
                continue
            ind = len(ln) - len(ln.lstrip())
            if ind > 4:
                if not in_def:
                    src.fail(offs[idx], f"class {cls}: unexpected nested line")
                continue
            in_def = False
            body = ln.strip()
            if body.startswith("def ") or body.startswith("@"):
                in_def = body.startswith("def ")
                if body.startswith("@") and not re.match(r"^@(property|\w+\.setter|staticmethod|typing\.overload)$", body):
                    src.fail(offs[idx], f"class {cls}: unknown decorator")
                if body.startswith("@property") or re.match(r"^@\w+\.setter$", body):
                    src.fail(offs[idx], f"class {cls}: property (not a plain attribute) in a field class")
                continue
            mm = re.match(r"^(" + IDENT + r")\s*:\s*(.+?)\s*$", body)
            if not mm:
                src.fail(offs[idx], f"class {cls}: cannot parse line '{body}'")
            out.append({"name": mm.group(1), "type": mm.group(2), **src.loc(offs[idx])})
        return out

    pset, pinfo, pres = attrs("Settings"), attrs("Info"), attrs("Result")

    VAL = r"#\s*value\s*=\s*<Status\.(\w+):\s*(-?\d+)>\s*$"
    # class Status
    if "Status" not in blocks:
        raise TranslateError(f"{src.rel}:0: no class Status")
    st = []
    in_doc = False
    in_def = False
    for idx, ln in blocks["Status"]:
        body = ln.strip()
        if not body:
            continue
        if in_doc:
            if body.endswith('"""'):
                in_doc = False
            continue
        if body.startswith('"""'):
            in_doc = not (len(body) > 3 and body.endswith('"""'))
            continue
        ind = len(ln) - len(ln.lstrip())
        if ind > 4:
            if not in_def:
                src.fail(offs[idx], "class Status: unexpected nested line")
            continue
        in_def = False
        if body.startswith("def "):
            in_def = True
            continue
        if body.startswith("@"):
            continue
        if body.startswith("__members__"):
            continue
        mm = re.match(r"^(" + IDENT + r")\s*:\s*typing\.ClassVar\[piqp\.Status\]\s*" + VAL, body)
        if not mm:
            src.fail(offs[idx], f"class Status: cannot parse line '{body[:80]}'")
        st.append({"name": mm.group(1), "value_name": mm.group(2), "value": int(mm.group(3)), **src.loc(offs[idx])})
    # module-level exported values
    mod = []
    for idx, ln in module_lines:
        mm = re.match(r"^(" + IDENT + r")\s*:\s*piqp\.Status\s*" + VAL, ln)
        if mm:
            mod.append({"name": mm.group(1), "value_name": mm.group(2), "value": int(mm.group(3)), **src.loc(offs[idx])})
        elif re.match(r"^PIQP_\w+\s*[:=]", ln):
            src.fail(offs[idx], "module-level PIQP_* line that is not a Status value")
    D["pyi"] = {"settings": pset, "info": pinfo, "result": pres, "status": st, "module_status": mod}
    for s, tab in (("Settings", pset), ("Info", pinfo), ("Result", pres)):
        L[f"pyi{s}Fields"] = [x["name"] for x in tab]
        L[f"pyi{s}Types"] = [(x["name"], x["type"]) for x in tab]
    L["pyiStatus"] = [(x["name"], x["value"]) for x in st]
    L["pyiStatusPairs"] = [(x["name"], x["value_name"]) for x in st]
    L["pyiModuleStatus"] = [(x["name"], x["value"]) for x in mod]
    L["pyiModuleStatusPairs"] = [(x["name"], x["value_name"]) for x in mod]


# --------------------------------------------------------------------------------------------- mex / oct

def classify_path(path, param, table):
    """path like settings.rho_init / result.info.iter / result.x, read from function parameter `param`.
    Returns the member name if the path has the shape expected for `table`, else the whole dotted path
    (which can never equal a key, so Lean refutes the pair)."""
    parts = path.split(".")
    if parts[0] != param:
        return None
    if table == "settings" and len(parts) == 2:
        return parts[1]
    if table == "result" and len(parts) == 2:
        return parts[1]
    if table == "info" and len(parts) == 3 and parts[1] == "info":
        return parts[2]
    return path


PATH = r"(" + IDENT + r"(?:\s*\.\s*" + IDENT + r")*)"


def parse_to_struct(src, fname, header_re, param_group, set_re, value_shapes, decl_shapes, ret_re, top_table):
    """Generic parser for settings_to_*_struct / result_to_*_struct.
       set_re matches a `set field` statement and yields (var, key, value_expr).
       value_shapes: list of (regex on value_expr -> path, conv name).
       decl_shapes: regexes of declaration statements that are allowed (named groups var / arr optional).
       Returns dict table -> pairs, plus arrays {table: array name}."""
    m, items, _ = function_body(src, header_re, fname)
    param = m.group(param_group)
    per_var = {}
    order = []
    nested = {}
    arrays = {}
    counts = {}
    ret_var = None
    for it in items:
        if it[0] != "stmt":
            src.fail(it[2], f"{fname}: unexpected block")
        text, off = it[1], it[2]
        if ret_var is not None:
            src.fail(off, f"{fname}: statement after return")
        done = False
        for dre in decl_shapes:
            dm = re.match(dre, text)
            if dm:
                gd = dm.groupdict()
                if gd.get("cnt"):
                    counts[gd["cnt"]] = gd["arr"]
                    if gd.get("arr2") != gd["arr"]:
                        src.fail(off, f"{fname}: sizeof of two different arrays")
                elif gd.get("var"):
                    if gd["var"] in per_var:
                        src.fail(off, f"{fname}: struct variable declared twice")
                    per_var[gd["var"]] = []
                    order.append(gd["var"])
                    if gd.get("arr"):
                        if counts.get(gd.get("n")) != gd["arr"]:
                            src.fail(off, f"{fname}: field count is not sizeof({gd['arr']})/sizeof({gd['arr']}[0])")
                        arrays[gd["var"]] = gd["arr"]
                done = True
                break
        if done:
            continue
        rm = re.match(ret_re, text)
        if rm:
            ret_var = rm.group(1)
            continue
        sm = re.match(set_re, text)
        if not sm:
            src.fail(off, f"{fname}: cannot parse statement '{text}'")
        var, key, val = sm.group(1), sm.group(2), sm.group(3).strip()
        if var not in per_var:
            src.fail(off, f"{fname}: field set on undeclared struct variable '{var}'")
        vm = re.match(r"^(" + IDENT + r")$", val)
        wrapped = re.match(r"^octave_value\s*\(\s*(" + IDENT + r")\s*\)$", val)
        nv = (vm or wrapped)
        if nv and nv.group(1) in per_var:
            if nv.group(1) in nested or nv.group(1) == var:
                src.fail(off, f"{fname}: struct variable nested twice")
            nested[nv.group(1)] = (var, key)
            per_var[var].append({"dst": key, "src": None, "nested": nv.group(1), "conv": "struct", **src.loc(off)})
            continue
        for vre, conv in value_shapes:
            xm = re.match(vre, val)
            if xm:
                per_var[var].append({"dst": key, "path": "".join(xm.group(1).split()), "conv": conv, **src.loc(off)})
                break
        else:
            src.fail(off, f"{fname}: cannot parse the value expression '{val}' of key \"{key}\"")
    if ret_var is None or ret_var not in per_var:
        raise TranslateError(f"{src.rel}:0: {fname}: does not return one of its struct variables")
    if ret_var in nested:
        raise TranslateError(f"{src.rel}:0: {fname}: returned struct is also nested")
    table_of = {ret_var: top_table}
    for v, (parent, key) in nested.items():
        if parent != ret_var:
            raise TranslateError(f"{src.rel}:0: {fname}: struct '{v}' nested into a non-returned struct")
        table_of[v] = key          # the nested struct under key "info" is the info table
    for v in per_var:
        if v not in table_of:
            raise TranslateError(f"{src.rel}:0: {fname}: struct variable '{v}' is filled but never used")
    out = {}
    for v in order:
        tab = table_of[v]
        if tab not in ("settings", "info", "result"):
            raise TranslateError(f"{src.rel}:0: {fname}: nested struct under unknown key \"{tab}\"")
        if tab in out:
            raise TranslateError(f"{src.rel}:0: {fname}: two structs for table {tab}")
        pairs = []
        for p in per_var[v]:
            if "nested" in p:
                # nested struct x under key k stands for member k of the parent (Result::info)
                p = dict(p)
                p["src"] = table_of[p.pop("nested")]
                pairs.append(p)
                continue
            mem = classify_path(p["path"], param, tab)
            if mem is None:
                raise TranslateError(f"{p['file']}:{p['line']}: {fname}: value '{p['path']}' is not read from parameter '{param}'")
            p = dict(p)
            p["src"] = mem
            pairs.append(p)
        out[tab] = pairs
    return out, {table_of[v]: a for v, a in arrays.items()}


def parse_uses(src, disp_range, fnames):
    """Call sites of the copy functions inside the dispatcher: (function, dense|sparse, settings|result)."""
    t = src.text[disp_range[0]:disp_range[1]]
    uses = []
    for m in re.finditer(r"\b(" + "|".join(fnames) + r")\s*\(", t):
        ob = disp_range[0] + m.end() - 1
        cb = match_close(src.text, ob, src)
        arg = "".join(src.text[ob + 1:cb].split())
        mm = re.search(r"->as_(dense|sparse)_ptr\(\)->(settings|result)\(\)$", arg)
        if not mm:
            src.fail(ob, f"call of {m.group(1)} whose last argument is not <handle>->as_(dense|sparse)_ptr()->settings()/result()")
        uses.append({"fn": m.group(1), "backend": mm.group(1), "object": mm.group(2), **src.loc(ob)})
    return uses


def parse_mex(S, D, L):
    src = S["mex"]
    t = src.text
    arrays = {}
    for m in re.finditer(r"\bconst\s+char\s*\*\s*(" + IDENT + r")\s*\[\s*\]\s*=\s*\{", t):
        ob = m.end() - 1
        cb = match_close(t, ob, src)
        names = []
        for text, off in split_args(src, ob + 1, cb):
            mm = re.match(r'^"(\w+)"$', text)
            if not mm:
                src.fail(off, f"{m.group(1)}: element is not a plain string literal: '{text}'")
            names.append({"name": mm.group(1), **src.loc(off + (len(t[off:]) - len(t[off:].lstrip())))})
        arrays[m.group(1)] = names
    for need in ("PIQP_SETTINGS_FIELDS", "PIQP_INFO_FIELDS", "PIQP_RESULT_FIELDS"):
        if need not in arrays:
            raise TranslateError(f"{src.rel}:0: field-name array {need} not found")

    set_re = r'^mxSetField\s*\(\s*(\w+)\s*,\s*0\s*,\s*"(\w+)"\s*,\s*(.+)\)$'
    shapes = [
        (r"^mxCreateDoubleScalar\s*\(\s*(?:\(\s*double\s*\)\s*)?" + PATH + r"\s*\)$", "double"),
        (r"^mxCreateString\s*\(\s*piqp::status_to_string\s*\(\s*" + PATH + r"\s*\)\s*\)$", "status_to_string"),
        (r"^eigen_to_mx\s*\(\s*" + PATH + r"\s*\)$", "vector"),
    ]
    decls = [
        r"^int\s+(?P<cnt>\w+)\s*=\s*sizeof\s*\(\s*(?P<arr>\w+)\s*\)\s*/\s*sizeof\s*\(\s*(?P<arr2>\w+)\s*\[\s*0\s*\]\s*\)$",
        r"^mxArray\s*\*\s*(?P<var>\w+)\s*=\s*mxCreateStructMatrix\s*\(\s*1\s*,\s*1\s*,\s*(?P<n>\w+)\s*,\s*(?P<arr>\w+)\s*\)$",
    ]
    ret = r"^return\s+(\w+)$"
    s_out, s_arr = parse_to_struct(
        src, "settings_to_mx_struct",
        r"\bmxArray\s*\*\s*settings_to_mx_struct\s*\(\s*const\s+piqp::Settings\s*<\s*double\s*>\s*&\s*(\w+)\s*\)",
        1, set_re, shapes, decls, ret, "settings")
    r_out, r_arr = parse_to_struct(
        src, "result_to_mx_struct",
        r"\bmxArray\s*\*\s*result_to_mx_struct\s*\(\s*const\s+piqp::Result\s*<\s*double\s*>\s*&\s*(\w+)\s*\)",
        1, set_re, shapes, decls, ret, "result")
    if set(s_out) != {"settings"} or set(r_out) != {"info", "result"}:
        raise TranslateError(f"{src.rel}:0: to-struct functions do not produce exactly settings / info+result")

    m, items, _ = function_body(
        src, r"\bvoid\s+copy_mx_struct_to_settings\s*\(\s*const\s+mxArray\s*\*\s*(\w+)\s*,\s*piqp::Settings\s*<\s*double\s*>\s*&\s*(\w+)\s*\)",
        "copy_mx_struct_to_settings")
    mx_v, set_v = m.group(1), m.group(2)
    from_pairs = []
    for it in items:
        if it[0] != "stmt":
            src.fail(it[2], "copy_mx_struct_to_settings: unexpected block")
        mm = re.match(r"^" + set_v + r"\s*\.\s*(" + IDENT + r")\s*=\s*\(\s*([\w:]+)\s*\)\s*mxGetScalar\s*\(\s*mxGetField\s*\(\s*" + mx_v + r'\s*,\s*0\s*,\s*"(\w+)"\s*\)\s*\)$', it[1])
        if not mm:
            src.fail(it[2], f"copy_mx_struct_to_settings: cannot parse statement '{it[1]}'")
        from_pairs.append({"dst": mm.group(1), "src": mm.group(3), "conv": mm.group(2), **src.loc(it[2])})

    dm = find_unique(src, r"\bvoid\s+mexFunction\s*\([^)]*\)\s*\{", "mexFunction", re.S)
    ob = dm.end() - 1
    cb = match_close(t, ob, src)
    uses = parse_uses(src, (ob + 1, cb), ["settings_to_mx_struct", "copy_mx_struct_to_settings", "result_to_mx_struct"])

    expect_count(src, r"\bmxSetField\s*\(", len(s_out["settings"]) + len(r_out["info"]) + len(r_out["result"]),
                 "mxSetField calls")
    expect_count(src, r"\bmxGetField\s*\(", len(from_pairs), "mxGetField calls")
    expect_count(src, r"\bmxCreateStructMatrix\s*\(", 3, "mxCreateStructMatrix calls")

    struct_arrays = [("settings", s_arr.get("settings", "")), ("info", r_arr.get("info", "")), ("result", r_arr.get("result", ""))]
    D["mex"] = {"arrays": arrays, "struct_arrays": struct_arrays,
                "settings_to_struct": s_out["settings"], "struct_to_settings": from_pairs,
                "info_to_struct": r_out["info"], "result_to_struct": r_out["result"], "uses": uses}
    L["mexSettingsFieldArray"] = [x["name"] for x in arrays["PIQP_SETTINGS_FIELDS"]]
    L["mexInfoFieldArray"] = [x["name"] for x in arrays["PIQP_INFO_FIELDS"]]
    L["mexResultFieldArray"] = [x["name"] for x in arrays["PIQP_RESULT_FIELDS"]]
    L["mexStructArrays"] = struct_arrays
    L["mexSettingsToStruct"] = [(x["dst"], x["src"]) for x in s_out["settings"]]
    L["mexStructToSettings"] = [(x["dst"], x["src"]) for x in from_pairs]
    L["mexStructToSettingsConv"] = [(x["dst"], x["conv"]) for x in from_pairs]
    L["mexInfoToStruct"] = [(x["dst"], x["src"]) for x in r_out["info"]]
    L["mexResultToStruct"] = [(x["dst"], x["src"]) for x in r_out["result"]]
    L["mexUses"] = [(x["fn"], x["backend"], x["object"]) for x in uses]


def parse_oct(S, D, L):
    src = S["oct"]
    t = src.text
    set_re = r'^(\w+)\s*\.\s*assign\s*\(\s*"(\w+)"\s*,\s*(.+)\)$'
    shapes = [
        (r"^octave_value\s*\(\s*piqp::status_to_string\s*\(\s*" + PATH + r"\s*\)\s*\)$", "status_to_string"),
        (r"^octave_value\s*\(\s*" + PATH + r"\s*\)$", "octave_value"),
        (r"^eigen_to_ov\s*\(\s*" + PATH + r"\s*\)$", "vector"),
    ]
    decls = [r"^octave_scalar_map\s+(?P<var>\w+)$"]
    ret = r"^return\s+octave_value\s*\(\s*(\w+)\s*\)$"
    s_out, _ = parse_to_struct(
        src, "settings_to_ov_struct",
        r"\boctave_value\s+settings_to_ov_struct\s*\(\s*const\s+piqp::Settings\s*<\s*double\s*>\s*&\s*(\w+)\s*\)",
        1, set_re, shapes, decls, ret, "settings")
    r_out, _ = parse_to_struct(
        src, "result_to_ov_struct",
        r"\boctave_value\s+result_to_ov_struct\s*\(\s*const\s+piqp::Result\s*<\s*double\s*>\s*&\s*(\w+)\s*\)",
        1, set_re, shapes, decls, ret, "result")
    if set(s_out) != {"settings"} or set(r_out) != {"info", "result"}:
        raise TranslateError(f"{src.rel}:0: to-struct functions do not produce exactly settings / info+result")

    m, items, _ = function_body(
        src, r"\bvoid\s+copy_ov_struct_to_settings\s*\(\s*const\s+octave_scalar_map\s*&\s*(\w+)\s*,\s*piqp::Settings\s*<\s*double\s*>\s*&\s*(\w+)\s*\)",
        "copy_ov_struct_to_settings")
    ov_v, set_v = m.group(1), m.group(2)
    from_pairs = []
    for it in items:
        if it[0] != "stmt":
            src.fail(it[2], "copy_ov_struct_to_settings: unexpected block")
        mm = re.match(r"^" + set_v + r"\s*\.\s*(" + IDENT + r")\s*=\s*" + ov_v + r'\s*\.\s*getfield\s*\(\s*"(\w+)"\s*\)\s*\.\s*(\w+)\s*\(\s*\)$', it[1])
        if not mm:
            src.fail(it[2], f"copy_ov_struct_to_settings: cannot parse statement '{it[1]}'")
        from_pairs.append({"dst": mm.group(1), "src": mm.group(2), "conv": mm.group(3), **src.loc(it[2])})

    dm = find_unique(src, r"\bDEFUN_DLD\s*\(\s*piqp_oct\b[^)]*\)\s*\{", "DEFUN_DLD(piqp_oct, ...)", re.S)
    ob = dm.end() - 1
    cb = match_close(t, ob, src)
    uses = parse_uses(src, (ob + 1, cb), ["settings_to_ov_struct", "copy_ov_struct_to_settings", "result_to_ov_struct"])

    expect_count(src, r"\.\s*assign\s*\(", len(s_out["settings"]) + len(r_out["info"]) + len(r_out["result"]),
                 "octave_scalar_map::assign calls")
    expect_count(src, r"\.\s*getfield\s*\(", len(from_pairs), "getfield calls")

    D["oct"] = {"settings_to_struct": s_out["settings"], "struct_to_settings": from_pairs,
                "info_to_struct": r_out["info"], "result_to_struct": r_out["result"], "uses": uses}
    L["octSettingsToStruct"] = [(x["dst"], x["src"]) for x in s_out["settings"]]
    L["octStructToSettings"] = [(x["dst"], x["src"]) for x in from_pairs]
    L["octStructToSettingsConv"] = [(x["dst"], x["conv"]) for x in from_pairs]
    L["octInfoToStruct"] = [(x["dst"], x["src"]) for x in r_out["info"]]
    L["octResultToStruct"] = [(x["dst"], x["src"]) for x in r_out["result"]]
    L["octUses"] = [(x["fn"], x["backend"], x["object"]) for x in uses]


# --------------------------------------------------------------------------------------------- docs

def md_table(src, header_cells):
    """Find the markdown table whose header row has exactly the given cells; return rows [(cells, off)].
    Every line of the table must be a well-formed row."""
    lines = src.raw.split("\n")
    offs = []
    o = 0
    for ln in lines:
        offs.append(o)
        o += len(ln) + 1

    def cells(ln):
        s = ln.strip()
        if not (s.startswith("|") and s.endswith("|") and len(s) >= 2):
            return None
        return [c.strip() for c in s[1:-1].split("|")]
    found = [i for i, ln in enumerate(lines) if cells(ln) == header_cells]
    if len(found) != 1:
        raise TranslateError(f"{src.rel}:0: expected exactly one table with header {header_cells}, found {len(found)}")
    i = found[0] + 1
    sep = cells(lines[i]) if i < len(lines) else None
    if not sep or len(sep) != len(header_cells) or not all(re.match(r"^:?-+:?$", c) for c in sep):
        src.fail(offs[min(i, len(lines) - 1)], "table separator row expected")
    rows = []
    i += 1
    while i < len(lines) and lines[i].strip().startswith("|"):
        cs = cells(lines[i])
        if cs is None or len(cs) != len(header_cells):
            src.fail(offs[i], f"table row does not have {len(header_cells)} cells")
        rows.append((cs, offs[i]))
        i += 1
    if not rows:
        raise TranslateError(f"{src.rel}:0: table {header_cells} has no rows")
    return rows


def parse_docs(S, D, L):
    ds, dt = S["docs_settings"], S["docs_status"]
    srows = []
    for cs, off in md_table(ds, ["Argument", "Default Value", "Description"]):
        a = re.match(r"^`(" + IDENT + r")`$", cs[0])
        b = re.match(r"^`([^`]+)`$", cs[1])
        if not a or not b:
            ds.fail(off, "settings table: name and default must each be one `code` span")
        cv = canon_value(b.group(1))
        srows.append({"name": a.group(1), "text": b.group(1),
                      "default": cv if cv is not None else "raw:" + b.group(1), **ds.loc(off)})
    trows = []
    for cs, off in md_table(dt, ["Status Code", "Value", "Description"]):
        a = re.match(r"^`?(" + IDENT + r")`?$", cs[0])
        b = re.match(r"^`?(-?\d+)`?$", cs[1])
        if not a or not b:
            dt.fail(off, "status table: cannot parse name / integer value")
        trows.append({"name": a.group(1), "value": int(b.group(1)), **dt.loc(off)})
    D["docs"] = {"settings": srows, "status": trows}
    L["docsSettingsDefaults"] = [(x["name"], x["default"]) for x in srows]
    L["docsStatus"] = [(x["name"], x["value"]) for x in trows]


# --------------------------------------------------------------------------------------------- Lean rendering

def lean_str(s):
    out = ['"']
    for ch in s:
        if ch == "\\":
            out.append("\\\\")
        elif ch == '"':
            out.append('\\"')
        elif ch == "\n":
            out.append("\\n")
        elif ch == "\t":
            out.append("\\t")
        elif 32 <= ord(ch) < 127:
            out.append(ch)
        else:
            out.append("\\u{%x}" % ord(ch))
    out.append('"')
    return "".join(out)


def lean_val(v):
    if isinstance(v, bool):
        return "true" if v else "false"
    if isinstance(v, int):
        return str(v) if v >= 0 else f"({v})"
    if isinstance(v, str):
        return lean_str(v)
    if isinstance(v, tuple):
        return "(" + ", ".join(lean_val(x) for x in v) + ")"
    raise TypeError(v)


def lean_type_of_scalar(v):
    if isinstance(v, bool):
        return "Bool"
    if isinstance(v, int):
        return "Int"
    if isinstance(v, str):
        return "String"
    if isinstance(v, tuple):
        return " × ".join(lean_type_of_scalar(x) for x in v)
    raise TypeError(v)


# element type of the list-valued tables that are not List (String × String); needed because a table may
# come out empty (which Lean must then refute, not fail to elaborate)
EMPTY_ELEM_TYPES = {}


def lean_type(name, v):
    if isinstance(v, list):
        declared = EMPTY_ELEM_TYPES.get(name, "String × String")
        if v:
            ts = {lean_type_of_scalar(x) for x in v}
            if ts != {declared}:
                raise TranslateError(f"internal: table {name} has element type(s) {sorted(ts)}, declared {declared}")
        return f"List ({declared})" if "×" in declared else f"List {declared}"
    return lean_type_of_scalar(v)


def normalise(L):
    """json-roundtrip-stable representation: tuples for rows."""
    out = {}
    for k, v in L.items():
        if isinstance(v, list):
            out[k] = [tuple(x) if isinstance(x, (list, tuple)) else x for x in v]
        else:
            out[k] = v
    return out


def register_empty_types():
    S3, SI = "String × String × String", "String × Int"
    for name in ("coreSettingsFields coreInfoFields coreResultFields cSettingsFields cInfoFields cResultFields "
                 "pyiSettingsFields pyiInfoFields pyiResultFields mexSettingsFieldArray mexInfoFieldArray "
                 "mexResultFieldArray").split():
        EMPTY_ELEM_TYPES[name] = "String"
    for name in "coreStatus cStatus pyiStatus pyiModuleStatus docsStatus".split():
        EMPTY_ELEM_TYPES[name] = SI
    for name in "pyDenseSolverProps pySparseSolverProps mexUses octUses".split():
        EMPTY_ELEM_TYPES[name] = S3


def render_lean(L, shas, repo_label):
    lines = [
        "/-",
        "GENERATED by /verif/translate/tables.py on every check -- do not edit.",
        "Tables extracted from the binding sources of PIQP (tie C).  Plain core Lean: no imports.",
        "(The digests of the source files are in build/tables.json and in the evidence, not here, so that this",
        " file -- and everything lake builds from it -- changes only when a table changes.)",
        "-/", "", "namespace Piqp.Gen", ""]
    for name, v in L.items():
        ty = lean_type(name, v)
        if isinstance(v, list):
            if not v:
                lines.append(f"def {name} : {ty} := []")
            else:
                lines.append(f"def {name} : {ty} := [")
                for i, x in enumerate(v):
                    lines.append("  " + lean_val(x) + ("," if i + 1 < len(v) else ""))
                lines.append("]")
        else:
            lines.append(f"def {name} : {ty} := {lean_val(v)}")
        lines.append("")
    lines += ["end Piqp.Gen", ""]
    return "\n".join(lines)


def write_if_changed(path, content):
    os.makedirs(os.path.dirname(path), exist_ok=True)
    try:
        with open(path) as f:
            if f.read() == content:
                return False
    except OSError:
        pass
    tmp = f"{path}.tmp{os.getpid()}"
    with open(tmp, "w") as f:
        f.write(content)
    os.replace(tmp, path)
    return True


# --------------------------------------------------------------------------------------------- driver

def translate(repo):
    S = {}
    for key, rel in FILES.items():
        S[key] = Src(repo, rel, c_like=rel.endswith((".cpp", ".h", ".hpp")))
    D, L = {}, {}
    parse_core(S, D, L)
    parse_c(S, D, L)
    parse_pybind(S, D, L)
    parse_pyi(S, D, L)
    parse_mex(S, D, L)
    parse_oct(S, D, L)
    parse_docs(S, D, L)
    register_empty_types()
    L = normalise(L)
    shas = [(S[k].rel, S[k].sha) for k in FILES]
    return D, L, shas


def default_paths():
    return (os.path.join(ROOT, "lean", "PiqpProofs", "Generated", "Tables.lean"),
            os.path.join(ROOT, "build", "tables.json"))


def main(argv=None):
    argv = sys.argv[1:] if argv is None else argv
    repo = os.environ.get("VERIF_REPO", "/repo")
    out_lean, out_json = default_paths()
    i = 0
    while i < len(argv):
        if argv[i] == "--repo":
            repo = argv[i + 1]
            i += 2
        elif argv[i] == "--out-lean":
            out_lean = argv[i + 1]
            i += 2
        elif argv[i] == "--out-json":
            out_json = argv[i + 1]
            i += 2
        else:
            print(f"usage: tables.py [--repo DIR] [--out-lean FILE] [--out-json FILE]", file=sys.stderr)
            return 64
    try:
        D, L, shas = translate(repo)
        lean = render_lean(L, shas, repo)
    except TranslateError as e:
        print(f"TRANSLATE-ERROR {e}", flush=True)
        return 2
    changed = write_if_changed(out_lean, lean)
    js = json.dumps({"repo": repo, "sources": [{"file": r, "sha256": s} for r, s in shas],
                     "lean_sha256": hashlib.sha256(lean.encode()).hexdigest(),
                     "lean": {k: v for k, v in L.items()}, "detail": D}, indent=1, sort_keys=False)
    write_if_changed(out_json, js)
    n = sum(len(v) if isinstance(v, list) else 1 for v in L.values())
    print(f"tables: {len(L)} tables, {n} rows from {repo} -> {os.path.relpath(out_lean, ROOT)}"
          f" ({'rewritten' if changed else 'unchanged'}), {os.path.relpath(out_json, ROOT)}")
    return 0


if __name__ == "__main__":
    sys.exit(main())
