#!/usr/bin/env python3
"""statics.py -- tie C for C07: list every variable with static storage duration that the solver sources could mutate.

Scans the CURRENT sources under <repo>/include/piqp (all *.hpp / *.tpp / *.h) and <repo>/interfaces/c (src, include):
after removing comments, string/char literals and preprocessor lines it finds

  * every declaration introduced by `static` or `thread_local` (at namespace, class or block scope),
  * every `inline` variable (C++17),
  * every namespace-scope variable definition in a *.cpp file,

and keeps those that are variables (not functions) and not `const` / `constexpr`.  The result is written as a plain Lean
table  <verif>/lean/PiqpProofs/Generated/Statics.lean  (`Piqp.Gen.mutableStatics`) and as JSON.  PiqpProofs/Properties/C07.lean
proves by `decide` that every entry lies in the PIQP_VERIF hook header, i.e. that the code has no global component -- which is
what ties `instances_independent` / `garbage_independent` (the model's step function reads the state of *this* instance only)
to the source.

Vendored utility headers that the solver classes do not use (filesystem shim, tl::optional, matio glue) are excluded and named
in EXCLUDED (trusted base).  The scanner fails closed: a `static` it cannot classify is reported as mutable.
"""
import hashlib
import json
import os
import re
import sys

ROOT = os.path.dirname(os.path.dirname(os.path.abspath(__file__)))
sys.path.insert(0, os.path.dirname(os.path.abspath(__file__)))
from tables import strip_c_comments, write_if_changed, lean_str  # noqa: E402

EXCLUDED = ["include/piqp/utils/ghc_filesystem.hpp", "include/piqp/utils/tl_optional.hpp", "include/piqp/utils/eigen_matio.hpp"]
HOOKS = "include/piqp/verif_hooks.hpp"
ROOTS = ["include/piqp", "interfaces/c/src", "interfaces/c/include"]
EXT = (".hpp", ".tpp", ".h", ".cpp", ".c")


def blank_literals_and_pp(s):
    """string/char literals -> "" / '' padded with blanks; preprocessor lines (with continuations) -> blanks"""
    out = list(s)
    i, n = 0, len(s)
    while i < n:
        c = s[i]
        if c == '"' or c == "'":
            j = i + 1
            while j < n and s[j] != c and s[j] != "\n":
                if s[j] == "\\":
                    j += 1
                j += 1
            for k in range(i + 1, min(j, n)):
                if out[k] != "\n":
                    out[k] = " "
            i = j + 1
        else:
            i += 1
    s2 = "".join(out)
    lines = s2.split("\n")
    k = 0
    while k < len(lines):
        if lines[k].lstrip().startswith("#"):
            while True:
                cont = lines[k].rstrip().endswith("\\")
                lines[k] = " " * len(lines[k])
                k += 1
                if not cont or k >= len(lines):
                    break
        else:
            k += 1
    return "\n".join(lines)


def statement_from(s, i):
    """text of the declaration starting at offset i up to the first ';' or '{' at parenthesis/angle depth 0 (exclusive),
    and the terminator"""
    depth = 0
    j = i
    n = len(s)
    while j < n:
        c = s[j]
        if c in "([":
            depth += 1
        elif c in ")]":
            depth -= 1
        elif depth == 0 and c in ";{":
            return s[i:j], c
        j += 1
    return s[i:], ""


def classify(decl):
    """-> 'function' | 'const' | 'mutable'"""
    head = decl.split("=", 1)[0]
    toks = re.findall(r"[A-Za-z_]\w*|\S", head)
    if "const" in toks or "constexpr" in toks or "constinit" in toks:
        # `T* const p` / `const T x` are immutable objects; `const T* p` (mutable pointer to const) is not distinguished and
        # is reported conservatively as mutable when the last token before the name is '*'
        if not re.search(r"const\s+[\w:<>,\s]+\*\s*\w+\s*$", head.strip()):
            return "const"
    # a '(' at depth 0 before any '=' : function declarator (or a direct-initialised variable: reported as function only
    # when the parenthesis content looks like a parameter list or is empty)
    m = re.search(r"([A-Za-z_~]\w*)\s*\(", head)
    if m:
        inside = head[m.end():]
        close = inside.rfind(")")
        params = inside[:close] if close >= 0 else inside
        looks_like_params = params.strip() == "" or re.search(r"[A-Za-z_]\w*\s*[&*]*\s+[&*]*\s*[A-Za-z_]\w*|[&*]\s*[A-Za-z_]\w*\s*(,|$)|\bvoid\b|\.\.\.", params) is not None
        if looks_like_params or "operator" in head:
            return "function"
    return "mutable"


def top_level_cpp_vars(s):
    """namespace-scope statements of a .cpp that look like variable definitions (crude, conservative)"""
    found = []
    depth = 0
    i, n = 0, len(s)
    start = 0
    ns_stack = []
    while i < n:
        c = s[i]
        if c == "{":
            head = s[start:i]
            is_ns = re.search(r"\b(namespace\b[^;{}()]*|extern\s*\"[^\"]*\"\s*)$", head.strip() + "") is not None or re.search(r"\bnamespace\b[^;{}()=]*$", head) is not None or re.search(r"extern\s*\"\s*\"?\s*$", head) is not None or re.search(r"extern\s+\"\"\s*$", head) is not None
            ns_stack.append(is_ns and all(ns_stack))
            depth += 1
            start = i + 1
        elif c == "}":
            if ns_stack:
                ns_stack.pop()
            depth -= 1
            start = i + 1
        elif c == ";":
            if all(ns_stack):
                st = s[start:i].strip()
                if st and not re.match(r"(using|typedef|template|extern|static_assert|friend|namespace|class|struct|enum|return)\b", st) \
                        and "(" not in st.split("=", 1)[0] and re.search(r"[A-Za-z_]\w*\s*(=|$|\[)", st) and len(st.split()) >= 2:
                    found.append((start, st))
            start = i + 1
        i += 1
    return found


def scan(repo):
    entries = []
    files = []
    for root in ROOTS:
        base = os.path.join(repo, root)
        for dp, _, fns in sorted(os.walk(base)):
            for fn in sorted(fns):
                if fn.endswith(EXT):
                    files.append(os.path.relpath(os.path.join(dp, fn), repo))
    shas = []
    for rel in files:
        if rel in EXCLUDED:
            continue
        with open(os.path.join(repo, rel), encoding="utf-8", errors="replace") as f:
            raw = f.read()
        shas.append((rel, hashlib.sha256(raw.encode()).hexdigest()))
        s = blank_literals_and_pp(strip_c_comments(raw))

        def line_of(off):
            return s.count("\n", 0, off) + 1
        seen = set()
        for m in re.finditer(r"\b(static|thread_local)\b", s):
            # skip static_cast / static_assert (different tokens thanks to \b + exact match) and `static` inside a longer decl
            decl, term = statement_from(s, m.start())
            kind = classify(decl)
            if kind == "mutable":
                key = (line_of(m.start()))
                if key not in seen:
                    seen.add(key)
                    entries.append((rel, line_of(m.start()), " ".join(decl.split())[:120]))
        for m in re.finditer(r"\binline\b", s):
            decl, term = statement_from(s, m.start())
            if "static" in decl.split("=", 1)[0].split():
                continue  # already seen through `static`
            if classify(decl) == "mutable" and term == ";" :
                ln = line_of(m.start())
                if ln not in seen:
                    seen.add(ln)
                    entries.append((rel, ln, " ".join(decl.split())[:120]))
        if rel.endswith((".cpp", ".c")):
            for off, st in top_level_cpp_vars(s):
                toks = st.split("=", 1)[0].split()
                if "const" in toks or "constexpr" in toks or "static" in toks:
                    continue
                ln = line_of(off + (len(s[off:]) - len(s[off:].lstrip())))
                if ln not in seen:
                    seen.add(ln)
                    entries.append((rel, ln, " ".join(st.split())[:120]))
    return entries, shas


def render(entries, shas, repo):
    src = hashlib.sha256("".join(f"{r}:{h}\n" for r, h in shas).encode()).hexdigest()
    out = ["/- GENERATED by /verif/translate/statics.py from the current sources -- do not edit.",
           f"   repo: {repo}   files scanned: {len(shas)}   sha256 over (file, sha256) list: {src}",
           "   excluded (vendored, not used by the solver classes): " + ", ".join(EXCLUDED) + " -/",
           "namespace Piqp.Gen",
           "",
           "/-- (file, line, declaration) of every mutable variable with static storage duration in the solver sources -/",
           "def mutableStatics : List (String × Nat × String) := ["]
    out.append(",\n".join(f"  ({lean_str(r)}, {ln}, {lean_str(d)})" for r, ln, d in entries))
    out.append("]")
    out.append("")
    out.append(f"def staticsHookHeader : String := {lean_str(HOOKS)}")
    out.append("")
    out.append("end Piqp.Gen")
    return "\n".join(out) + "\n"


def default_paths():
    return (os.path.join(ROOT, "lean", "PiqpProofs", "Generated", "Statics.lean"), os.path.join(ROOT, "build", "statics.json"))


def main(argv=None):
    argv = sys.argv[1:] if argv is None else argv
    repo = os.environ.get("VERIF_REPO", "/repo")
    out_lean, out_json = default_paths()
    i = 0
    while i < len(argv):
        if argv[i] == "--repo":
            repo = argv[i + 1]; i += 2
        elif argv[i] == "--out-lean":
            out_lean = argv[i + 1]; i += 2
        elif argv[i] == "--out-json":
            out_json = argv[i + 1]; i += 2
        else:
            print("usage: statics.py [--repo DIR] [--out-lean FILE] [--out-json FILE]", file=sys.stderr)
            return 64
    entries, shas = scan(repo)
    lean = render(entries, shas, repo)
    write_if_changed(out_lean, lean)
    os.makedirs(os.path.dirname(out_json), exist_ok=True)
    with open(out_json, "w") as f:
        json.dump({"repo": repo, "entries": [{"file": r, "line": ln, "decl": d} for r, ln, d in entries],
                   "files": len(shas), "excluded": EXCLUDED, "hooks": HOOKS,
                   "lean_sha256": hashlib.sha256(lean.encode()).hexdigest()}, f, indent=1)
    print(f"statics: {len(entries)} mutable static-storage variables in {len(shas)} files "
          f"({sum(1 for r, _, _ in entries if r != HOOKS)} outside the hook header)")
    return 0


if __name__ == "__main__":
    sys.exit(main())
